//! Executable transcriptions of the spec functions in /verif/prelude/apath_spec.rs, compared with the
//! real `conserve::Apath` on enumerated inputs.
//! Round 8, `apath_valid`: on every enumerated string also `str::parse::<Apath>()` and the serde decoding succeed exactly
//! when `is_valid` / the transcription say well-formed (C11, C10), and Display / to_string / Deref / AsRef / String::from /
//! the JSON encoding of a well-formed path give back its raw text, control characters included (C12, C16).

use std::cmp::Ordering;

use conserve::Apath;
use serde_json::{json, Value};

pub fn dispatch(mode: &str, kind: &str, input: Option<&Value>) -> Option<Value> {
    Some(match (mode, kind) {
        ("search", "apath_prefix") => search_prefix(),
        ("replay", "apath_prefix") => replay_prefix(input?),
        ("search", "apath_cmp") => search_cmp(),
        ("replay", "apath_cmp") => replay_cmp(input?),
        ("search", "apath_valid") => search_valid(),
        ("replay", "apath_valid") => replay_valid(input?),
        ("search", "apath_deserialize") | ("replay", "apath_deserialize") => search_deserialize(),
        _ => return None,
    })
}

/// Component alphabet: bytes below and above '/', multi-byte UTF-8, shared prefixes.
const COMPS: &[&str] = &["a", "ab", "a.b", "a b", "b", "é", "éa", "日", "-", "~", "a-", "0", "a\\b"];

pub fn gen_paths(max_depth: usize) -> Vec<String> {
    let mut out = vec!["/".to_string()];
    let mut level: Vec<String> = vec![String::new()];
    for _ in 0..max_depth {
        let mut next = Vec::new();
        for p in &level {
            for c in COMPS {
                next.push(format!("{p}/{c}"));
            }
        }
        out.extend(next.iter().cloned());
        level = next;
    }
    out
}

// ---- spec transcriptions -------------------------------------------------------------------

fn split(s: &[u8]) -> Vec<Vec<u8>> {
    let mut out = vec![Vec::new()];
    for &b in s {
        if b == b'/' {
            out.push(Vec::new());
        } else {
            out.last_mut().unwrap().push(b);
        }
    }
    out
}

fn seq_lex(a: &[Vec<u8>], b: &[Vec<u8>]) -> Ordering {
    let mut i = 0;
    loop {
        match (a.get(i), b.get(i)) {
            (None, None) => return Ordering::Equal,
            (None, Some(_)) => return Ordering::Less,
            (Some(_), None) => return Ordering::Greater,
            (Some(x), Some(y)) => match x.as_slice().cmp(y.as_slice()) {
                Ordering::Equal => i += 1,
                o => return o,
            },
        }
    }
}

/// doc_cmp of apath_spec.rs
pub fn doc_cmp(a: &str, b: &str) -> Ordering {
    let ca = split(a.as_bytes());
    let cb = split(b.as_bytes());
    match seq_lex(&ca[..ca.len() - 1], &cb[..cb.len() - 1]) {
        Ordering::Equal => ca.last().unwrap().as_slice().cmp(cb.last().unwrap().as_slice()),
        o => o,
    }
}

/// under(s, a) of apath_spec.rs
pub fn under(s: &str, a: &str) -> bool {
    let (s, a) = (s.as_bytes(), a.as_bytes());
    if a == s {
        return true;
    }
    if s == b"/" && a.starts_with(s) {
        return true;
    }
    let mut sp = s.to_vec();
    sp.push(b'/');
    a.starts_with(&sp)
}

/// valid_bytes of apath_spec.rs
pub fn valid(s: &str) -> bool {
    let b = s.as_bytes();
    if b.is_empty() || b[0] != b'/' {
        return false;
    }
    if b.len() == 1 {
        return true;
    }
    split(&b[1..])
        .iter()
        .all(|c| !c.is_empty() && c.as_slice() != b"." && c.as_slice() != b".." && !c.contains(&0))
}

fn ord_str(o: Ordering) -> &'static str {
    match o {
        Ordering::Less => "Less",
        Ordering::Equal => "Equal",
        Ordering::Greater => "Greater",
    }
}

// ---- searches ------------------------------------------------------------------------------

pub fn check_prefix(s: &str, a: &str) -> Option<Value> {
    let real = std::panic::catch_unwind(|| Apath::from(s).is_prefix_of(&Apath::from(a)));
    let exp = under(s, a);
    match real {
        Ok(r) if r == exp => None,
        Ok(r) => Some(json!({"found": true, "kind": "apath_prefix", "input": {"s": s, "a": a},
            "real": r, "expected": exp,
            "explain": format!("Apath({s:?}).is_prefix_of(Apath({a:?})) returned {r}, whole-component containment is {exp}")})),
        Err(_) => Some(json!({"found": true, "kind": "apath_prefix", "input": {"s": s, "a": a},
            "real": "panic", "expected": exp})),
    }
}

pub fn search_prefix() -> Value {
    let ps = gen_paths(2);
    let mut n = 0u64;
    for s in &ps {
        for a in &ps {
            n += 1;
            if let Some(v) = check_prefix(s, a) {
                return v;
            }
        }
    }
    json!({"found": false, "kind": "apath_prefix", "evaluations": n})
}

pub fn replay_prefix(input: &Value) -> Value {
    let s = input["s"].as_str().unwrap();
    let a = input["a"].as_str().unwrap();
    check_prefix(s, a).unwrap_or(json!({"found": false, "kind": "apath_prefix", "input": input}))
}

pub fn check_cmp(a: &str, b: &str) -> Option<Value> {
    let real = Apath::from(a).cmp(&Apath::from(b));
    let exp = doc_cmp(a, b);
    if real == exp {
        None
    } else {
        Some(json!({"found": true, "kind": "apath_cmp", "input": {"a": a, "b": b},
            "real": ord_str(real), "expected": ord_str(exp),
            "explain": format!("Apath({a:?}).cmp(Apath({b:?})) returned {real:?}, documented order says {exp:?}")}))
    }
}

pub fn search_cmp() -> Value {
    let ps = gen_paths(3);
    let step = 1; // all pairs of depth <= 3 over the alphabet: ~ (1+12+144+1728)^2 = 3.5M comparisons
    let mut n = 0u64;
    for (i, a) in ps.iter().enumerate() {
        for b in ps.iter().skip(i % step).step_by(step) {
            n += 1;
            if let Some(v) = check_cmp(a, b) {
                return v;
            }
        }
    }
    json!({"found": false, "kind": "apath_cmp", "evaluations": n})
}

pub fn replay_cmp(input: &Value) -> Value {
    let a = input["a"].as_str().unwrap();
    let b = input["b"].as_str().unwrap();
    check_cmp(a, b).unwrap_or(json!({"found": false, "kind": "apath_cmp", "input": input}))
}

pub fn check_valid(s: &str) -> Option<Value> {
    let real = Apath::is_valid(s);
    let exp = valid(s);
    if real != exp {
        return Some(json!({"found": true, "kind": "apath_valid", "input": {"s": s}, "real": real, "expected": exp,
            "explain": format!("Apath::is_valid({s:?}) returned {real}, format.md says {exp}")}));
    }
    // round 8: the CHECKED constructors accept exactly the well-formed paths: `str::parse` and the serde decoding (which
    // is what reads every apath of an index hunk) agree with `is_valid` (and with the transcription) on every string
    let parsed = s.parse::<Apath>();
    if parsed.is_ok() != exp {
        return Some(json!({"found": true, "kind": "apath_valid", "input": {"s": s}, "real": format!("parse::<Apath>() is {}", if parsed.is_ok() { "Ok" } else { "Err" }), "expected": exp,
            "explain": format!("{s:?}.parse::<Apath>() {} although Apath::is_valid says {real} and format.md says {exp}: the checked constructor does not accept exactly the well-formed paths",
                if parsed.is_ok() { "succeeds" } else { "fails" })}));
    }
    let js = serde_json::to_string(s).expect("a string encodes as JSON");
    let decoded = serde_json::from_str::<Apath>(&js);
    if decoded.is_ok() != exp {
        return Some(json!({"found": true, "kind": "apath_valid", "input": {"s": s}, "real": format!("decoding the JSON string {js} as an Apath is {}", if decoded.is_ok() { "Ok" } else { "Err" }), "expected": exp,
            "explain": format!("serde decoding of {js} as an Apath {} although the path is {}: an index could carry a path with an empty, \".\" or \"..\" component",
                if decoded.is_ok() { "succeeds" } else { "fails" }, if exp { "well-formed" } else { "not well-formed" })}));
    }
    // an apath IS its text: Display / to_string / String::from / Deref / the JSON encoding all give back the raw string,
    // control characters included (callers key sets and maps on `to_string()` and look up raw slices)
    if let (Ok(a), Ok(d)) = (parsed, decoded) {
        let shown = format!("{a}");
        let views: [(&str, String); 6] = [("format!(\"{}\", apath)", shown), ("apath.to_string()", a.to_string()), ("&*apath (Deref)", (*a).to_string()), ("AsRef<str>", AsRef::<str>::as_ref(&a).to_string()),
            ("String::from(apath)", String::from(a.clone())), ("the decoded apath", d.to_string())];
        for (what, got) in views {
            if got != s {
                return Some(json!({"found": true, "kind": "apath_valid", "input": {"s": s}, "real": format!("{what} = {got:?}"), "expected": s,
                    "explain": format!("{what} of the apath {s:?} is {got:?}: the textual form of an apath is not its raw text")}));
            }
        }
        let enc = serde_json::to_string(&a).expect("an apath encodes as JSON");
        if enc != js {
            return Some(json!({"found": true, "kind": "apath_valid", "input": {"s": s}, "real": enc, "expected": js, "explain": "the JSON encoding of an apath is not the JSON encoding of its text"}));
        }
    }
    None
}

/// Names with control and other unusual characters (all well-formed): Display must give the raw text.
const ODD_VALID: &[&str] = &["/a\nb", "/a\tb", "/\u{1}", "/a\u{1}b/c", "/monthly\nreports/summary", "/esc\u{1b}[31m", "/del\u{7f}", "/nel\u{85}x", "/cr\rlf\n", "/a\nb/sub/deeper/z", "/\u{9f}", "/a\\nb", "/q\"uote'",
    "/a/.. ", "/a/ ..", "/...", "/..a", "/a..", "/a/...", "/.a/..b"];
/// Ill-formed strings beyond the enumerated lengths.
const ODD_INVALID: &[&str] = &["/..", "/.", "//", "/a/..", "/a/.", "/a//", "/a/", "/a/b/..", "/a/b/.", "/a/b/../c", "/a/./b", "/ab/cd/..", "/a\nb/..", "/\n/.", "/a\0", "/a/b\0c", "\0", "/é/..", "/日本/..", "/a/../..",
    "/../a", "/./a", "a/..", "..", ".", "", "a", "/a/b/", "/a//b"];

pub fn search_valid() -> Value {
    // all strings of length <= 6 over a small alphabet of bytes that matter: the enumeration holds "/..", "/a/..", "/.",
    // "/a/.", "//", "/a/", "/a//", "/a\0", "/a\nb", ...
    let alpha: &[&str] = &["/", ".", "a", "\0", "é", " ", "\n"];
    let mut n = 0u64;
    for s in ODD_VALID {
        if !valid(s) {
            return json!({"found": false, "kind": "apath_valid", "error": format!("setup failed: {s:?} is meant to be well-formed")});
        }
    }
    for s in ODD_INVALID {
        if valid(s) {
            return json!({"found": false, "kind": "apath_valid", "error": format!("setup failed: {s:?} is meant to be ill-formed")});
        }
    }
    for s in ODD_VALID.iter().chain(ODD_INVALID.iter()) {
        n += 1;
        if let Some(v) = check_valid(s) {
            return v;
        }
    }
    let mut cur: Vec<String> = vec![String::new()];
    for _len in 0..=6 {
        for s in &cur {
            n += 1;
            if let Some(v) = check_valid(s) {
                return v;
            }
        }
        let mut next = Vec::new();
        for s in &cur {
            for c in alpha {
                next.push(format!("{s}{c}"));
            }
        }
        cur = next;
    }
    json!({"found": false, "kind": "apath_valid", "evaluations": n})
}

pub fn replay_valid(input: &Value) -> Value {
    let s = input["s"].as_str().unwrap();
    check_valid(s).unwrap_or(json!({"found": false, "kind": "apath_valid", "input": input}))
}


/// Decoding an apath from JSON must accept exactly the well-formed ones (C10: a damaged index must not smuggle in a
/// path with an empty, "." or ".." component that later panics or escapes the restore destination).
pub fn search_deserialize() -> Value {
    let cands = ["/", "/a", "/a/b", "/é", "", "a", "//", "/a//b", "/a/", "/a/../b", "/..", "/./a", "/a\\u0000b", "../x"];
    for c in cands {
        let js = format!("\"{}\"", c);
        let got = serde_json::from_str::<Apath>(&js).is_ok();
        let unescaped = c.replace("\\u0000", "\0");
        let exp = valid(&unescaped);
        if got != exp {
            return json!({"found": true, "kind": "apath_deserialize", "input": {"json": js}, "real": got, "expected": exp,
                "explain": format!("decoding {js} as an Apath {} although the path is {}", if got {"succeeds"} else {"fails"}, if exp {"well-formed"} else {"not well-formed"})});
        }
    }
    json!({"found": false, "kind": "apath_deserialize", "evaluations": cands.len()})
}
