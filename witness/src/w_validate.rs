//! Native replay for unit validate (C09 / C10), through the PUBLIC API of the real crate only.
//!  * `validate_missing_hunk`: a five-entry tree is backed up with two entries per index hunk (3 hunks, band
//!    closed with BANDTAIL index_hunk_count = 3); index hunk `hunk` of b0000 is then damaged (`how` = "delete" or
//!    "garbage"); expected (C09): `Archive::validate` (full) returns Err or hands at least one error to the monitor,
//!    because a restore of b0000 no longer reproduces the tree.  Input: `{"hunk": u32, "how": "delete"|"garbage"}`.
//!  * `validate_addr_overflow`: index hunk 0 of a closed band is replaced by a well-formed hunk whose only File entry
//!    has an address with start = u64::MAX, len = 2; expected (C10): validate terminates without panicking and
//!    reports an error.  Input: `{"start": u64, "len": u64}`.

use std::panic::{catch_unwind, AssertUnwindSafe};
use std::path::Path;

use conserve::monitor::test::TestMonitor;
use conserve::validate::ValidateOptions;
use conserve::{Archive, BackupOptions, RestoreOptions};
use serde_json::{json, Value};

pub fn dispatch(mode: &str, kind: &str, input: Option<&Value>) -> Option<Value> {
    Some(match (mode, kind) {
        ("search", "validate_missing_hunk") => search_hunk(),
        ("replay", "validate_missing_hunk") => replay_hunk(input?),
        ("search", "validate_addr_overflow") => overflow_guarded(u64::MAX, 2),
        ("replay", "validate_addr_overflow") => overflow_guarded(
            input?.get("start").and_then(|v| v.as_u64()).unwrap_or(u64::MAX),
            input?.get("len").and_then(|v| v.as_u64()).unwrap_or(2),
        ),
        _ => return None,
    })
}

const NAMES: &[&str] = &["a", "b", "c", "d"];

fn hunk_path(arch: &Path, n: u32) -> std::path::PathBuf {
    arch.join("b0000").join("i").join("00000").join(format!("{n:09}"))
}

/// Returns (validate outcome text, number of monitor errors, restored file names, hunks present before damage).
fn damage_and_validate(hunk: u32, how: &str) -> Result<(String, usize, Vec<String>, usize), String> {
    let src = tempfile::tempdir().map_err(|e| e.to_string())?;
    let archdir = tempfile::tempdir().map_err(|e| e.to_string())?;
    let dest = tempfile::tempdir().map_err(|e| e.to_string())?;
    for n in NAMES {
        std::fs::write(src.path().join(n), format!("content of {n}")).map_err(|e| e.to_string())?;
    }
    let apath = archdir.path().join("a");
    let rt = tokio::runtime::Runtime::new().map_err(|e| e.to_string())?;
    rt.block_on(async {
        let archive = Archive::create_path(&apath).await.map_err(|e| format!("create: {e}"))?;
        let options = BackupOptions { max_entries_per_hunk: 2, ..BackupOptions::default() };
        conserve::backup(&archive, src.path(), &options, TestMonitor::arc())
            .await
            .map_err(|e| format!("backup: {e}"))?;
        let mut present = 0;
        while hunk_path(&apath, present as u32).exists() {
            present += 1;
        }
        let hp = hunk_path(&apath, hunk);
        if !hp.exists() {
            return Err(format!("SKIP: hunk {hunk} does not exist ({present} hunks)"));
        }
        match how {
            "garbage" => std::fs::write(&hp, b"\xff\xff\xff\xffgarbage").map_err(|e| e.to_string())?,
            _ => std::fs::remove_file(&hp).map_err(|e| e.to_string())?,
        }
        let archive = Archive::open_path(&apath).await.map_err(|e| format!("open: {e}"))?;
        let monitor = TestMonitor::arc();
        let outcome = match archive.validate(&ValidateOptions::default(), monitor.clone()).await {
            Ok(()) => "Ok".to_string(),
            Err(e) => format!("Err({e})"),
        };
        let errors = monitor.take_errors().len();
        let out = dest.path().join("out");
        let _ = conserve::restore(&archive, &out, RestoreOptions::default(), TestMonitor::arc()).await;
        let mut restored: Vec<String> = std::fs::read_dir(&out)
            .map(|rd| rd.filter_map(|e| e.ok()).map(|e| e.file_name().to_string_lossy().into_owned()).collect())
            .unwrap_or_default();
        restored.sort();
        Ok((outcome, errors, restored, present))
    })
}

fn report_hunk(hunk: u32, how: &str) -> Option<Value> {
    match damage_and_validate(hunk, how) {
        Err(e) if e.starts_with("SKIP") => None,
        Err(e) => Some(json!({"found": false, "kind": "validate_missing_hunk", "error": e})),
        Ok((outcome, errors, restored, present)) => {
            let lost: Vec<&str> = NAMES.iter().copied().filter(|n| !restored.iter().any(|r| r == n)).collect();
            if outcome == "Ok" && errors == 0 && !lost.is_empty() {
                Some(json!({
                    "found": true, "kind": "validate_missing_hunk", "input": {"hunk": hunk, "how": how},
                    "real": format!("validate returned {outcome} with {errors} monitor errors"),
                    "expected": "Err or at least one monitor error",
                    "explain": format!("band b0000 closed with {present} index hunks; hunk {hunk} {how}d; full validate is silent, yet restore of b0000 yields {restored:?} and silently loses {lost:?}"),
                }))
            } else {
                None
            }
        }
    }
}

fn search_hunk() -> Value {
    for how in ["delete", "garbage"] {
        for hunk in [1u32, 0, 2] {
            if let Some(v) = report_hunk(hunk, how) {
                return v;
            }
        }
    }
    json!({"found": false, "kind": "validate_missing_hunk", "tried": 6})
}

fn replay_hunk(input: &Value) -> Value {
    let hunk = input.get("hunk").and_then(|h| h.as_u64()).unwrap_or(1) as u32;
    let how = input.get("how").and_then(|h| h.as_str()).unwrap_or("delete").to_string();
    report_hunk(hunk, &how)
        .unwrap_or_else(|| json!({"found": false, "kind": "validate_missing_hunk", "input": {"hunk": hunk, "how": how}}))
}

/// Unframed ("raw") Snappy encoding of `data` as literals only (format description of google/snappy:
/// varint uncompressed length, then literal elements with tag (len-1)<<2 for len <= 60).
fn snappy_literals(data: &[u8]) -> Vec<u8> {
    let mut out = Vec::new();
    let mut n = data.len();
    loop {
        let b = (n & 0x7f) as u8;
        n >>= 7;
        if n == 0 {
            out.push(b);
            break;
        }
        out.push(b | 0x80);
    }
    for chunk in data.chunks(60) {
        out.push(((chunk.len() - 1) as u8) << 2);
        out.extend_from_slice(chunk);
    }
    out
}

fn overflow(start: u64, len: u64) -> Value {
    let r = (|| -> Result<(String, usize), String> {
        let src = tempfile::tempdir().map_err(|e| e.to_string())?;
        let archdir = tempfile::tempdir().map_err(|e| e.to_string())?;
        std::fs::write(src.path().join("f"), b"x").map_err(|e| e.to_string())?;
        let apath = archdir.path().join("a");
        let rt = tokio::runtime::Runtime::new().map_err(|e| e.to_string())?;
        rt.block_on(async {
            let archive = Archive::create_path(&apath).await.map_err(|e| format!("create: {e}"))?;
            conserve::backup(&archive, src.path(), &BackupOptions::default(), TestMonitor::arc())
                .await
                .map_err(|e| format!("backup: {e}"))?;
            let hash = "0".repeat(128);
            let hunk = format!(
                "[{{\"apath\":\"/\",\"kind\":\"Dir\",\"mtime\":0}},{{\"apath\":\"/f\",\"kind\":\"File\",\"mtime\":0,\"addrs\":[{{\"hash\":\"{hash}\",\"start\":{start},\"len\":{len}}}]}}]"
            );
            std::fs::write(hunk_path(&apath, 0), snappy_literals(hunk.as_bytes())).map_err(|e| e.to_string())?;
            let archive = Archive::open_path(&apath).await.map_err(|e| format!("open: {e}"))?;
            let monitor = TestMonitor::arc();
            let outcome = match archive.validate(&ValidateOptions { skip_block_hashes: true }, monitor.clone()).await {
                Ok(()) => "Ok".to_string(),
                Err(e) => format!("Err({e})"),
            };
            Ok((outcome, monitor.take_errors().len()))
        })
    })();
    match r {
        Ok((outcome, errors)) => json!({
            "found": false, "kind": "validate_addr_overflow", "input": {"start": start, "len": len},
            "real": format!("validate returned {outcome} with {errors} monitor errors (no panic)"),
        }),
        Err(e) => json!({"found": false, "kind": "validate_addr_overflow", "error": e}),
    }
}

/// The overflow case panics inside the tokio runtime in builds with overflow checks; run it under catch_unwind.
pub fn overflow_guarded(start: u64, len: u64) -> Value {
    match catch_unwind(AssertUnwindSafe(|| overflow(start, len))) {
        Ok(v) => v,
        Err(p) => {
            let msg = p
                .downcast_ref::<String>()
                .cloned()
                .or_else(|| p.downcast_ref::<&str>().map(|s| s.to_string()))
                .unwrap_or_else(|| "panic".to_string());
            json!({
                "found": true, "kind": "validate_addr_overflow", "input": {"start": start, "len": len},
                "real": format!("validate panicked: {msg}"), "expected": "no panic; an error is reported",
                "explain": "an index hunk that decodes, with a File address start + len > u64::MAX, makes `validate` panic in validate_stored_tree (`addr.start + addr.len`) in builds with overflow checks, and wrap silently in release builds",
            })
        }
    }
}
