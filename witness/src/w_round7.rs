//! Bounded stand-ins added after the seventh round of seeded defects (public API only; each is a bounded search that
//! proves nothing when it finds nothing).  Setup failures are errors, never findings.
//!  * `owner_group_roundtrip` (C01, C18; needs root, otherwise `"skipped": "needs root"`): files, directories and
//!        symlinks that all belong to the SAME user but to alternating groups (three named groups of /etc/group and one
//!        gid without a name), interleaved in apath order, plus one entry of another user between them: the user / group
//!        NAMES recorded in the index must be those of /etc/passwd and /etc/group (parsed by hand, independently of the
//!        crate) for every entry; a restore as root gives every entry the uid and gid of the source; `diff` against the
//!        untouched tree reports nothing; after `chgrp` of one file (same user) `diff` and the next backup's change
//!        callback report exactly that file, and the new version records the new group for it and the same owner as
//!        before for every other entry.  Input {"phase": "index"|"restore"|"diff"|"chgrp", "path": ".."}.
//!  * `delete_is_all_or_nothing_per_band` (C05): a delete that fails part way: as an UNPRIVILEGED user (the witness
//!        re-executes itself as a child that drops to uid/gid 65534; run directly when not root) the directory of one
//!        band named in the delete is made unlistable (mode 0300: entries below it can still be reached and removed,
//!        the directory itself cannot be emptied by listing it), `delete_bands` runs, permissions are put back.
//!        REQUIRED, whatever the call returned: every band that still has a BANDTAIL restores exactly as it did before
//!        the delete, without error; bands not named in the delete are still complete.
//!        Also: the default (latest complete) restore still works and gives the newest band that still has head and tail.
//!        Input {"case": ".."}.
//!        One further case was found on the PINNED tree (side finding of round 7; a genuine C05 defect, repaired in /repo;
//!        its outcome depended on the order in which the filesystem lists a directory) and is part of every search now:
//!        {"case": "two versions, delete b0001 (the newest), its hunk directory i/00000 is not writable"}: the removal
//!        of the band directory fails part way, after BANDHEAD was removed (ext4 lists BANDHEAD, i, BANDTAIL in creation
//!        order) and before BANDTAIL: the newest band is left with a tail and without a head, and from then on
//!        `last_complete_band` / the default restore of the ARCHIVE fail ("head file missing") although b0000 is intact.
//!  * `stitch_skips_headless_bands` (C10, C08, C03): b0000 complete; b0001 interrupted and then: intact / BANDHEAD
//!        deleted / BANDHEAD emptied / BANDHEAD garbage / only the bare directory left / directory gone; b0002
//!        interrupted with its head, cut after 1 or 2 hunks (b0001 after 1 or 3).  Listing b0002 must be: b0002's own
//!        entries, then (only when b0001 still opens) b0001's entries after the last of them, then b0000's entries
//!        after the last of those -- computed from the hunks of each band read before the damage, whole entries
//!        compared (addresses included); restoring b0002 gives exactly the corresponding tree; the default
//!        (latest complete) listing and restore still give b0000.  Input {"b0001": "..", "b0001_hunks": k, "b0002_hunks": k}.

use std::collections::{BTreeMap, BTreeSet};
use std::os::unix::fs::{lchown, symlink, MetadataExt, PermissionsExt};
use std::path::{Path, PathBuf};
use std::sync::{Arc, Mutex};
use std::time::Duration;

use conserve::monitor::test::TestMonitor;
use conserve::monitor::void::VoidMonitor;
use conserve::{Apath, Archive, BackupOptions, Band, BandSelectionPolicy, DeleteOptions, DiffOptions, IndexEntry, RestoreOptions, SourceTree};
use serde_json::{json, Value};

use super::w_round5::{bid, content, copy_dir, entries, found, pin_all, put, skip, snapshot_diff, tree_snapshot, R};

macro_rules! su {
    ($e:expr) => {
        $e.map_err(|e| format!("setup failed at line {}: {e:?}", line!()))?
    };
}

extern "C" {
    fn geteuid() -> u32;
    fn setuid(uid: u32) -> i32;
    fn setgid(gid: u32) -> i32;
    fn setgroups(size: usize, list: *const u32) -> i32;
}

const DELETE_KIND: &str = "delete_is_all_or_nothing_per_band";
/// directory (owned by the unprivileged user) in which the child works
const CHILD_DIR_ENV: &str = "WITNESS_R7_CHILD_DIR";
const UNPRIVILEGED: u32 = 65534;

pub fn dispatch(mode: &str, kind: &str, input: Option<&Value>) -> Option<Value> {
    let f: fn(Option<&Value>) -> R = match (mode, kind) {
        // hidden mode: the part of `delete_is_all_or_nothing_per_band` that must run without privileges
        ("child", DELETE_KIND) => delete_child,
        ("search" | "replay", "owner_group_roundtrip") => owner_group_roundtrip,
        ("search" | "replay", DELETE_KIND) => delete_is_all_or_nothing_per_band,
        ("search" | "replay", "stitch_skips_headless_bands") => stitch_skips_headless_bands,
        _ => return None,
    };
    let only = if mode == "search" { None } else { input };
    let kind = kind.to_string();
    Some(match std::panic::catch_unwind(std::panic::AssertUnwindSafe(|| f(only))) {
        Ok(Ok(Some(v))) => v,
        Ok(Ok(None)) => json!({"found": false, "kind": kind}),
        Ok(Err(e)) => json!({"found": false, "kind": kind, "error": e}),
        Err(p) => {
            let msg = p.downcast_ref::<String>().cloned().or_else(|| p.downcast_ref::<&str>().map(|s| s.to_string())).unwrap_or_default();
            json!({"found": true, "kind": kind, "input": input.cloned().unwrap_or(json!({})), "real": format!("panic: {msg}"), "expected": "no panic",
                "explain": "a scenario built from public operations panicked"})
        }
    })
}

type Snapshot = BTreeMap<String, Option<Vec<u8>>>;

/// Restore one version into a fresh directory: Ok(None) when it restores exactly `want` without any error.
async fn restore_mismatch(archive: &Archive, policy: BandSelectionPolicy, dest: &Path, want: &Snapshot) -> Result<Option<String>, String> {
    let _ = std::fs::remove_dir_all(dest);
    let m = TestMonitor::arc();
    let r = conserve::restore(archive, dest, RestoreOptions { band_selection: policy, ..RestoreOptions::default() }, m.clone()).await;
    let errs = m.take_errors();
    if let Err(e) = r {
        return Ok(Some(format!("restore failed: {e}")));
    }
    if let Some(d) = snapshot_diff(&tree_snapshot(dest), want) {
        return Ok(Some(format!("restored tree differs: {d}; {} restore error(s){}", errs.len(), errs.first().map(|e| format!(" (first: {e})")).unwrap_or_default())));
    }
    if !errs.is_empty() {
        return Ok(Some(format!("restore reported {} error(s): {}", errs.len(), errs[0])));
    }
    Ok(None)
}

// ------------------------------------------------------------------------------------------------------ C01 / C18
/// id -> name, first line wins (the files are `name:x:id:...`)
fn id_names(path: &str) -> Result<BTreeMap<u32, String>, String> {
    let text = su!(std::fs::read_to_string(path));
    let mut out = BTreeMap::new();
    for line in text.lines() {
        let f: Vec<&str> = line.split(':').collect();
        if f.len() >= 3 && !line.starts_with('#') {
            if let Ok(id) = f[2].parse::<u32>() {
                out.entry(id).or_insert_with(|| f[0].to_string());
            }
        }
    }
    Ok(out)
}

fn ids_of(p: &Path) -> Result<(u32, u32), String> {
    let m = su!(std::fs::symlink_metadata(p));
    Ok((m.uid(), m.gid()))
}

fn owner_group_roundtrip(_only: Option<&Value>) -> R {
    const K: &str = "owner_group_roundtrip";
    if unsafe { geteuid() } != 0 {
        return Ok(Some(json!({"found": false, "kind": K, "skipped": "needs root"})));
    }
    let users = id_names("/etc/passwd")?;
    let groups = id_names("/etc/group")?;
    // three named groups (gid 0 first when it has a name) and one gid that has no name
    let mut named: Vec<u32> = groups.keys().copied().filter(|g| *g < 60000).take(3).collect();
    if named.len() < 3 {
        named = groups.keys().copied().take(3).collect();
    }
    if named.len() < 3 {
        return Err(format!("setup: /etc/group names fewer than three groups: {groups:?}"));
    }
    let unnamed: u32 = (54321..54400).find(|g| !groups.contains_key(g)).ok_or("setup: no gid without a name")?;
    let other_uid: u32 = if users.contains_key(&UNPRIVILEGED) { UNPRIVILEGED } else { *users.keys().find(|u| **u != 0).ok_or("setup: /etc/passwd names only one user")? };
    let (g0, g1, g2) = (named[0], named[1], named[2]);
    let tmp = su!(tempfile::tempdir());
    let src = tmp.path().join("src");
    // (path, kind, uid, gid) in apath order: consecutive entries of the same user differ in their group
    let plan: Vec<(&str, char, u32, u32)> = vec![
        ("a_file", 'f', 0, g0), ("b_file", 'f', 0, g1), ("c_dir", 'd', 0, g2), ("d_link", 'l', 0, g1), ("e_file", 'f', 0, g0), ("f_file", 'f', 0, unnamed), ("g_file", 'f', 0, g2),
        ("h_other_user", 'f', other_uid, g1), ("i_file", 'f', 0, g2), ("j_dir", 'd', 0, g1), ("k_file", 'f', 0, g0),
        ("c_dir/a", 'f', 0, g1), ("c_dir/b", 'f', 0, g2), ("c_dir/l", 'l', 0, g0), ("c_dir/sub", 'd', 0, g0), ("c_dir/sub/x", 'f', 0, g1), ("c_dir/sub/y", 'f', 0, g2),
        ("j_dir/m", 'f', 0, g2), ("j_dir/n", 'f', 0, g1),
    ];
    su!(std::fs::create_dir_all(&src));
    for (rel, kind, _, _) in &plan {
        match kind {
            'f' => put(&src, rel, &content(rel, 20 + rel.len()))?,
            'd' => su!(std::fs::create_dir_all(src.join(rel))),
            _ => su!(symlink("a_file", src.join(rel))),
        }
    }
    pin_all(&src, 1_600_000_000, 0)?;
    su!(lchown(&src, Some(0), Some(g0)));
    for (rel, _, uid, gid) in &plan {
        su!(lchown(src.join(rel), Some(*uid), Some(*gid)));
        if ids_of(&src.join(rel))? != (*uid, *gid) {
            return Err(format!("setup: chown of {rel} to {uid}:{gid} did not take"));
        }
    }
    let mut want: BTreeMap<String, (u32, u32)> = plan.iter().map(|(rel, _, u, g)| (format!("/{rel}"), (*u, *g))).collect();
    want.insert("/".into(), (0, g0));
    let names_of = |ids: (u32, u32)| (users.get(&ids.0).cloned(), groups.get(&ids.1).cloned());
    let describe = |want: &BTreeMap<String, (u32, u32)>| -> Vec<String> { want.iter().map(|(p, (u, g))| format!("{p} {u}:{g}")).collect() };
    let rt = su!(tokio::runtime::Runtime::new());
    rt.block_on(async {
        let archive = su!(Archive::create_path(&tmp.path().join("archive")).await);
        let m = TestMonitor::arc();
        let st = su!(conserve::backup(&archive, &src, &BackupOptions::default(), m.clone()).await);
        if st.errors != 0 || !m.take_errors().is_empty() {
            return found(K, json!({"phase": "backup"}), format!("backup reported {} error(s)", st.errors), "no error", "backing up a tree whose entries have different groups reported errors");
        }
        // (1) what the index records
        let check_index = |es: &[IndexEntry], want: &BTreeMap<String, (u32, u32)>, phase: &str| -> R {
            if es.len() != want.len() {
                return Err(format!("setup: {} entries listed, {} expected", es.len(), want.len()));
            }
            let mut wrong: Vec<String> = Vec::new();
            for e in es {
                let p = e.apath.to_string();
                let ids = *want.get(&p).ok_or(format!("setup: unexpected entry {p}"))?;
                let (wu, wg) = names_of(ids);
                if e.owner.user != wu || e.owner.group != wg {
                    wrong.push(format!("{p} (source {}:{}) recorded as {:?}:{:?}, expected {wu:?}:{wg:?}", ids.0, ids.1, e.owner.user, e.owner.group));
                }
            }
            if let Some(first) = wrong.first() {
                let path = first.split(' ').next().unwrap_or_default().to_string();
                return found(K, json!({"phase": phase, "path": path, "tree (path uid:gid, in apath order of each directory)": describe(want)}), format!("{} entr(ies) with a wrong owner: {}", wrong.len(), wrong.join("; ")),
                    "user and group NAME of every entry as /etc/passwd and /etc/group give them for the entry's own uid and gid (None for a gid without a name)",
                    "the group recorded for an entry is not the entry's own (entries of one user with different groups)");
            }
            Ok(None)
        };
        let e0 = entries(&archive, BandSelectionPolicy::Specified(bid(0)), Apath::root(), TestMonitor::arc()).await?;
        if let Some(v) = check_index(&e0, &want, "index")? {
            return Ok(Some(v));
        }
        // (2) restore as root: uid and gid of the source (a gid without a name cannot be carried by name: uid only)
        let dest = tmp.path().join("dest");
        let m = TestMonitor::arc();
        if let Err(e) = conserve::restore(&archive, &dest, RestoreOptions::default(), m.clone()).await {
            return found(K, json!({"phase": "restore"}), format!("restore failed: {e}"), "Ok", "restoring a tree whose entries have different groups failed");
        }
        let errs = m.take_errors();
        if !errs.is_empty() {
            return found(K, json!({"phase": "restore"}), format!("restore reported: {}", errs[0]), "no error", "restoring a tree whose entries have different groups reported errors");
        }
        let mut wrong: Vec<String> = Vec::new();
        for (p, (u, g)) in &want {
            let got = ids_of(&dest.join(&p[1..]))?;
            if got.0 != *u || (*g != unnamed && got.1 != *g) {
                wrong.push(format!("{p} restored as {}:{}, source {u}:{g}", got.0, got.1));
            }
        }
        if let Some(first) = wrong.first() {
            let path = first.split(' ').next().unwrap_or_default().to_string();
            return found(K, json!({"phase": "restore", "path": path, "tree (path uid:gid, in apath order of each directory)": describe(&want)}), wrong.join("; "), "uid and gid of every restored entry equal the source's (restore runs as root)",
                "owner and group are not reproduced by backup + restore");
        }
        // (3) diff and the next backup after a change of group
        let diff_now = |band: u32| {
            let archive = archive.clone();
            let src = src.clone();
            async move {
                let st = su!(archive.open_stored_tree(BandSelectionPolicy::Specified(bid(band))).await);
                let lt = su!(SourceTree::open(&src));
                let mut d = su!(conserve::diff(&st, &lt, DiffOptions::default(), Arc::new(VoidMonitor)).await);
                let out: BTreeSet<String> = d.collect().await.iter().map(|c| c.to_string()).collect();
                Ok::<_, String>(out)
            }
        };
        let d0 = diff_now(0).await?;
        if !d0.is_empty() {
            return found(K, json!({"phase": "diff", "path": null}), format!("diff of the version against the very tree it was made from reports {d0:?}"), "no change", "diff reports changes between a version and the untouched tree it was made from");
        }
        let mut prev = e0;
        for (band, (rel, new_gid)) in [("b_file", g2), ("c_dir/sub/x", g0), ("j_dir/n", unnamed), ("a_file", g1)].into_iter().enumerate() {
            let band = band as u32;
            let p = format!("/{rel}");
            let old = want[&p];
            su!(lchown(src.join(rel), None, Some(new_gid)));
            want.insert(p.clone(), (old.0, new_gid));
            let input = json!({"phase": "chgrp", "path": p, "from_gid": old.1, "to_gid": new_gid, "compared_with": format!("b{band:04}"), "tree (path uid:gid, in apath order of each directory)": describe(&want)});
            let expect: BTreeSet<String> = [format!("* {p}")].into_iter().collect();
            let d = diff_now(band).await?;
            if d != expect {
                return found(K, input, format!("diff reports {d:?}"), &format!("{expect:?}"), "after the group of one file was changed, diff does not report exactly that file");
            }
            let seen: Arc<Mutex<BTreeSet<String>>> = Arc::new(Mutex::new(BTreeSet::new()));
            let s2 = seen.clone();
            let o = BackupOptions { change_callback: Some(Box::new(move |ch| { if !ch.change.is_unchanged() { s2.lock().unwrap().insert(ch.to_string()); } Ok(()) })), ..BackupOptions::default() };
            let st = su!(conserve::backup(&archive, &src, &o, Arc::new(VoidMonitor)).await);
            let backed: BTreeSet<String> = seen.lock().unwrap().clone();
            if backed != expect {
                return found(K, input, format!("the next backup reports {backed:?} as changed"), &format!("{expect:?}"), "after the group of one file was changed, the next backup does not report exactly that file as changed");
            }
            if st.written_blocks != 0 {
                return found(K, input, format!("the next backup wrote {} block(s)", st.written_blocks), "0: only metadata changed", "a change of group made the backup store content again");
            }
            let es = entries(&archive, BandSelectionPolicy::Specified(bid(band + 1)), Apath::root(), TestMonitor::arc()).await?;
            if let Some(v) = check_index(&es, &want, "chgrp")? {
                return Ok(Some(v));
            }
            let differ: Vec<String> = prev.iter().zip(es.iter()).filter(|(a, b)| a != b).map(|(a, _)| a.apath.to_string()).collect();
            if differ != vec![p.clone()] {
                return found(K, input, format!("entries that differ between the two versions: {differ:?}"), &format!("[{p:?}]"), "a change of group of one file altered the stored entries of other paths (or not of that one)");
            }
            prev = es;
        }
        Ok(None)
    })
}

// ------------------------------------------------------------------------------------------------------------ C05
fn delete_is_all_or_nothing_per_band(only: Option<&Value>) -> R {
    if unsafe { geteuid() } != 0 {
        // directory permissions bind this user: run the scenario here
        let tmp = su!(tempfile::tempdir());
        return delete_scenario(only, tmp.path());
    }
    // root ignores directory permissions: the scenario runs in a child that gives up its privileges
    let tmp = su!(tempfile::tempdir());
    su!(lchown(tmp.path(), Some(UNPRIVILEGED), Some(UNPRIVILEGED)));
    su!(std::fs::set_permissions(tmp.path(), std::fs::Permissions::from_mode(0o755)));
    let exe = su!(std::env::current_exe());
    let mut cmd = std::process::Command::new(exe);
    cmd.arg("child").arg(DELETE_KIND).env(CHILD_DIR_ENV, tmp.path());
    if let Some(o) = only {
        cmd.arg(o.to_string());
    }
    let out = su!(cmd.output());
    let stdout = String::from_utf8_lossy(&out.stdout);
    for ln in stdout.lines().rev() {
        if ln.starts_with('{') {
            if let Ok(v) = serde_json::from_str::<Value>(ln) {
                if let Some(e) = v.get("error") {
                    return Err(format!("in the unprivileged child: {}", e.as_str().unwrap_or_default()));
                }
                return Ok(if v["found"] == json!(true) { Some(v) } else { None });
            }
        }
    }
    Err(format!("setup: the unprivileged child produced no result (status {:?}): {}", out.status.code(), String::from_utf8_lossy(&out.stderr).chars().take(400).collect::<String>()))
}

fn delete_child(only: Option<&Value>) -> R {
    let dir = PathBuf::from(std::env::var_os(CHILD_DIR_ENV).ok_or("setup: the child was started without its directory")?);
    unsafe {
        if geteuid() == 0 && (setgroups(0, std::ptr::null()) != 0 || setgid(UNPRIVILEGED) != 0 || setuid(UNPRIVILEGED) != 0) {
            return Err(format!("setup: cannot drop privileges: {}", std::io::Error::last_os_error()));
        }
        if geteuid() == 0 {
            return Err("setup: still root after setuid".into());
        }
    }
    delete_scenario(only, &dir)
}

fn delete_scenario(only: Option<&Value>, work: &Path) -> R {
    const K: &str = DELETE_KIND;
    let src = work.join("src");
    let opts = || BackupOptions { small_file_cap: 50, max_entries_per_hunk: 2, ..BackupOptions::default() };
    let rt = su!(tokio::runtime::Runtime::new());
    rt.block_on(async {
        // (case, number of versions, bands named in the delete, the band that resists, the directory below it whose mode is
        //  changed ("" = the band directory itself), the mode: 0300 = cannot be listed, 0500 = nothing can be removed from it)
        const EXEMPT: &str = "two versions, delete b0001 (the newest), its hunk directory i/00000 is not writable";
        let cases: [(&str, u32, &[u32], u32, &str, u32); 5] = [
            ("two versions, delete b0000, b0000 cannot be listed", 2, &[0], 0, "", 0o300),
            ("three versions, delete b0000 and b0001, b0001 cannot be listed", 3, &[0, 1], 1, "", 0o300),
            ("three versions, delete b0001, b0001 cannot be listed", 3, &[1], 1, "", 0o300),
            ("three versions, delete b0001 and b0000 (named newest first), b0000 cannot be listed", 3, &[1, 0], 0, "", 0o300),
            (EXEMPT, 2, &[1], 1, "i/00000", 0o500),
        ];
        for (case, nversions, delete, locked, sub, mode) in cases {
            if skip(only, "case", &json!(case)) {
                continue;
            }
            // (This case was found on the pinned tree -- round 7 side finding -- and used to run on replay only; the defect
            // is repaired in /repo, `fix: a half-deleted band no longer hides the complete bands before it`, and the case
            // is part of every search now.)
            let _ = EXEMPT;
            let input = json!({"case": case, "delete": delete.iter().map(|b| bid(*b).to_string()).collect::<Vec<_>>(), format!("mode {mode:o} on"): format!("{}/{sub}", bid(locked)), "euid": unsafe { geteuid() }});
            let apath = work.join("archive");
            let _ = std::fs::remove_dir_all(&apath);
            let _ = std::fs::remove_dir_all(&src);
            let archive = su!(Archive::create_path(&apath).await);
            let mut before: Vec<(u32, Snapshot)> = Vec::new();
            for v in 0..nversions {
                put(&src, "alpha", &content(&format!("alpha {v}"), 300 + v as usize))?;
                put(&src, "sub/beta", &content("beta", 40))?;
                put(&src, &format!("sub/only_{v}"), &content(&format!("only {v}"), 200))?;
                put(&src, &format!("small_{v}"), &content(&format!("small {v}"), 10))?;
                pin_all(&src, 1_600_000_000 + 100 * v as i64, 0)?;
                let st = su!(conserve::backup(&archive, &src, &opts(), Arc::new(VoidMonitor)).await);
                if st.errors != 0 {
                    return Err(format!("setup: backup {v} reported errors"));
                }
                before.push((v, tree_snapshot(&src)));
            }
            // every version restores to its source before the delete
            for (v, want) in &before {
                if let Some(d) = restore_mismatch(&archive, BandSelectionPolicy::Specified(bid(*v)), &work.join("dest"), want).await? {
                    return Err(format!("setup: before the delete b{v:04} does not restore to its source: {d}"));
                }
            }
            let bdir = apath.join(bid(locked).to_string()).join(sub);
            su!(std::fs::set_permissions(&bdir, std::fs::Permissions::from_mode(mode)));
            let effective = if mode == 0o300 { std::fs::read_dir(&bdir).is_err() && bdir.join("BANDTAIL").is_file() } else { std::fs::write(bdir.join("probe"), b"").is_err() };
            if !effective {
                let _ = std::fs::set_permissions(&bdir, std::fs::Permissions::from_mode(0o755));
                return Err(format!("setup: mode {mode:o} does not bind this user on {bdir:?} (running as root?)"));
            }
            let ids: Vec<conserve::BandId> = delete.iter().map(|b| bid(*b)).collect();
            let result = archive.delete_bands(&ids, &DeleteOptions { dry_run: false, break_lock: false }, Arc::new(VoidMonitor)).await;
            su!(std::fs::set_permissions(&bdir, std::fs::Permissions::from_mode(0o755)));
            let outcome = match &result {
                Ok(s) => format!("delete_bands returned Ok ({} band(s), {} block(s) deleted, {} deletion error(s))", s.deleted_band_count, s.deleted_block_count, s.deletion_errors),
                Err(e) => format!("delete_bands returned Err({e})"),
            };
            drop(archive);
            // the gc lock of a delete that gave up is released in the background
            for _ in 0..100 {
                if !apath.join("GC_LOCK").exists() {
                    break;
                }
                tokio::time::sleep(Duration::from_millis(20)).await;
            }
            if std::env::var_os("WITNESS_DEBUG").is_some() {
                eprintln!("{case}: {outcome}; left: {:?}", tree_snapshot(&apath).keys().filter(|k| !k.starts_with("/d/")).collect::<Vec<_>>());
            }
            let archive = su!(Archive::open_path(&apath).await);
            // asking for the latest complete version still works: the newest band that still has its head AND its tail
            // (a band being deleted may be left with a tail but no head: it is going away and is not a complete version)
            if let Some((v, want)) = before.iter().rev().find(|(v, _)| apath.join(bid(*v).to_string()).join("BANDTAIL").is_file() && apath.join(bid(*v).to_string()).join("BANDHEAD").is_file()) {
                if let Some(d) = restore_mismatch(&archive, BandSelectionPolicy::LatestClosed, &work.join("dest"), want).await? {
                    return found(K, input, format!("{outcome}; afterwards the default restore (latest complete version, here b{v:04}): {d}"), "the default restore gives the newest version that is still complete",
                        "after a delete that failed part way the latest complete version can no longer be restored by default");
                }
            }
            for (v, want) in &before {
                let has_tail = apath.join(bid(*v).to_string()).join("BANDTAIL").is_file()
                    && (!delete.contains(v) || apath.join(bid(*v).to_string()).join("BANDHEAD").is_file());
                if !delete.contains(v) && !has_tail {
                    return found(K, input, format!("{outcome}; b{v:04}, which was not named in the delete, has no BANDTAIL any more"), "versions not named in the delete stay complete", "a delete removed (part of) a version it was not asked to delete");
                }
                if !has_tail {
                    continue; // deleted, or no longer presented as a complete version
                }
                let closed = archive.band_is_closed(bid(*v)).await.map_err(|e| e.to_string());
                if closed != Ok(true) {
                    return found(K, input, format!("{outcome}; b{v:04} has a BANDTAIL but band_is_closed = {closed:?}"), "Ok(true)", "a band left behind by a failed delete has a tail but is not readable as complete");
                }
                if let Some(d) = restore_mismatch(&archive, BandSelectionPolicy::Specified(bid(*v)), &work.join("dest"), want).await? {
                    let left: Vec<String> = tree_snapshot(&apath.join(bid(*v).to_string())).into_keys().collect();
                    return found(K, input, format!("{outcome}; afterwards b{v:04} still has its BANDTAIL (files left in the band: {left:?}) but: {d}"),
                        "every band that still has a tail restores exactly as it did before the delete (a band is removed as a whole or not at all)",
                        "a delete that failed part way left a version that is presented as complete but has lost its index: it restores to something else than before");
                }
            }
        }
        Ok(None)
    })
}

// ------------------------------------------------------------------------------------------------ C10 / C08 / C03
fn stitch_skips_headless_bands(only: Option<&Value>) -> R {
    const K: &str = "stitch_skips_headless_bands";
    let tmp = su!(tempfile::tempdir());
    let src = tmp.path().join("src");
    let opts = || BackupOptions { max_entries_per_hunk: 2, small_file_cap: 30, ..BackupOptions::default() };
    let rt = su!(tokio::runtime::Runtime::new());
    rt.block_on(async {
        let base = tmp.path().join("base");
        let archive = su!(Archive::create_path(&base).await);
        let mut trees: Vec<Snapshot> = Vec::new();
        let mut hunks: Vec<Vec<Vec<IndexEntry>>> = Vec::new();
        for v in 0..3u32 {
            if v == 0 {
                for f in ["f1", "f2", "f3", "f4", "f5", "f6", "f7", "d/g1", "d/g2", "d/e/h1"] {
                    put(&src, f, &content(f, 20 + f.len() * 7))?;
                }
            } else {
                // every later version rewrites files at the start, in the middle and at the end of the listing
                for f in ["f1", "f2", "f4", "f7", "d/g2", "d/e/h1"] {
                    put(&src, f, &content(&format!("{f} version {v}"), 25 + f.len() * 7 + v as usize))?;
                }
            }
            pin_all(&src, 1_600_000_000 + 100 * v as i64, 0)?;
            let st = su!(conserve::backup(&archive, &src, &opts(), Arc::new(VoidMonitor)).await);
            if st.errors != 0 {
                return Err(format!("setup: backup {v} reported errors"));
            }
            trees.push(tree_snapshot(&src));
            let band = su!(Band::open(&archive, bid(v)).await);
            let avail = su!(band.index().hunks_available().await);
            let mut hs = Vec::new();
            for (k, n) in avail.iter().enumerate() {
                if *n as usize != k {
                    return Err(format!("setup: hunk numbers are not consecutive: {avail:?}"));
                }
                hs.push(su!(band.index().read_hunk(*n).await).ok_or("setup: hunk vanished")?);
            }
            if hs.len() < 5 {
                return Err(format!("setup: only {} hunks in b{v:04}", hs.len()));
            }
            hunks.push(hs);
        }
        drop(archive);
        let all = |v: usize| -> Vec<IndexEntry> { hunks[v].iter().flatten().cloned().collect() };
        let states = ["interrupted, intact", "BANDHEAD deleted", "BANDHEAD emptied", "BANDHEAD garbage", "only the bare directory left", "directory gone", "BANDHEAD and BANDTAIL deleted (was complete)",
            // round 8 (seed C08-6 made `band_exists` look at the directory only): what a delete killed part way leaves
            "BANDHEAD and index deleted, BANDTAIL left (half-deleted)"];
        for state in states {
            for (k1, k2) in [(1usize, 1usize), (3, 1), (1, 2), (3, 2), (4, 3)] {
                let input = json!({"b0000": "complete", "b0001": state, "b0001_hunks": k1, "b0002": "interrupted, intact head", "b0002_hunks": k2});
                if skip(only, "b0001", &input["b0001"]) || skip(only, "b0001_hunks", &input["b0001_hunks"]) || skip(only, "b0002_hunks", &input["b0002_hunks"]) {
                    continue;
                }
                let work = tmp.path().join("work");
                let _ = std::fs::remove_dir_all(&work);
                su!(copy_dir(&base, &work));
                let cut = |band: u32, keep: usize, n: usize| -> Result<(), String> {
                    su!(std::fs::remove_file(work.join(format!("b{band:04}/BANDTAIL"))));
                    for k in keep..n {
                        su!(std::fs::remove_file(work.join(format!("b{band:04}/i/00000/{k:09}"))));
                    }
                    Ok(())
                };
                cut(2, k2, hunks[2].len())?;
                let b1 = work.join("b0001");
                let mut b1_usable = false;
                if state.starts_with("BANDHEAD and index deleted") {
                    su!(std::fs::remove_file(b1.join("BANDHEAD")));
                    su!(std::fs::remove_dir_all(b1.join("i")));
                } else if state.starts_with("BANDHEAD and BANDTAIL") {
                    su!(std::fs::remove_file(b1.join("BANDTAIL")));
                    su!(std::fs::remove_file(b1.join("BANDHEAD")));
                } else {
                    cut(1, k1, hunks[1].len())?;
                    match state {
                        "interrupted, intact" => b1_usable = true,
                        "BANDHEAD deleted" => su!(std::fs::remove_file(b1.join("BANDHEAD"))),
                        "BANDHEAD emptied" => su!(std::fs::write(b1.join("BANDHEAD"), b"")),
                        "BANDHEAD garbage" => su!(std::fs::write(b1.join("BANDHEAD"), b"{ \"start_time\": 17000")),
                        "only the bare directory left" => {
                            su!(std::fs::remove_dir_all(&b1));
                            su!(std::fs::create_dir(&b1));
                        }
                        _ => su!(std::fs::remove_dir_all(&b1)),
                    }
                }
                // expectation, from the hunks read before the damage: (entry, band it comes from)
                let mut want: Vec<(IndexEntry, usize)> = hunks[2][..k2].iter().flatten().cloned().map(|e| (e, 2)).collect();
                let mut last: Option<Apath> = want.last().map(|e| e.0.apath.clone());
                if b1_usable {
                    want.extend(hunks[1][..k1].iter().flatten().filter(|e| last.as_ref().map(|l| e.apath > *l).unwrap_or(true)).cloned().map(|e| (e, 1)));
                    last = want.last().map(|e| e.0.apath.clone());
                }
                want.extend(all(0).into_iter().filter(|e| last.as_ref().map(|l| e.apath > *l).unwrap_or(true)).map(|e| (e, 0)));
                let want_paths: Vec<String> = want.iter().map(|(e, b)| format!("{} (b{b:04})", e.apath)).collect();
                let archive = su!(Archive::open_path(&work).await);
                let m = TestMonitor::arc();
                let got = match entries(&archive, BandSelectionPolicy::Specified(bid(2)), Apath::root(), m.clone()).await {
                    Ok(es) => es,
                    Err(e) => return found(K, input, format!("listing b0002 failed: {e}"), &format!("{want_paths:?}"), "an interrupted version that still opens cannot be listed"),
                };
                let lerrs = m.take_errors();
                let wanted: Vec<IndexEntry> = want.iter().map(|w| w.0.clone()).collect();
                if got != wanted {
                    let got_paths: Vec<String> = got.iter().map(|e| e.apath.to_string()).collect();
                    let first = got.iter().zip(wanted.iter()).position(|(a, b)| a != b).unwrap_or(got.len().min(wanted.len()));
                    return found(K, input, format!("listing of b0002: {} entries {got_paths:?}; first deviation at position {first} ({:?}); {} error(s) reported{}", got.len(), got.get(first).map(|e| e.apath.to_string()), lerrs.len(),
                        lerrs.first().map(|e| format!(" (first: {e})")).unwrap_or_default()),
                        &format!("{} entries: {want_paths:?} -- its own entries, then those of the nearest older band(s) that still open, each only after the last path already listed", wanted.len()),
                        "listing an interrupted version stops at (or is confused by) an older band directory that has no readable head: the entries of the complete version before it are dropped");
                }
                // restore of b0002: every path with the content of the band it comes from
                let mut tree: Snapshot = BTreeMap::new();
                for (e, b) in &want {
                    let p = e.apath.to_string();
                    if p != "/" {
                        tree.insert(p.clone(), su!(trees[*b].get(&p).cloned().ok_or(format!("{p} is not in the source of version {b}"))));
                    }
                }
                let dest = tmp.path().join("dest");
                let _ = std::fs::remove_dir_all(&dest);
                let m = TestMonitor::arc();
                let r = conserve::restore(&archive, &dest, RestoreOptions { band_selection: BandSelectionPolicy::Specified(bid(2)), ..RestoreOptions::default() }, m.clone()).await;
                let rerrs = m.take_errors();
                if let Err(e) = r {
                    return found(K, input, format!("restore of b0002 failed: {e}"), "Ok", "an interrupted version that still opens cannot be restored");
                }
                if let Some(d) = snapshot_diff(&tree_snapshot(&dest), &tree) {
                    return found(K, input, format!("restore of b0002: {d}; {} error(s) reported{}", rerrs.len(), rerrs.first().map(|e| format!(" (first: {e})")).unwrap_or_default()),
                        "every listed path, with the content of the version it comes from", "restoring an interrupted version loses the files that should come from the older complete version (silently when no error is reported)");
                }
                // the latest complete version is still b0000
                let lc = entries(&archive, BandSelectionPolicy::LatestClosed, Apath::root(), TestMonitor::arc()).await;
                if lc.as_ref().ok() != Some(&all(0)) {
                    return found(K, input, format!("listing with LatestClosed: {:?}", lc.map(|es| es.iter().map(|e| e.apath.to_string()).collect::<Vec<_>>())), "the entries of b0000", "the latest complete version is no longer listed as before");
                }
                if let Some(d) = restore_mismatch(&archive, BandSelectionPolicy::LatestClosed, &dest, &trees[0]).await? {
                    return found(K, input, format!("default restore: {d}"), "exactly the tree of b0000", "the latest complete version no longer restores as before");
                }
            }
        }
        Ok(None)
    })
}
