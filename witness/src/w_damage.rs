//! Bounded stand-in for the damage side of C09 (and the containment part of C10), public API only.
//! Kind `damage_sweep`: a history of two completed backups plus one interrupted-with-header backup (its BANDTAIL
//! removed) is built; then for EVERY stored file except the archive header and the band tails, and for each of
//! {delete, truncate to 0}, the file is damaged, every version is restored again and full + quick validation are
//! run; the original bytes are put back afterwards.
//!   C09: if some version no longer restores exactly as before the damage, validation (full; quick for missing
//!        files) must report at least one error.
//!   C10: no operation may panic; a version whose restore output changed must have reported an error.
//!   C10 (containment): when the damaged file is an index hunk of a COMPLETE version, every file whose entry lives in a
//!        DIFFERENT, untouched hunk of that version (computed from the undamaged index, read hunk by hunk through
//!        `Band::index().read_hunk`) must still restore exactly; only the files of the damaged hunk itself may be
//!        missing (that part is the recorded known finding).
//! Actions: delete, truncate0, truncate_half (first half of the bytes kept), garbage (64 bytes of 0xA5).
//! Input for replay: {"file": "<archive-relative path>", "action": "delete"|"truncate0"|"truncate_half"|"garbage"}.

use std::collections::BTreeMap;
use std::path::{Path, PathBuf};
use std::sync::Arc;

use conserve::monitor::test::TestMonitor;
use conserve::{Archive, BackupOptions, Band, BandId, BandSelectionPolicy, Kind, RestoreOptions, ValidateOptions};
use serde_json::{json, Value};

pub fn dispatch(mode: &str, kind: &str, input: Option<&Value>) -> Option<Value> {
    Some(match (mode, kind) {
        ("search", "damage_sweep") => guarded(None),
        ("replay", "damage_sweep") => guarded(Some((input?["file"].as_str()?.to_string(), input?["action"].as_str()?.to_string()))),
        _ => return None,
    })
}

type Outcome = (BTreeMap<String, Vec<u8>>, usize); // restored files, number of reported errors (usize::MAX = restore failed)

fn list_files(root: &Path) -> Vec<PathBuf> {
    let mut out = Vec::new();
    let mut stack = vec![root.to_path_buf()];
    while let Some(d) = stack.pop() {
        if let Ok(rd) = std::fs::read_dir(&d) {
            for e in rd.flatten() {
                let p = e.path();
                if p.is_dir() {
                    stack.push(p);
                } else {
                    out.push(p);
                }
            }
        }
    }
    out.sort();
    out
}

async fn restore_outcome(apath: &Path, band: u32, scratch: &Path, tag: &str) -> Outcome {
    let dest = scratch.join(format!("r_{tag}_{band}"));
    let _ = std::fs::remove_dir_all(&dest);
    let archive = match Archive::open_path(apath).await {
        Ok(a) => a,
        Err(_) => return (BTreeMap::new(), usize::MAX),
    };
    let monitor = TestMonitor::arc();
    let opts = RestoreOptions { band_selection: BandSelectionPolicy::Specified(BandId::new(&[band])), ..RestoreOptions::default() };
    let res = conserve::restore(&archive, &dest, opts, monitor.clone()).await;
    let nerr = if res.is_err() { usize::MAX } else { monitor.take_errors().len() };
    let mut files = BTreeMap::new();
    for f in list_files(&dest) {
        if let Ok(c) = std::fs::read(&f) {
            files.insert(f.strip_prefix(&dest).unwrap().to_string_lossy().into_owned(), c);
        }
    }
    let _ = std::fs::remove_dir_all(&dest);
    (files, nerr)
}

async fn validate_errors(apath: &Path, quick: bool) -> usize {
    let archive = match Archive::open_path(apath).await {
        Ok(a) => a,
        Err(_) => return 1, // cannot even open: that is a report
    };
    let monitor = TestMonitor::arc();
    match archive.validate(&ValidateOptions { skip_block_hashes: quick }, monitor.clone()).await {
        Err(_) => 1,
        Ok(()) => monitor.take_errors().len(),
    }
}

fn run(only: Option<(String, String)>) -> Option<Value> {
    let tmp = tempfile::tempdir().ok()?;
    let src = tmp.path().join("src");
    let apath = tmp.path().join("archive");
    std::fs::create_dir_all(src.join("sub")).ok()?;
    let big: Vec<u8> = (0..9000u32).map(|i| (i % 251) as u8 | 1).collect();
    std::fs::write(src.join("a"), b"alpha alpha alpha").ok()?;
    std::fs::write(src.join("b"), b"bravo").ok()?;
    std::fs::write(src.join("sub/big"), &big).ok()?;
    let rt = tokio::runtime::Runtime::new().ok()?;
    rt.block_on(async {
        let archive = Archive::create_path(&apath).await.ok()?;
        let opts = || BackupOptions { max_block_size: 4096, small_file_cap: 100, max_entries_per_hunk: 2, ..BackupOptions::default() };
        conserve::backup(&archive, &src, &opts(), Arc::new(conserve::monitor::void::VoidMonitor)).await.ok()?;
        std::fs::write(src.join("b"), b"bravo two").ok()?;
        std::fs::write(src.join("sub/c"), b"charlie").ok()?;
        conserve::backup(&archive, &src, &opts(), Arc::new(conserve::monitor::void::VoidMonitor)).await.ok()?;
        // third backup adds a large file whose blocks only this version references; then it is made "interrupted"
        let only_new: Vec<u8> = (0..6000u32).map(|i| (i % 13) as u8 + 7).collect();
        std::fs::write(src.join("sub/only_in_b2"), &only_new).ok()?;
        std::fs::write(src.join("z_small"), b"zulu").ok()?;
        conserve::backup(&archive, &src, &opts(), Arc::new(conserve::monitor::void::VoidMonitor)).await.ok()?;
        std::fs::remove_file(apath.join("b0002/BANDTAIL")).ok()?;
        // which files each hunk of the two complete versions records (before any damage)
        let mut hunk_files: Vec<Vec<(String, Vec<String>, Vec<String>)>> = Vec::new(); // per band: (hunk file, files, directories recorded in it)
        for b in 0..2u32 {
            let setup_err = |what: String| Some(json!({"found": false, "kind": "damage_sweep", "error": format!("setup: {what}")}));
            let band = match Band::open(&archive, BandId::new(&[b])).await {
                Ok(band) => band,
                Err(e) => return setup_err(format!("open b{b:04}: {e}")),
            };
            let numbers = match band.index().hunks_available().await {
                Ok(n) => n,
                Err(e) => return setup_err(format!("hunks of b{b:04}: {e}")),
            };
            let mut per_hunk = Vec::new();
            for n in numbers {
                let rel = format!("b{b:04}/i/{:05}/{:09}", n / 10000, n);
                if !apath.join(&rel).is_file() {
                    return setup_err(format!("hunk {n} of b{b:04} is not stored as {rel}"));
                }
                match band.index().read_hunk(n).await {
                    Ok(Some(es)) => {
                        let of_kind = |k: Kind| -> Vec<String> { es.iter().filter(|e| e.kind == k).map(|e| e.apath.to_string()[1..].to_string()).collect() };
                        per_hunk.push((rel, of_kind(Kind::File), of_kind(Kind::Dir)))
                    }
                    other => return setup_err(format!("undamaged hunk {rel} reads as {:?}", other.map(|o| o.map(|v| v.len())).map_err(|e| e.to_string()))),
                }
            }
            if per_hunk.len() < 2 {
                return setup_err(format!("b{b:04} has fewer than two hunks"));
            }
            hunk_files.push(per_hunk);
        }
        drop(archive);

        if validate_errors(&apath, false).await != 0 || validate_errors(&apath, true).await != 0 {
            return Some(json!({"found": true, "kind": "damage_sweep", "input": {"file": null, "action": "none"},
                "real": "validate reports errors on the undamaged archive", "expected": "no errors",
                "explain": "an archive produced by fault-free operations (two completed versions and one interrupted-with-header) does not validate"}));
        }
        let mut before = Vec::new();
        for b in 0..3u32 {
            before.push(restore_outcome(&apath, b, tmp.path(), "before").await);
        }
        let files: Vec<PathBuf> = list_files(&apath);
        for fpath in files {
            let rel = fpath.strip_prefix(&apath).ok()?.to_string_lossy().into_owned();
            if rel == "CONSERVE" || rel.ends_with("BANDTAIL") || rel == "GC_LOCK" {
                continue;
            }
            for action in ["delete", "truncate0", "truncate_half", "garbage"] {
                if let Some((of, oa)) = &only {
                    if *of != rel || oa != action {
                        continue;
                    }
                }
                let original = std::fs::read(&fpath).ok()?;
                match action {
                    "delete" => std::fs::remove_file(&fpath).ok()?,
                    "truncate0" => std::fs::write(&fpath, b"").ok()?,
                    "truncate_half" => std::fs::write(&fpath, &original[..original.len() / 2]).ok()?,
                    "garbage" => std::fs::write(&fpath, [0xA5u8; 64]).ok()?,
                    _ => return Some(json!({"found": false, "kind": "damage_sweep", "error": format!("unknown action {action}")})),
                }
                let mut changed = Vec::new();
                let mut afters: Vec<Outcome> = Vec::new();
                for b in 0..3u32 {
                    let after = restore_outcome(&apath, b, tmp.path(), "after").await;
                    if after.0 != before[b as usize].0 || (after.1 != before[b as usize].1) {
                        changed.push((b, after.1, after.0 != before[b as usize].0));
                    }
                    afters.push(after);
                }
                let full = validate_errors(&apath, false).await;
                let quick = validate_errors(&apath, true).await;
                std::fs::write(&fpath, &original).ok()?;
                let input = json!({"file": rel, "action": action});
                // An interrupted band has no tail and hence no hunk count: losing one of its hunks cannot be told
                // from an earlier interruption point (TODO: a gap in the numbering could be reported).
                let hunk_of_interrupted_band = rel.starts_with("b0002/i/");
                if hunk_of_interrupted_band {
                    continue;
                }
                // containment: files recorded in OTHER hunks of the same complete version are untouched by this damage
                for (b, per_hunk) in hunk_files.iter().enumerate() {
                    if !per_hunk.iter().any(|h| h.0 == rel) {
                        continue;
                    }
                    // (a file below a directory whose own entry is in the damaged hunk cannot be created: same known finding)
                    let lost_dirs: Vec<String> = per_hunk.iter().filter(|h| h.0 == rel).flat_map(|h| h.2.iter()).filter(|d| !d.is_empty()).map(|d| format!("{d}/")).collect();
                    let lost: Vec<&String> = per_hunk.iter().filter(|h| h.0 != rel).flat_map(|h| h.1.iter())
                        .filter(|f| !lost_dirs.iter().any(|d| f.starts_with(d.as_str())))
                        .filter(|f| before[b].0.contains_key(*f) && afters[b].0.get(*f) != before[b].0.get(*f)).collect();
                    if !lost.is_empty() {
                        let own: Vec<&String> = per_hunk.iter().filter(|h| h.0 == rel).flat_map(|h| h.1.iter()).collect();
                        return Some(json!({"found": true, "kind": "damage_sweep", "input": input,
                            "real": format!("restore of b{b:04} no longer gives {lost:?} exactly, although their entries are in other, untouched hunks (the damaged hunk records only {own:?}); restore reported {} error(s)",
                                if afters[b].1 == usize::MAX { "a failure and".to_string() } else { afters[b].1.to_string() }),
                            "expected": "only the files recorded in the damaged hunk may be affected",
                            "explain": "damage to one index hunk of a complete version spread to files recorded in other hunks"}));
                    }
                }
                if !changed.is_empty() && full == 0 {
                    return Some(json!({"found": true, "kind": "damage_sweep", "input": input,
                        "real": format!("versions whose restore changed: {:?}; full validation reported 0 errors (quick: {quick})", changed.iter().map(|c| format!("b{:04}", c.0)).collect::<Vec<_>>()),
                        "expected": "at least one validation error",
                        "explain": "a stored file was damaged so that some version no longer restores exactly, yet validation is silent"}));
                }
                // content damage inside a data block is outside quick validation's scope (it does not read blocks)
                let quick_in_scope = action == "delete" || action == "truncate0" || !rel.starts_with("d/");
                if !changed.is_empty() && quick == 0 && quick_in_scope {
                    return Some(json!({"found": true, "kind": "damage_sweep", "input": input,
                        "real": format!("versions whose restore changed: {:?}; quick validation reported 0 errors", changed.iter().map(|c| format!("b{:04}", c.0)).collect::<Vec<_>>()),
                        "expected": "at least one validation error (missing / emptied files are in quick validation's scope)",
                        "explain": "a stored file was removed or emptied so that some version no longer restores exactly, yet quick validation is silent"}));
                }
                // KNOWN FINDING (C10, recorded in known_findings.json): listing silently skips index hunks that are
                // missing or unreadable, so a version that lost an index hunk restores fewer files without an
                // error.  Index hunk files are therefore exempt from this clause here (validation still has to report).
                let is_index_hunk = rel.contains("/i/");
                for (b, nerr, content_changed) in &changed {
                    if *content_changed && *nerr == 0 && !is_index_hunk {
                        return Some(json!({"found": true, "kind": "damage_sweep", "input": input,
                            "real": format!("restore of b{b:04} produced different files and reported no error"),
                            "expected": "each file whose hunk or block became missing is reported as an error",
                            "explain": "damage made a version restore differently without any error being reported (silently dropped or altered)"}));
                    }
                }
            }
        }
        None
    })
}

fn guarded(only: Option<(String, String)>) -> Value {
    match std::panic::catch_unwind(move || run(only)) {
        Ok(Some(v)) => v,
        Ok(None) => json!({"found": false, "kind": "damage_sweep",
            "explain": "every archive file x {delete, truncate0, truncate_half, garbage}: restore changes are always accompanied by validation errors and restore errors; files in untouched hunks still restore; no panic"}),
        Err(p) => {
            let msg = p.downcast_ref::<String>().cloned().or_else(|| p.downcast_ref::<&str>().map(|s| s.to_string())).unwrap_or_default();
            json!({"found": true, "kind": "damage_sweep", "input": {"file": null, "action": "sweep"}, "real": format!("panic: {msg}"),
                "expected": "no panic", "explain": "an operation on a damaged archive panicked"})
        }
    }
}
