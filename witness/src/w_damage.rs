//! Bounded stand-in for the damage side of C09 (and the containment part of C10), public API only.
//! Kind `damage_sweep`: a history of two completed backups plus one interrupted-with-header backup (its BANDTAIL
//! removed) is built; then for EVERY stored file except the archive header and the band tails, and for each of
//! {delete, truncate to 0}, the file is damaged, every version is restored again and full + quick validation are
//! run; the original bytes are put back afterwards.
//!   C09: if some version no longer restores exactly as before the damage, validation (full; quick for missing
//!        files) must report at least one error.
//!   C10: no operation may panic; a version whose restore output changed must have reported an error.
//! Input for replay: {"file": "<archive-relative path>", "action": "delete"|"truncate0"}.

use std::collections::BTreeMap;
use std::path::{Path, PathBuf};
use std::sync::Arc;

use conserve::monitor::test::TestMonitor;
use conserve::{Archive, BackupOptions, BandId, BandSelectionPolicy, RestoreOptions, ValidateOptions};
use serde_json::{json, Value};

pub fn dispatch(mode: &str, kind: &str, input: Option<&Value>) -> Option<Value> {
    Some(match (mode, kind) {
        ("search", "damage_sweep") => guarded(None),
        ("replay", "damage_sweep") => guarded(Some((input?["file"].as_str()?.to_string(), input?["action"].as_str()?.to_string()))),
        _ => return None,
    })
}

type Outcome = (BTreeMap<String, Vec<u8>>, usize); // restored files, number of reported errors (usize::MAX = restore failed)

fn list_files(root: &Path) -> Vec<PathBuf> {
    let mut out = Vec::new();
    let mut stack = vec![root.to_path_buf()];
    while let Some(d) = stack.pop() {
        if let Ok(rd) = std::fs::read_dir(&d) {
            for e in rd.flatten() {
                let p = e.path();
                if p.is_dir() {
                    stack.push(p);
                } else {
                    out.push(p);
                }
            }
        }
    }
    out.sort();
    out
}

async fn restore_outcome(apath: &Path, band: u32, scratch: &Path, tag: &str) -> Outcome {
    let dest = scratch.join(format!("r_{tag}_{band}"));
    let _ = std::fs::remove_dir_all(&dest);
    let archive = match Archive::open_path(apath).await {
        Ok(a) => a,
        Err(_) => return (BTreeMap::new(), usize::MAX),
    };
    let monitor = TestMonitor::arc();
    let opts = RestoreOptions { band_selection: BandSelectionPolicy::Specified(BandId::new(&[band])), ..RestoreOptions::default() };
    let res = conserve::restore(&archive, &dest, opts, monitor.clone()).await;
    let nerr = if res.is_err() { usize::MAX } else { monitor.take_errors().len() };
    let mut files = BTreeMap::new();
    for f in list_files(&dest) {
        if let Ok(c) = std::fs::read(&f) {
            files.insert(f.strip_prefix(&dest).unwrap().to_string_lossy().into_owned(), c);
        }
    }
    let _ = std::fs::remove_dir_all(&dest);
    (files, nerr)
}

async fn validate_errors(apath: &Path, quick: bool) -> usize {
    let archive = match Archive::open_path(apath).await {
        Ok(a) => a,
        Err(_) => return 1, // cannot even open: that is a report
    };
    let monitor = TestMonitor::arc();
    match archive.validate(&ValidateOptions { skip_block_hashes: quick }, monitor.clone()).await {
        Err(_) => 1,
        Ok(()) => monitor.take_errors().len(),
    }
}

fn run(only: Option<(String, String)>) -> Option<Value> {
    let tmp = tempfile::tempdir().ok()?;
    let src = tmp.path().join("src");
    let apath = tmp.path().join("archive");
    std::fs::create_dir_all(src.join("sub")).ok()?;
    let big: Vec<u8> = (0..9000u32).map(|i| (i % 251) as u8 | 1).collect();
    std::fs::write(src.join("a"), b"alpha alpha alpha").ok()?;
    std::fs::write(src.join("b"), b"bravo").ok()?;
    std::fs::write(src.join("sub/big"), &big).ok()?;
    let rt = tokio::runtime::Runtime::new().ok()?;
    rt.block_on(async {
        let archive = Archive::create_path(&apath).await.ok()?;
        let opts = || BackupOptions { max_block_size: 4096, small_file_cap: 100, max_entries_per_hunk: 2, ..BackupOptions::default() };
        conserve::backup(&archive, &src, &opts(), Arc::new(conserve::monitor::void::VoidMonitor)).await.ok()?;
        std::fs::write(src.join("b"), b"bravo two").ok()?;
        std::fs::write(src.join("sub/c"), b"charlie").ok()?;
        conserve::backup(&archive, &src, &opts(), Arc::new(conserve::monitor::void::VoidMonitor)).await.ok()?;
        // third backup adds a large file whose blocks only this version references; then it is made "interrupted"
        let only_new: Vec<u8> = (0..6000u32).map(|i| (i % 13) as u8 + 7).collect();
        std::fs::write(src.join("sub/only_in_b2"), &only_new).ok()?;
        std::fs::write(src.join("z_small"), b"zulu").ok()?;
        conserve::backup(&archive, &src, &opts(), Arc::new(conserve::monitor::void::VoidMonitor)).await.ok()?;
        std::fs::remove_file(apath.join("b0002/BANDTAIL")).ok()?;
        drop(archive);

        if validate_errors(&apath, false).await != 0 || validate_errors(&apath, true).await != 0 {
            return Some(json!({"found": true, "kind": "damage_sweep", "input": {"file": null, "action": "none"},
                "real": "validate reports errors on the undamaged archive", "expected": "no errors",
                "explain": "an archive produced by fault-free operations (two completed versions and one interrupted-with-header) does not validate"}));
        }
        let mut before = Vec::new();
        for b in 0..3u32 {
            before.push(restore_outcome(&apath, b, tmp.path(), "before").await);
        }
        let files: Vec<PathBuf> = list_files(&apath);
        for fpath in files {
            let rel = fpath.strip_prefix(&apath).ok()?.to_string_lossy().into_owned();
            if rel == "CONSERVE" || rel.ends_with("BANDTAIL") || rel == "GC_LOCK" {
                continue;
            }
            for action in ["delete", "truncate0"] {
                if let Some((of, oa)) = &only {
                    if *of != rel || oa != action {
                        continue;
                    }
                }
                let original = std::fs::read(&fpath).ok()?;
                match action {
                    "delete" => std::fs::remove_file(&fpath).ok()?,
                    _ => std::fs::write(&fpath, b"").ok()?,
                }
                let mut changed = Vec::new();
                for b in 0..3u32 {
                    let after = restore_outcome(&apath, b, tmp.path(), "after").await;
                    if after.0 != before[b as usize].0 || (after.1 != before[b as usize].1) {
                        changed.push((b, after.1, after.0 != before[b as usize].0));
                    }
                }
                let full = validate_errors(&apath, false).await;
                let quick = validate_errors(&apath, true).await;
                std::fs::write(&fpath, &original).ok()?;
                let input = json!({"file": rel, "action": action});
                // An interrupted band has no tail and hence no hunk count: losing one of its hunks cannot be told
                // from an earlier interruption point (TODO: a gap in the numbering could be reported).
                let hunk_of_interrupted_band = rel.starts_with("b0002/i/");
                if hunk_of_interrupted_band {
                    continue;
                }
                if !changed.is_empty() && full == 0 {
                    return Some(json!({"found": true, "kind": "damage_sweep", "input": input,
                        "real": format!("versions whose restore changed: {:?}; full validation reported 0 errors (quick: {quick})", changed.iter().map(|c| format!("b{:04}", c.0)).collect::<Vec<_>>()),
                        "expected": "at least one validation error",
                        "explain": "a stored file was damaged so that some version no longer restores exactly, yet validation is silent"}));
                }
                if !changed.is_empty() && quick == 0 {
                    return Some(json!({"found": true, "kind": "damage_sweep", "input": input,
                        "real": format!("versions whose restore changed: {:?}; quick validation reported 0 errors", changed.iter().map(|c| format!("b{:04}", c.0)).collect::<Vec<_>>()),
                        "expected": "at least one validation error (missing / emptied files are in quick validation's scope)",
                        "explain": "a stored file was removed or emptied so that some version no longer restores exactly, yet quick validation is silent"}));
                }
                // KNOWN FINDING (C10, recorded in known_findings.json): listing silently skips index hunks that are
                // missing or unreadable, so a version that lost an index hunk restores fewer files without an
                // error.  Index hunk files are therefore exempt from this clause here (validation still has to report).
                let is_index_hunk = rel.contains("/i/");
                for (b, nerr, content_changed) in &changed {
                    if *content_changed && *nerr == 0 && !is_index_hunk {
                        return Some(json!({"found": true, "kind": "damage_sweep", "input": input,
                            "real": format!("restore of b{b:04} produced different files and reported no error"),
                            "expected": "each file whose hunk or block became missing is reported as an error",
                            "explain": "damage made a version restore differently without any error being reported (silently dropped or altered)"}));
                    }
                }
            }
        }
        None
    })
}

fn guarded(only: Option<(String, String)>) -> Value {
    match std::panic::catch_unwind(move || run(only)) {
        Ok(Some(v)) => v,
        Ok(None) => json!({"found": false, "kind": "damage_sweep",
            "explain": "every archive file x {delete, truncate0}: restore changes are always accompanied by validation errors and restore errors; no panic"}),
        Err(p) => {
            let msg = p.downcast_ref::<String>().cloned().or_else(|| p.downcast_ref::<&str>().map(|s| s.to_string())).unwrap_or_default();
            json!({"found": true, "kind": "damage_sweep", "input": {"file": null, "action": "sweep"}, "real": format!("panic: {msg}"),
                "expected": "no panic", "explain": "an operation on a damaged archive panicked"})
        }
    }
}
