//! Replay for C05.referenced_is_complete (unit gc): a read of an index hunk fails while gc works out what is
//! referenced; `IndexHunkIter::next` skips it silently, `referenced_blocks` under-approximates, and gc deletes
//! blocks that a kept, complete version needs.  Public API only, no hooks: the fault is produced by
//! temporarily replacing the bytes of the hunk file with junk (the read "succeeds" but `read_hunk` returns
//! Err, the same `Err(_) => continue` arm a transport error takes); the original bytes are put back before the
//! version is restored, so the fault is transient.  (Replacing the file by a directory does NOT work as a
//! fault: `hunks_available` only lists regular files, so the hunk silently drops out of the listing instead.)

use std::fs;
use std::path::{Path, PathBuf};

use conserve::monitor::test::TestMonitor;
use conserve::{backup, restore, Archive, BackupOptions, DeleteOptions, RestoreOptions};
use serde_json::{json, Value};

pub fn dispatch(mode: &str, kind: &str, _input: Option<&Value>) -> Option<Value> {
    Some(match (mode, kind) {
        ("search", "gc_read_fault") | ("replay", "gc_read_fault") => gc_read_fault(),
        _ => return None,
    })
}

fn count_files(dir: &Path) -> usize {
    let mut n = 0;
    if let Ok(rd) = fs::read_dir(dir) {
        for e in rd.flatten() {
            let p = e.path();
            if p.is_dir() {
                n += count_files(&p);
            } else {
                n += 1;
            }
        }
    }
    n
}

fn first_hunk(archive_dir: &Path) -> PathBuf {
    archive_dir.join("b0000").join("i").join("00000").join("000000000")
}

fn gc_read_fault() -> Value {
    let rt = tokio::runtime::Runtime::new().unwrap();
    rt.block_on(async {
        let tmp = tempfile::tempdir().unwrap();
        let src = tmp.path().join("src");
        let arch_dir = tmp.path().join("archive");
        fs::create_dir_all(&src).unwrap();
        let content: Vec<u8> = (0..200_000u32).map(|i| (i.wrapping_mul(2654435761) >> 13) as u8).collect();
        fs::write(src.join("precious"), &content).unwrap();

        let archive = Archive::create_path(&arch_dir).await.unwrap();
        backup(&archive, &src, &BackupOptions::default(), TestMonitor::arc()).await.unwrap();
        let blocks_before = count_files(&arch_dir.join("d"));

        // sanity: the version restores before the gc
        let out0 = tmp.path().join("out0");
        restore(&archive, &out0, RestoreOptions::default(), TestMonitor::arc()).await.unwrap();
        let ok_before = fs::read(out0.join("precious")).map(|b| b == content).unwrap_or(false);

        // the fault: while gc runs, reading this hunk yields an error
        let hunk = first_hunk(&arch_dir);
        let original = fs::read(&hunk).unwrap();
        fs::write(&hunk, b"\xff\xff\xff\xff transient junk \xff\xff").unwrap();

        let gc = archive
            .delete_bands(&[], &DeleteOptions::default(), TestMonitor::arc())
            .await;

        // the fault goes away: the hunk is back, identical
        fs::write(&hunk, &original).unwrap();

        let blocks_after = count_files(&arch_dir.join("d"));
        let out1 = tmp.path().join("out1");
        let mon = TestMonitor::arc();
        let archive2 = Archive::open_path(&arch_dir).await.unwrap();
        let r = restore(&archive2, &out1, RestoreOptions::default(), mon.clone()).await;
        let errors: Vec<String> = mon.take_errors().iter().map(|e| e.to_string()).collect();
        let ok_after = fs::read(out1.join("precious")).map(|b| b == content).unwrap_or(false);

        let gc_desc = match &gc {
            Ok(st) => format!(
                "Ok: unreferenced_block_count={} deleted_block_count={} deleted_band_count={}",
                st.unreferenced_block_count, st.deleted_block_count, st.deleted_band_count
            ),
            Err(e) => format!("Err: {e}"),
        };
        let found = ok_before && gc.is_ok() && blocks_after < blocks_before && !ok_after;
        json!({
            "found": found,
            "kind": "gc_read_fault",
            "input": {"history": ["backup {precious: 200000 bytes}", "gc (delete_bands(&[])) while reading hunk b0000/i/00000/000000000 yields an error (junk bytes during the gc only)", "restore latest"]},
            "real": {"gc": gc_desc, "block_files_before": blocks_before, "block_files_after": blocks_after,
                     "restore_after_gc_result": format!("{:?}", r.as_ref().map(|_| ()).map_err(|e| e.to_string())),
                     "restore_errors": errors, "file_restored_exactly_after_gc": ok_after},
            "expected": {"gc": "Err (cannot work out what is referenced) and no block deleted",
                         "file_restored_exactly_after_gc": true},
            "explain": "IndexHunkIter::next swallows the failed hunk read (Err(_) => continue); referenced_blocks returns Ok with the hashes of that hunk missing; delete_bands deletes them as garbage; the kept complete version b0000 no longer restores although its index and head/tail are intact."
        })
    })
}
