//! Native replay for unit restore, through the PUBLIC API of the real crate only.
//!  * `restore_mode_bits`: a one-file tree whose file has the given mode (including setuid/setgid/sticky) is backed
//!    up with `conserve::backup` and restored with `conserve::restore` into an empty directory; expected (C01):
//!    no error and the restored file has the same `mode & 0o7777`.
//! Input: `{"mode": u32}`.  The search enumerates a few modes with and without the 0o7000 bits.

use std::os::unix::fs::PermissionsExt;
use std::sync::Arc;

use conserve::monitor::void::VoidMonitor;
use conserve::{Archive, BackupOptions, RestoreOptions};
use serde_json::{json, Value};

pub fn dispatch(mode: &str, kind: &str, input: Option<&Value>) -> Option<Value> {
    Some(match (mode, kind) {
        ("search", "restore_mode_bits") => search(),
        ("replay", "restore_mode_bits") => replay(input?),
        _ => return None,
    })
}

const MODES: &[u32] = &[0o644, 0o755, 0o600, 0o4755, 0o2755, 0o6755, 0o1644, 0o4711, 0o2750, 0o7777];

fn roundtrip(mode: u32) -> Result<u32, String> {
    let src = tempfile::tempdir().map_err(|e| e.to_string())?;
    let arch = tempfile::tempdir().map_err(|e| e.to_string())?;
    let dest = tempfile::tempdir().map_err(|e| e.to_string())?;
    let f = src.path().join("f");
    std::fs::write(&f, b"content").map_err(|e| e.to_string())?;
    std::fs::set_permissions(&f, std::fs::Permissions::from_mode(mode)).map_err(|e| format!("chmod: {e}"))?;
    let set = std::fs::metadata(&f).map_err(|e| e.to_string())?.permissions().mode() & 0o7777;
    if set != mode {
        return Err(format!("SKIP: file system stored mode {set:o} instead of {mode:o}"));
    }
    let rt = tokio::runtime::Runtime::new().map_err(|e| e.to_string())?;
    rt.block_on(async {
        let archive = Archive::create_path(&arch.path().join("a")).await.map_err(|e| format!("create: {e}"))?;
        conserve::backup(&archive, src.path(), &BackupOptions::default(), Arc::new(VoidMonitor))
            .await
            .map_err(|e| format!("backup returned Err: {e}"))?;
        conserve::restore(&archive, &dest.path().join("out"), RestoreOptions::default(), Arc::new(VoidMonitor))
            .await
            .map_err(|e| format!("restore returned Err: {e}"))?;
        let md = std::fs::metadata(dest.path().join("out").join("f")).map_err(|e| format!("restored file: {e}"))?;
        Ok(md.permissions().mode() & 0o7777)
    })
}

fn report(mode: u32, r: Result<u32, String>) -> Option<Value> {
    match r {
        Ok(got) if got == mode => None,
        Ok(got) => Some(json!({
            "found": true, "kind": "restore_mode_bits", "input": {"mode": mode},
            "real": format!("{got:o}"), "expected": format!("{mode:o}"),
            "explain": format!("file with mode {mode:o} backed up and restored into an empty directory has mode {got:o} (uid {})", unsafe_uid()),
        })),
        Err(e) if e.starts_with("SKIP") => None,
        Err(e) => Some(json!({
            "found": true, "kind": "restore_mode_bits", "input": {"mode": mode},
            "real": e, "expected": format!("{mode:o}"), "explain": "backup/restore failed",
        })),
    }
}

fn unsafe_uid() -> String {
    std::fs::metadata("/proc/self").map(|m| { use std::os::unix::fs::MetadataExt; m.uid().to_string() }).unwrap_or_else(|_| "?".into())
}

fn search() -> Value {
    for &m in MODES {
        if let Some(v) = report(m, roundtrip(m)) {
            return v;
        }
    }
    json!({"found": false, "kind": "restore_mode_bits", "tried": MODES.len()})
}

fn replay(input: &Value) -> Value {
    let mode = input.get("mode").and_then(|m| m.as_u64()).unwrap_or(0o4755) as u32;
    report(mode, roundtrip(mode)).unwrap_or_else(|| json!({"found": false, "kind": "restore_mode_bits", "input": {"mode": mode}}))
}
