//! Native witness for "the written index is strictly increasing in the documented order, and the source walk,
//! the stored listing and a self-diff agree" (C11 / C13 / C18 / C02 / C08 depend on it), public API only.
//! Kind `index_order`: back up trees whose names exercise the ordering (siblings that extend one another, bytes
//! below '/', multi-byte names) with a small hunk size; then
//!   (a) every hunk of the new band, decoded through `Band::index()`, must be strictly increasing under an
//!       executable transcription of `doc_cmp` (w_apath::doc_cmp), within and across hunks;
//!   (b) the listing must contain exactly the source paths;
//!   (c) `conserve::diff` of the version against the unchanged tree must report nothing but Unchanged.
//! Input: {"files": ["a/b/c", ...], "max_entries_per_hunk": n}
//! Kind `last_band_id` (C07 / C02): band directories with ids of different widths: `Archive::last_band_id()` must be
//! the numerically greatest and a new backup must get an id above every existing one.
//! Input: {"ids": [0, 9999, 10000]}

use std::cmp::Ordering;
use std::sync::Arc;

use conserve::monitor::void::VoidMonitor;
use conserve::{Apath, Archive, BackupOptions, Band, BandId, Exclude};
use serde_json::{json, Value};

use super::w_apath::doc_cmp;

pub fn dispatch(mode: &str, kind: &str, input: Option<&Value>) -> Option<Value> {
    Some(match (mode, kind) {
        ("search", "index_order") => search_index_order(),
        ("replay", "index_order") => {
            let files: Vec<String> = input?["files"].as_array()?.iter().filter_map(|x| x.as_str().map(String::from)).collect();
            let n = input?["max_entries_per_hunk"].as_u64().unwrap_or(3) as usize;
            index_order_case(&files, n).unwrap_or_else(|| json!({"found": false, "kind": "index_order"}))
        }
        ("search", "last_band_id") => search_last_band_id(),
        ("replay", "last_band_id") => {
            let ids: Vec<u32> = input?["ids"].as_array()?.iter().filter_map(|x| x.as_u64().map(|v| v as u32)).collect();
            last_band_case(&ids).unwrap_or_else(|| json!({"found": false, "kind": "last_band_id"}))
        }
        _ => return None,
    })
}

fn trees() -> Vec<Vec<&'static str>> {
    vec![
        vec!["foo/a", "foo/sub/y", "foo-bar/x", "foo.old/x", "z"],
        vec!["proj/src/main.rs", "proj.bak/f", "proj/readme", "proj (copy)/f"],
        vec!["a/b/c", "a.b/sub/x", "a-b/in", "ab/q", "a b/k", "a/1", "é/ü", "éa/w"],
        vec!["d/e/f/g", "d/e.f/g", "d/e/f.g", "d/e-f", "d/e/f-g/h", "d+e/x"],
    ]
}

fn index_order_case(files: &[String], max_entries_per_hunk: usize) -> Option<Value> {
    let f2 = files.to_vec();
    match std::panic::catch_unwind(move || index_order_case_inner(&f2, max_entries_per_hunk)) {
        Ok(v) => v,
        Err(p) => {
            let msg = p.downcast_ref::<String>().cloned().or_else(|| p.downcast_ref::<&str>().map(|s| s.to_string())).unwrap_or_default();
            Some(json!({"found": true, "kind": "index_order", "input": {"files": files, "max_entries_per_hunk": max_entries_per_hunk},
                "real": format!("panic: {msg}"), "expected": "backup, listing and diff succeed",
                "explain": "backing up / listing a plain tree panicked (the order assertions of the walk, the index writer or the merge disagree)"}))
        }
    }
}

fn index_order_case_inner(files: &[String], max_entries_per_hunk: usize) -> Option<Value> {
    let src = tempfile::tempdir().ok()?;
    let arch = tempfile::tempdir().ok()?;
    let mut expected: Vec<String> = vec!["/".to_string()];
    for f in files {
        let p = src.path().join(f);
        std::fs::create_dir_all(p.parent()?).ok()?;
        std::fs::write(&p, f.as_bytes()).ok()?;
        let mut acc = String::new();
        for comp in f.split('/') {
            acc.push('/');
            acc.push_str(comp);
            if !expected.contains(&acc) {
                expected.push(acc.clone());
            }
        }
    }
    // one file owned by a uid that has no passwd entry (only possible as root): its recorded owner has a group but no
    // user, which must survive the index round trip or the self-diff below reports a change
    if let Some(first) = files.first() {
        let _ = std::os::unix::fs::chown(src.path().join(first), Some(54321), None);
    }
    expected.sort_by(|a, b| doc_cmp(a, b));
    let input = json!({"files": files, "max_entries_per_hunk": max_entries_per_hunk});
    let rt = tokio::runtime::Runtime::new().ok()?;
    rt.block_on(async {
        let archive = Archive::create_path(&arch.path().join("a")).await.ok()?;
        let options = BackupOptions { max_entries_per_hunk, ..BackupOptions::default() };
        if let Err(e) = conserve::backup(&archive, src.path(), &options, Arc::new(VoidMonitor)).await {
            return Some(json!({"found": true, "kind": "index_order", "input": input, "real": format!("backup failed: {e}"), "expected": "backup succeeds",
                "explain": "backing up a plain tree failed"}));
        }
        let band = Band::open(&archive, BandId::zero()).await.ok()?;
        let hunks = band.index().iter_available_hunks().await.collect_hunk_vec().await.ok()?;
        let mut all: Vec<String> = Vec::new();
        for h in &hunks {
            for e in h {
                all.push(e.apath.to_string());
            }
        }
        for w in all.windows(2) {
            if doc_cmp(&w[0], &w[1]) != Ordering::Less {
                return Some(json!({"found": true, "kind": "index_order", "input": input,
                    "real": {"stored_order": all}, "expected": {"documented_order": expected},
                    "explain": format!("stored index is not strictly increasing in the documented order: {:?} is followed by {:?}", w[0], w[1])}));
            }
        }
        if all != expected {
            return Some(json!({"found": true, "kind": "index_order", "input": input, "real": {"stored": all}, "expected": {"paths": expected},
                "explain": "stored index does not list exactly the source paths"}));
        }
        // (c) self-diff
        let st = archive.open_stored_tree(conserve::BandSelectionPolicy::Latest).await.ok()?;
        let source = conserve::SourceTree::open(src.path()).ok()?;
        let opts = conserve::DiffOptions { include_unchanged: false, exclude: Exclude::nothing() };
        let mut diff = conserve::diff(&st, &source, opts, Arc::new(VoidMonitor)).await.ok()?;
        let mut changes = Vec::new();
        while let Some(c) = diff.next().await {
            changes.push(format!("{c}"));
        }
        if !changes.is_empty() {
            return Some(json!({"found": true, "kind": "index_order", "input": input, "real": {"diff": changes}, "expected": {"diff": []},
                "explain": "diff of a version against the very tree it was made from reports changes"}));
        }
        None
    })
}

fn search_index_order() -> Value {
    let mut n = 0;
    for t in trees() {
        for hunk in [2usize, 3, 1000] {
            n += 1;
            let files: Vec<String> = t.iter().map(|s| s.to_string()).collect();
            if let Some(v) = index_order_case(&files, hunk) {
                return v;
            }
        }
    }
    json!({"found": false, "kind": "index_order", "evaluations": n})
}

fn last_band_case(ids: &[u32]) -> Option<Value> {
    let src = tempfile::tempdir().ok()?;
    let arch = tempfile::tempdir().ok()?;
    std::fs::write(src.path().join("f"), b"x").ok()?;
    let input = json!({"ids": ids});
    let rt = tokio::runtime::Runtime::new().ok()?;
    rt.block_on(async {
        let apath = arch.path().join("a");
        let archive = Archive::create_path(&apath).await.ok()?;
        // one real band, then renamed copies to fast-forward the history
        conserve::backup(&archive, src.path(), &BackupOptions::default(), Arc::new(VoidMonitor)).await.ok()?;
        let first = apath.join("b0000");
        for id in ids {
            let name = format!("b{id:04}");
            if *id != 0 {
                copy_dir(&first, &apath.join(name)).ok()?;
            }
        }
        if !ids.contains(&0) {
            std::fs::remove_dir_all(&first).ok()?;
        }
        let archive = Archive::open_path(&apath).await.ok()?;
        let max = *ids.iter().max()?;
        let last = archive.last_band_id().await.ok()??;
        if last != BandId::new(&[max]) {
            return Some(json!({"found": true, "kind": "last_band_id", "input": input, "real": last.to_string(), "expected": format!("b{max:04}"),
                "explain": "Archive::last_band_id() is not the numerically greatest existing band id"}));
        }
        conserve::backup(&archive, src.path(), &BackupOptions::default(), Arc::new(VoidMonitor)).await.ok()?;
        let newest = archive.last_band_id().await.ok()??;
        if newest != BandId::new(&[max + 1]) {
            return Some(json!({"found": true, "kind": "last_band_id", "input": input, "real": newest.to_string(), "expected": format!("b{:04}", max + 1),
                "explain": "a new backup did not get an id above every existing one"}));
        }
        let _ = Apath::root();
        None
    })
}

fn copy_dir(from: &std::path::Path, to: &std::path::Path) -> std::io::Result<()> {
    std::fs::create_dir_all(to)?;
    for e in std::fs::read_dir(from)? {
        let e = e?;
        let t = to.join(e.file_name());
        if e.file_type()?.is_dir() {
            copy_dir(&e.path(), &t)?;
        } else {
            std::fs::copy(e.path(), t)?;
        }
    }
    Ok(())
}

fn search_last_band_id() -> Value {
    for ids in [vec![0u32, 1], vec![0, 9], vec![0, 9999, 10000], vec![5, 99999, 100000], vec![0, 10, 9]] {
        if let Some(v) = last_band_case(&ids) {
            return v;
        }
    }
    json!({"found": false, "kind": "last_band_id", "evaluations": 5})
}
