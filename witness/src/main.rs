//! Witness search and replay against the real conserve crate (public API only).
//! usage: witness <search|replay> <kind> [json-input]
//! Prints one JSON object: {"found": bool, "kind": .., "input": .., "real": .., "expected": .., "explain": ..}
//! Modules: every src/w_*.rs exposes `pub fn dispatch(mode, kind, input) -> Option<Value>` (see build.rs).

use serde_json::{json, Value};

include!(concat!(env!("OUT_DIR"), "/mods.rs"));

fn main() {
    let args: Vec<String> = std::env::args().collect();
    if args.len() < 3 {
        eprintln!("usage: witness <search|replay> <kind> [json]");
        std::process::exit(2);
    }
    let input: Option<Value> = args.get(3).map(|s| serde_json::from_str(s).expect("json input"));
    let out = dispatch(&args[1], &args[2], input.as_ref())
        .unwrap_or_else(|| json!({"found": false, "error": format!("unknown witness kind {}", args[2])}));
    println!("{}", out);
}
