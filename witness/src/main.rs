//! Witness search and replay against the real conserve crate.
//! usage: witness <search|replay> <kind> [json-input]
//! Prints one JSON object: {"found": bool, "kind": .., "input": .., "real": .., "expected": ..}

use std::cmp::Ordering;

use conserve::Apath;
use serde_json::{json, Value};

mod paths;

fn main() {
    let args: Vec<String> = std::env::args().collect();
    if args.len() < 3 {
        eprintln!("usage: witness <search|replay> <kind> [json]");
        std::process::exit(2);
    }
    let mode = args[1].as_str();
    let kind = args[2].as_str();
    let input: Option<Value> = args.get(3).map(|s| serde_json::from_str(s).expect("json input"));
    let out = match (mode, kind) {
        ("search", "apath_prefix") => paths::search_prefix(),
        ("replay", "apath_prefix") => paths::replay_prefix(&input.unwrap()),
        ("search", "apath_cmp") => paths::search_cmp(),
        ("replay", "apath_cmp") => paths::replay_cmp(&input.unwrap()),
        ("search", "apath_valid") => paths::search_valid(),
        ("replay", "apath_valid") => paths::replay_valid(&input.unwrap()),
        _ => json!({"found": false, "error": format!("unknown witness kind {kind}")}),
    };
    println!("{}", out);
    let _ = Ordering::Equal;
    let _ = Apath::root();
}
