//! End-to-end bounded stand-in (public API only): small histories of backups of generated trees under small
//! block / hunk sizes, then  (A) full validation must report nothing (C09 healthy side, C13: every address inside
//! its block),  (B) every completed version must restore to exactly its snapshot: paths, kinds, bytes, symlink
//! targets, mtimes, modes (C01, C02),  (C) after deleting the first version the others still restore (C05),
//! (D) a file that shrinks while the backup runs must still leave an archive that validates (C13/C04).
//! Used ONLY when a unit cannot be posed to the verifier on the current tree (bounded, never counted as proved).
//! Kind `e2e_roundtrip`; input {"scenario": n, "options": m}.

use std::collections::BTreeMap;
use std::os::unix::fs::PermissionsExt;
use std::path::{Path, PathBuf};

use conserve::monitor::test::TestMonitor;
use conserve::{Archive, BackupOptions, BandId, BandSelectionPolicy, DeleteOptions, RestoreOptions, ValidateOptions};
use serde_json::{json, Value};

pub fn dispatch(mode: &str, kind: &str, input: Option<&Value>) -> Option<Value> {
    Some(match (mode, kind) {
        ("search", "e2e_roundtrip") => search(),
        ("replay", "e2e_roundtrip") => {
            let s = input?["scenario"].as_u64()? as usize;
            let o = input?["options"].as_u64()? as usize;
            guarded(s, o).unwrap_or_else(|| json!({"found": false, "kind": "e2e_roundtrip"}))
        }
        _ => return None,
    })
}

#[derive(Clone)]
struct F {
    path: &'static str,
    content: Vec<u8>,
    mtime: (i64, u32),
    mode: u32,
}

fn f(path: &'static str, content: Vec<u8>) -> F {
    F { path, content, mtime: (1_600_000_000, 123_456_789), mode: 0o644 }
}

fn pattern(n: usize, seed: u8) -> Vec<u8> {
    (0..n).map(|i| (i as u8).wrapping_mul(31).wrapping_add(seed) | 1).collect()
}

/// Each scenario is a list of versions (full tree contents); `shrink` names a file rewritten shorter while
/// the backup of the last version runs.
struct Scenario {
    name: &'static str,
    versions: Vec<Vec<F>>,
    links: Vec<(&'static str, &'static str)>,
    shrink: Option<(&'static str, &'static str)>, // (trigger file, victim file)
}

fn scenarios() -> Vec<Scenario> {
    let mut zero_tail = pattern(12288, 7);
    zero_tail.extend(vec![0u8; 2048]);
    let v1 = vec![
        f("empty", vec![]),
        f("a_small", b"hello small".to_vec()),
        f("b_zero1", vec![0u8]),
        f("c_zeros", vec![0u8; 100]),
        f("d/big_zero_tail", zero_tail.clone()),
        f("d/exact_two_blocks", pattern(8192, 3)),
        f("d/dup1", pattern(5000, 9)),
        f("d/e/dup2", pattern(5000, 9)),
        F { mode: 0o4755, ..f("d.x/setuid", b"#!/bin/sh\n".to_vec()) },
        F { mtime: (-3, 1), ..f("d-x/old", b"before the epoch".to_vec()) },
        F { mode: 0o600, mtime: (1_500_000_000, 0), ..f("z", pattern(999, 1)) },
    ];
    // second version: same-size rewrite within the same second of a file whose basis mtime has no fraction;
    // chmod-only change; touch-only change; removal; addition
    let mut v2 = v1.clone();
    for x in v2.iter_mut() {
        if x.path == "z" {
            x.content = pattern(999, 2);
            x.mtime = (1_500_000_000, 500_000_000);
        }
        if x.path == "a_small" {
            x.mode = 0o640;
        }
        if x.path == "c_zeros" {
            x.mtime = (1_600_000_001, 0);
        }
    }
    v2.retain(|x| x.path != "b_zero1");
    v2.push(f("d/new", pattern(1500, 5)));
    let acct1 = vec![F { mtime: (1_400_000_000, 0), ..f("acct", b"balance=100".to_vec()) }, f("other", b"x".to_vec())];
    let acct2 = vec![F { mtime: (1_400_000_000, 250_000_000), ..f("acct", b"balance=999".to_vec()) }, f("other", b"x".to_vec())];
    let acct3 = acct2.clone();
    vec![
        Scenario { name: "mixed tree, two versions", versions: vec![v1.clone(), v2], links: vec![("ln", "d/dup1"), ("d/up", "..")], shrink: None },
        Scenario {
            name: "many small files (several combined blocks per hunk)",
            versions: vec![vec![f("s/a", pattern(60, 1)), f("s/b", pattern(61, 2)), f("s/c", pattern(62, 3)), f("s/d", pattern(63, 4)), f("s/e", pattern(64, 5)),
                f("s/f", pattern(65, 6)), f("s/g", pattern(66, 7)), f("s/h", pattern(67, 8)), f("t/i", pattern(68, 9)), f("t/j", pattern(69, 10)), f("t/k", pattern(70, 11))]],
            links: vec![],
            shrink: None,
        },
        Scenario { name: "same-size rewrite in the same second", versions: vec![acct1, acct2, acct3], links: vec![], shrink: None },
        Scenario {
            name: "file shrinks during the backup",
            versions: vec![vec![f("a_first", pattern(60, 1)), f("b_mid", pattern(53, 2)), f("c_log", pattern(400, 3))]],
            links: vec![],
            shrink: Some(("/a_first", "c_log")),
        },
    ]
}

fn options(i: usize) -> BackupOptions {
    match i {
        0 => BackupOptions { max_block_size: 4096, small_file_cap: 1000, max_entries_per_hunk: 3, ..BackupOptions::default() },
        1 => BackupOptions { max_block_size: 200, small_file_cap: 150, max_entries_per_hunk: 2, ..BackupOptions::default() },
        // several combined-block flushes inside ONE index hunk group
        3 => BackupOptions { max_block_size: 100, small_file_cap: 90, max_entries_per_hunk: 1000, ..BackupOptions::default() },
        _ => BackupOptions::default(),
    }
}

fn materialize(root: &Path, files: &[F], links: &[(&str, &str)]) -> std::io::Result<()> {
    if root.exists() {
        std::fs::remove_dir_all(root)?;
    }
    std::fs::create_dir_all(root)?;
    for x in files {
        let p = root.join(x.path);
        std::fs::create_dir_all(p.parent().unwrap())?;
        std::fs::write(&p, &x.content)?;
        std::fs::set_permissions(&p, std::fs::Permissions::from_mode(x.mode))?;
        filetime::set_file_mtime(&p, filetime::FileTime::from_unix_time(x.mtime.0, x.mtime.1))?;
    }
    for (l, t) in links {
        let p = root.join(l);
        std::fs::create_dir_all(p.parent().unwrap())?;
        std::os::unix::fs::symlink(t, &p)?;
    }
    Ok(())
}

fn compare(restored: &Path, files: &[F], links: &[(&str, &str)], skip: Option<&str>) -> Option<String> {
    let mut expected: BTreeMap<PathBuf, ()> = BTreeMap::new();
    for x in files {
        expected.insert(PathBuf::from(x.path), ());
        if Some(x.path) == skip {
            continue;
        }
        let p = restored.join(x.path);
        let got = match std::fs::read(&p) {
            Ok(g) => g,
            Err(e) => return Some(format!("{}: not restored ({e})", x.path)),
        };
        if got != x.content {
            return Some(format!("{}: restored {} bytes, source had {} bytes (first difference at {:?})", x.path, got.len(), x.content.len(),
                got.iter().zip(x.content.iter()).position(|(a, b)| a != b)));
        }
        let md = std::fs::symlink_metadata(&p).ok()?;
        let mt = filetime::FileTime::from_last_modification_time(&md);
        if (mt.unix_seconds(), mt.nanoseconds()) != x.mtime {
            return Some(format!("{}: restored mtime {:?}, source had {:?}", x.path, (mt.unix_seconds(), mt.nanoseconds()), x.mtime));
        }
        if md.permissions().mode() & 0o7777 != x.mode {
            return Some(format!("{}: restored mode {:o}, source had {:o}", x.path, md.permissions().mode() & 0o7777, x.mode));
        }
    }
    for (l, t) in links {
        match std::fs::read_link(restored.join(l)) {
            Ok(got) if got == Path::new(t) => {}
            other => return Some(format!("symlink {l}: restored as {other:?}, source pointed to {t}")),
        }
    }
    // nothing extra
    let mut stack = vec![restored.to_path_buf()];
    while let Some(d) = stack.pop() {
        for e in std::fs::read_dir(&d).ok()? {
            let e = e.ok()?;
            let rel = e.path().strip_prefix(restored).ok()?.to_path_buf();
            let ft = e.file_type().ok()?;
            if ft.is_dir() {
                stack.push(e.path());
            } else if ft.is_file() && !expected.contains_key(&rel) {
                return Some(format!("{}: restored but not in the source snapshot", rel.display()));
            }
        }
    }
    None
}

fn run(si: usize, oi: usize) -> Option<Value> {
    let sc = scenarios().into_iter().nth(si)?;
    let input = json!({"scenario": si, "options": oi, "name": sc.name});
    let found = |real: String, expected: &str, explain: &str| {
        Some(json!({"found": true, "kind": "e2e_roundtrip", "input": input, "real": real, "expected": expected, "explain": explain}))
    };
    let tmp = tempfile::tempdir().ok()?;
    let src = tmp.path().join("src");
    let apath = tmp.path().join("archive");
    let rt = tokio::runtime::Runtime::new().ok()?;
    rt.block_on(async {
        let archive = Archive::create_path(&apath).await.ok()?;
        let nver = sc.versions.len();
        for (k, files) in sc.versions.iter().enumerate() {
            materialize(&src, files, &sc.links).ok()?;
            let mut opts = options(oi);
            if k + 1 == nver {
                if let Some((trigger, victim)) = sc.shrink {
                    let victim_path = src.join(victim);
                    opts.change_callback = Some(Box::new(move |ch| {
                        if ch.apath == trigger {
                            std::fs::write(&victim_path, b"short now!!!").unwrap();
                        }
                        Ok(())
                    }));
                }
            }
            let monitor = TestMonitor::arc();
            match conserve::backup(&archive, &src, &opts, monitor.clone()).await {
                Ok(stats) if stats.errors == 0 && monitor.take_errors().is_empty() => {}
                Ok(stats) => return found(format!("backup of version {k} reported {} errors", stats.errors), "no errors", "a fault-free backup reported errors"),
                Err(e) => return found(format!("backup of version {k} failed: {e}"), "Ok", "a fault-free backup failed"),
            }
        }
        // (A) validation is silent
        let monitor = TestMonitor::arc();
        if let Err(e) = archive.validate(&ValidateOptions { skip_block_hashes: false }, monitor.clone()).await {
            return found(format!("validate failed: {e}"), "Ok, no errors", "validation of a fault-free archive failed");
        }
        let errs = monitor.take_errors();
        if !errs.is_empty() {
            return found(format!("validate reported: {}", errs.iter().map(|e| e.to_string()).collect::<Vec<_>>().join("; ")), "no errors",
                "a fault-free history produced an archive that does not validate (e.g. an address outside its block)");
        }
        // (B) every version restores to its snapshot; (C) again after deleting the first version
        for round in 0..2 {
            for (k, files) in sc.versions.iter().enumerate() {
                if round == 1 && (k == 0 || nver < 2) {
                    continue;
                }
                let dest = tmp.path().join(format!("r{round}_{k}"));
                let monitor = TestMonitor::arc();
                let ropts = RestoreOptions { band_selection: BandSelectionPolicy::Specified(BandId::new(&[k as u32])), ..RestoreOptions::default() };
                if let Err(e) = conserve::restore(&archive, &dest, ropts, monitor.clone()).await {
                    return found(format!("restore of b{k:04} failed: {e}"), "Ok", "restore of a completed version failed");
                }
                let errs = monitor.take_errors();
                if !errs.is_empty() {
                    return found(format!("restore of b{k:04} reported: {}", errs[0]), "no errors", "restore of a completed version reported errors");
                }
                let skip = if k + 1 == nver { sc.shrink.map(|s| s.1) } else { None };
                if let Some(d) = compare(&dest, files, &sc.links, skip) {
                    return found(format!("b{k:04} (round {round}): {d}"), "restored tree == the tree at backup time",
                        "a completed version does not restore to its own snapshot");
                }
            }
            if round == 0 && nver >= 2 {
                let monitor = TestMonitor::arc();
                if let Err(e) = archive.delete_bands(&[BandId::zero()], &DeleteOptions { dry_run: false, break_lock: false }, monitor).await {
                    return found(format!("delete b0000 failed: {e}"), "Ok", "deleting the first version failed");
                }
            }
        }
        None
    })
}

fn guarded(si: usize, oi: usize) -> Option<Value> {
    match std::panic::catch_unwind(move || run(si, oi)) {
        Ok(v) => v,
        Err(p) => {
            let msg = p.downcast_ref::<String>().cloned().or_else(|| p.downcast_ref::<&str>().map(|s| s.to_string())).unwrap_or_default();
            Some(json!({"found": true, "kind": "e2e_roundtrip", "input": {"scenario": si, "options": oi}, "real": format!("panic: {msg}"),
                "expected": "no panic", "explain": "a fault-free history panicked"}))
        }
    }
}

fn search() -> Value {
    let n = scenarios().len();
    let mut tried = 0;
    for si in 0..n {
        for oi in 0..4 {
            tried += 1;
            if let Some(v) = guarded(si, oi) {
                return v;
            }
        }
    }
    json!({"found": false, "kind": "e2e_roundtrip", "evaluations": tried,
        "explain": "4 histories x 4 option sets: validate silent, every version restores exactly, also after deleting b0000"})
}
