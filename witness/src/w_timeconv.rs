//! Native replay for unit timeconv, through the PUBLIC API of the real crate only.
//!  * `timeconv_backup_mtime`: a one-file tree whose mtime is set (filetime) to sub-second / pre-1970 values is
//!    backed up with `conserve::backup` and restored with `conserve::restore`; expected (C01): no panic, no error,
//!    and the restored file has the same mtime (seconds and nanoseconds).
//!  * `timeconv_entry_mtime`: an index entry DECODED from JSON with out-of-range time fields; expected (C10):
//!    `EntryTrait::mtime` does not panic.
//! Inputs are `{"sec": i64, "nanos": u32}` in the utimensat / floor form (nanos count forwards from `sec`).

use std::sync::Arc;

use conserve::monitor::void::VoidMonitor;
use conserve::{Archive, BackupOptions, EntryTrait, IndexEntry, RestoreOptions};
use filetime::FileTime;
use serde_json::{json, Value};

pub fn dispatch(mode: &str, kind: &str, input: Option<&Value>) -> Option<Value> {
    Some(match (mode, kind) {
        ("search", "timeconv_backup_mtime") => search_backup(),
        ("replay", "timeconv_backup_mtime") => replay_backup(input?),
        ("search", "timeconv_entry_mtime") => search_entry(),
        ("replay", "timeconv_entry_mtime") => replay_entry(input?),
        _ => return None,
    })
}

/// (sec, nanos) in floor form.  -2.999999999 s is (-3, 1); the baseline test covers only (-36000, 0).
const MTIMES: &[(i64, u32)] = &[
    (1_700_000_000, 0),
    (1_700_000_000, 123_456_789),
    (0, 0),
    (0, 1),
    (-36_000, 0),
    (-3, 1),
    (-1, 999_999_999),
    (-1, 500_000_000),
    (-86_400, 250_000_000),
    (-2_000_000_000, 999_999_999),
];

fn panic_text(e: Box<dyn std::any::Any + Send>) -> String {
    e.downcast_ref::<String>()
        .cloned()
        .or_else(|| e.downcast_ref::<&str>().map(|s| s.to_string()))
        .unwrap_or_else(|| "panic".to_string())
}

/// Ok(restored (sec, nanos)) or Err(what went wrong).
fn backup_restore_one(sec: i64, nanos: u32) -> Result<(i64, u32), String> {
    let h = std::thread::spawn(move || -> Result<(i64, u32), String> {
        let src = tempfile::tempdir().map_err(|e| e.to_string())?;
        let arch = tempfile::tempdir().map_err(|e| e.to_string())?;
        let dest = tempfile::tempdir().map_err(|e| e.to_string())?;
        let f = src.path().join("f");
        std::fs::write(&f, b"content").map_err(|e| e.to_string())?;
        filetime::set_file_mtime(&f, FileTime::from_unix_time(sec, nanos)).map_err(|e| format!("set mtime: {e}"))?;
        let md = std::fs::metadata(&f).map_err(|e| e.to_string())?;
        let set = FileTime::from_last_modification_time(&md);
        if (set.unix_seconds(), set.nanoseconds()) != (sec, nanos) {
            return Err(format!("SKIP: file system stored {}.{:09} instead", set.unix_seconds(), set.nanoseconds()));
        }
        let rt = tokio::runtime::Runtime::new().map_err(|e| e.to_string())?;
        rt.block_on(async {
            let archive = Archive::create_path(&arch.path().join("a")).await.map_err(|e| format!("create: {e}"))?;
            conserve::backup(&archive, src.path(), &BackupOptions::default(), Arc::new(VoidMonitor))
                .await
                .map_err(|e| format!("backup returned Err: {e}"))?;
            conserve::restore(&archive, &dest.path().join("out"), RestoreOptions::default(), Arc::new(VoidMonitor))
                .await
                .map_err(|e| format!("restore returned Err: {e}"))?;
            let md = std::fs::metadata(dest.path().join("out").join("f")).map_err(|e| format!("restored file: {e}"))?;
            let got = FileTime::from_last_modification_time(&md);
            Ok((got.unix_seconds(), got.nanoseconds()))
        })
    });
    match h.join() {
        Ok(r) => r,
        Err(e) => Err(format!("PANIC: {}", panic_text(e))),
    }
}

fn judge_backup(sec: i64, nanos: u32) -> Value {
    let r = backup_restore_one(sec, nanos);
    let expected = format!("restored mtime = ({sec}, {nanos}), no panic, no error");
    match r {
        Ok(got) if got == (sec, nanos) => json!({"found": false, "kind": "timeconv_backup_mtime",
            "input": {"sec": sec, "nanos": nanos}, "real": format!("restored mtime = {:?}", got), "expected": expected}),
        Err(s) if s.starts_with("SKIP") => json!({"found": false, "kind": "timeconv_backup_mtime",
            "input": {"sec": sec, "nanos": nanos}, "real": s, "expected": expected}),
        Ok(got) => json!({"found": true, "kind": "timeconv_backup_mtime", "input": {"sec": sec, "nanos": nanos},
            "real": format!("restored mtime = {:?}", got), "expected": expected,
            "explain": format!("a file with mtime {sec} s + {nanos} ns is restored with mtime {} s + {} ns", got.0, got.1)}),
        Err(s) => json!({"found": true, "kind": "timeconv_backup_mtime", "input": {"sec": sec, "nanos": nanos},
            "real": s, "expected": expected,
            "explain": format!("backing up / restoring a file with mtime {sec} s + {nanos} ns: {s}")}),
    }
}

fn search_backup() -> Value {
    std::panic::set_hook(Box::new(|_| {}));
    let mut tried = 0;
    for &(s, n) in MTIMES {
        tried += 1;
        let v = judge_backup(s, n);
        if v["found"] == json!(true) {
            return v;
        }
    }
    json!({"found": false, "kind": "timeconv_backup_mtime", "tried": tried})
}

fn replay_backup(input: &Value) -> Value {
    std::panic::set_hook(Box::new(|_| {}));
    let s = input["sec"].as_i64().unwrap_or(-3);
    let n = input["nanos"].as_u64().unwrap_or(1) as u32;
    judge_backup(s, n)
}

/// Decoded (mtime, mtime_nanos) pairs: valid ones and the damage a garbled hunk can carry.
const DECODED: &[(i64, u64)] = &[
    (0, 0),
    (-3, 1),
    (1_700_000_000, 999_999_999),
    (0, 1_000_000_000),
    (0, 2_147_483_648),
    (0, 4_294_967_295),
    (253_402_207_201, 0),
    (-377_705_023_202, 0),
    (i64::MAX, 0),
];

fn judge_entry(mtime: i64, nanos: u64) -> Value {
    let text = format!(r#"{{"apath":"/f","kind":"File","mtime":{mtime},"mtime_nanos":{nanos}}}"#);
    let input = json!({"mtime": mtime, "mtime_nanos": nanos, "json": text});
    let entry: IndexEntry = match serde_json::from_str(&text) {
        Ok(e) => e,
        Err(e) => return json!({"found": false, "kind": "timeconv_entry_mtime", "input": input,
                                "real": format!("rejected by the decoder: {e}")}),
    };
    match std::panic::catch_unwind(|| entry.mtime().to_string()) {
        Ok(t) => json!({"found": false, "kind": "timeconv_entry_mtime", "input": input, "real": t}),
        Err(e) => {
            let p = panic_text(e);
            json!({"found": true, "kind": "timeconv_entry_mtime", "input": input, "real": format!("PANIC: {p}"),
                   "expected": "no panic on decoded values",
                   "explain": format!("an index entry decoded from {text} makes IndexEntry::mtime() panic: {p}")})
        }
    }
}

fn search_entry() -> Value {
    std::panic::set_hook(Box::new(|_| {}));
    for &(m, n) in DECODED {
        let v = judge_entry(m, n);
        if v["found"] == json!(true) {
            return v;
        }
    }
    json!({"found": false, "kind": "timeconv_entry_mtime", "tried": DECODED.len()})
}

fn replay_entry(input: &Value) -> Value {
    std::panic::set_hook(Box::new(|_| {}));
    judge_entry(input["mtime"].as_i64().unwrap_or(0), input["mtime_nanos"].as_u64().unwrap_or(4_294_967_295))
}
