//! Bounded stand-ins added after the fifth round of seeded defects (public API only; each is a bounded search that
//! proves nothing when it finds nothing):
//!  * `latest_closed_selection` (C02): every pattern of complete / interrupted versions up to length 5 (interrupted =
//!        BANDTAIL removed right after that backup), checked after every backup and once more after deleting the
//!        newest complete version: `last_complete_band`, `resolve_band_id(LatestClosed)`, listing with LatestClosed and
//!        restore with the default policy all select the GREATEST complete band; `NoCompleteBands` only when none.
//!        Input {"bands": "CIIC.." , "deleted": n|null}.
//!        Round 6: band ids that straddle a change in the number of digits (9999/10000, 99999/100000, mixed widths):
//!        four real versions whose band directories are renamed on disk to the ids under test (no 10001 backups are
//!        made), every complete / interrupted pattern: `list_band_ids` ascending NUMERICALLY, `last_band_id`,
//!        `last_complete_band`, `resolve_band_id(LatestClosed | Latest)`, listing and default restore.
//!        Input {"ids": [9998, 9999, 10000, 10001], "tails": "CCCI"}.
//!  * `crash_empty_last_file` (C03, C08): for every file the newest backup wrote (BANDHEAD, every new data block,
//!        every index hunk, BANDTAIL) the crash state "this file is present but EMPTY and nothing later was written":
//!        every reader must agree about completeness (`Archive::band_is_closed`, `Band::is_closed`,
//!        `StoredTree::is_closed`, `last_complete_band`); a band regarded as complete lists exactly the paths of its
//!        own source (nothing of the previous version appended, no path twice); an incomplete one lists its readable
//!        hunks followed by the previous version's entries after the last of them; the default restore gives exactly
//!        the tree of the version `last_complete_band` names.  Input {"archive": "two-band"|"one-band", "state": ".."}.
//!  * `subtree_restore` (C12): for EVERY directory S of a tree with siblings that extend one another and non-ASCII
//!        names, depth up to 5: listing with subtree S equals the full listing filtered by "S or below S", and
//!        restore with only_subtree = S into an absent and into an empty destination succeeds without any error and
//!        produces exactly the files below S.  Input {"subtree": "/a/b/c", "dest": "absent"|"empty"}.
//!        Round 7: the root itself is one of the subtrees (= a full restore), and the tree holds SYMLINKS next to
//!        siblings whose names merely extend the link's name (`/d/a ->`, `/d/a.b`, `/d/a.target`, `/d/ab/inner`,
//!        `/d/é ->`, `/d/éclair`, `/a/b/c/link ->`, `/a/b/c/link.d/f`, `/a/b/c/linker`): none of them lies below the
//!        link, every one must be restored.
//!  * `hunk_names` (C13, thorough: about 10 s): one backup with max_entries_per_hunk = 1 of more than 10000 entries;
//!        the files under `b0000/i/` must be exactly `{n/10000:05}/{n:09}` for n = 0..count (doc/format.md), the tail
//!        must record that count and the listing must return every entry.  Input {"files": n}.
//!  * `mtime_recorded_exact` (C01, C17): files, directories and symlinks dated in the far past (1901, 1960, just
//!        before the epoch with a fraction), now-ish and in the FUTURE (2100, 2200): the mtime recorded in the index
//!        equals the source mtime exactly, the second backup reports no change, restore puts the same mtimes back.
//!        Input {"path": ".."}.
//!  * `diff_agrees` (C18): after one backup the tree is edited in one way (same-second same-length rewrite, touch by
//!        1 ns / by 0.8 s, next second, longer content with the same mtime, chmod, add, delete, nothing): `diff`
//!        against the tree must name exactly the entries for which the next backup's change callback reports a
//!        change, and exactly the files whose stored entries differ between the two versions.  Input {"case": ".."}.
//!  * `second_close_keeps_tail` (C07): `Band::close` on an already closed band (re-opened with `Band::open`) must
//!        not remove or alter any file that existed before the call.  Input {"tail": "own"|"foreign"}.
//!  Round 8, `diff_agrees`: further cases {"case": "order: <tree>: <mutation>"} on trees whose string order and apath order
//!        differ (see `diff_order_cases`): diff and the backup's change callback equal the model difference, in order.

use std::collections::{BTreeMap, BTreeSet};
use std::os::unix::fs::{symlink, PermissionsExt};
use std::path::{Path, PathBuf};
use std::sync::{Arc, Mutex};

use conserve::monitor::test::TestMonitor;
use conserve::monitor::void::VoidMonitor;
use conserve::{Apath, Archive, BackupOptions, Band, BandId, BandSelectionPolicy, DeleteOptions, DiffOptions, Exclude, IndexEntry, Kind, RestoreOptions, SourceTree};
use filetime::FileTime;
use serde_json::{json, Value};

pub type R = Result<Option<Value>, String>;

macro_rules! su {
    ($e:expr) => {
        $e.map_err(|e| format!("setup failed at line {}: {e:?}", line!()))?
    };
}

pub fn dispatch(mode: &str, kind: &str, input: Option<&Value>) -> Option<Value> {
    let f: fn(Option<&Value>) -> R = match kind {
        "latest_closed_selection" => latest_closed_selection,
        "crash_empty_last_file" => crash_empty_last_file,
        "subtree_restore" => subtree_restore,
        "hunk_names" => hunk_names,
        "mtime_recorded_exact" => mtime_recorded_exact,
        "diff_agrees" => diff_agrees,
        "second_close_keeps_tail" => second_close_keeps_tail,
        _ => return None,
    };
    let only = match mode {
        "search" => None,
        "replay" => input,
        _ => return None,
    };
    let kind = kind.to_string();
    Some(match std::panic::catch_unwind(std::panic::AssertUnwindSafe(|| f(only))) {
        Ok(Ok(Some(v))) => v,
        Ok(Ok(None)) => json!({"found": false, "kind": kind}),
        Ok(Err(e)) => json!({"found": false, "kind": kind, "error": e}),
        Err(p) => {
            let msg = p.downcast_ref::<String>().cloned().or_else(|| p.downcast_ref::<&str>().map(|s| s.to_string())).unwrap_or_default();
            json!({"found": true, "kind": kind, "input": input.cloned().unwrap_or(json!({})), "real": format!("panic: {msg}"), "expected": "no panic",
                "explain": "a scenario built from fault-free operations and single-file crash states panicked"})
        }
    })
}

pub fn found(kind: &str, input: Value, real: String, expected: &str, explain: &str) -> R {
    Ok(Some(json!({"found": true, "kind": kind, "input": input, "real": real, "expected": expected, "explain": explain})))
}

/// true when a replay input is given and its field `key` differs from `val`
pub fn skip(only: Option<&Value>, key: &str, val: &Value) -> bool {
    match only {
        Some(o) => o.get(key).map(|v| v != val).unwrap_or(false),
        None => false,
    }
}

pub fn content(tag: &str, n: usize) -> Vec<u8> {
    let s = tag.bytes().fold(7u8, |a, b| a.wrapping_mul(31).wrapping_add(b));
    (0..n).map(|i| (i as u8).wrapping_mul(17).wrapping_add(s) | 1).collect()
}

pub fn put(root: &Path, rel: &str, bytes: &[u8]) -> Result<(), String> {
    let p = root.join(rel);
    su!(std::fs::create_dir_all(p.parent().unwrap()));
    su!(std::fs::write(&p, bytes));
    Ok(())
}

/// Every entry below `root`, and `root` itself, gets mtime (secs, nanos); symlinks themselves, not their targets.
pub fn pin_all(root: &Path, secs: i64, nanos: u32) -> Result<(), String> {
    let t = FileTime::from_unix_time(secs, nanos);
    let mut stack = vec![root.to_path_buf()];
    while let Some(d) = stack.pop() {
        for e in su!(std::fs::read_dir(&d)).flatten() {
            let ft = su!(e.file_type());
            if ft.is_dir() {
                stack.push(e.path());
            } else if ft.is_symlink() {
                su!(filetime::set_symlink_file_times(e.path(), t, t));
            } else {
                su!(filetime::set_file_mtime(e.path(), t));
            }
        }
        su!(filetime::set_file_mtime(&d, t));
    }
    Ok(())
}

pub fn copy_dir(from: &Path, to: &Path) -> std::io::Result<()> {
    std::fs::create_dir_all(to)?;
    for e in std::fs::read_dir(from)? {
        let e = e?;
        let t = to.join(e.file_name());
        if e.file_type()?.is_dir() {
            copy_dir(&e.path(), &t)?;
        } else {
            std::fs::copy(e.path(), t)?;
        }
    }
    Ok(())
}

/// rel path -> bytes of every regular file; symlinks as "-> target"; directories as entries with value None
pub fn tree_snapshot(root: &Path) -> BTreeMap<String, Option<Vec<u8>>> {
    let mut out = BTreeMap::new();
    let mut stack = vec![root.to_path_buf()];
    while let Some(d) = stack.pop() {
        if let Ok(rd) = std::fs::read_dir(&d) {
            for e in rd.flatten() {
                let p = e.path();
                let rel = format!("/{}", p.strip_prefix(root).unwrap().to_string_lossy());
                match e.file_type() {
                    Ok(ft) if ft.is_dir() => {
                        out.insert(rel, None);
                        stack.push(p);
                    }
                    Ok(ft) if ft.is_symlink() => {
                        out.insert(rel, Some(format!("-> {}", std::fs::read_link(&p).map(|t| t.to_string_lossy().into_owned()).unwrap_or_default()).into_bytes()));
                    }
                    _ => {
                        out.insert(rel, Some(std::fs::read(&p).unwrap_or_default()));
                    }
                }
            }
        }
    }
    out
}

pub fn snapshot_diff(got: &BTreeMap<String, Option<Vec<u8>>>, want: &BTreeMap<String, Option<Vec<u8>>>) -> Option<String> {
    let missing: Vec<&String> = want.keys().filter(|k| !got.contains_key(*k)).collect();
    let extra: Vec<&String> = got.keys().filter(|k| !want.contains_key(*k)).collect();
    let differ: Vec<&String> = want.keys().filter(|k| got.get(*k).map(|v| v != &want[*k]).unwrap_or(false)).collect();
    if missing.is_empty() && extra.is_empty() && differ.is_empty() {
        None
    } else {
        Some(format!("missing {missing:?}; not expected {extra:?}; different content {differ:?}"))
    }
}

pub async fn entries(archive: &Archive, policy: BandSelectionPolicy, subtree: Apath, monitor: Arc<TestMonitor>) -> Result<Vec<IndexEntry>, String> {
    let mut it = archive.iter_entries(policy, subtree, Exclude::nothing(), monitor).await.map_err(|e| e.to_string())?;
    let mut out = Vec::new();
    while let Some(e) = it.next().await {
        out.push(e);
    }
    Ok(out)
}

pub fn bid(n: u32) -> BandId {
    BandId::new(&[n])
}

// ------------------------------------------------------------------------------------------------------------ C02
fn pattern_text(bands: &[(u32, bool)]) -> String {
    bands.iter().map(|(n, c)| format!("b{n:04}:{}", if *c { "complete" } else { "interrupted" })).collect::<Vec<_>>().join(" ")
}

async fn check_selection(apath: &Path, bands: &[(u32, bool)], scratch: &Path, input: &Value) -> R {
    const K: &str = "latest_closed_selection";
    let expected: Option<u32> = bands.iter().filter(|b| b.1).map(|b| b.0).max();
    let exp_text = match expected {
        Some(n) => format!("b{n:04} (the greatest complete band of: {})", pattern_text(bands)),
        None => format!("no complete band (NoCompleteBands) in: {}", pattern_text(bands)),
    };
    let archive = su!(Archive::open_path(apath).await);
    let lcb = match archive.last_complete_band().await {
        Ok(b) => b.map(|b| b.id()),
        Err(e) => return found(K, input.clone(), format!("last_complete_band() failed: {e}"), &exp_text, "asking for the latest complete version failed on a healthy archive"),
    };
    if lcb != expected.map(bid) {
        return found(K, input.clone(), format!("last_complete_band() = {:?}", lcb.map(|b| b.to_string())), &exp_text,
            "the latest complete version is not the newest of the surviving completed versions");
    }
    match (archive.resolve_band_id(BandSelectionPolicy::LatestClosed).await, expected) {
        (Ok(id), Some(n)) if id == bid(n) => {}
        (Err(conserve::Error::NoCompleteBands), None) => {}
        (other, _) => {
            return found(K, input.clone(), format!("resolve_band_id(LatestClosed) = {:?}", other.map(|b| b.to_string()).map_err(|e| e.to_string())), &exp_text,
                "the latest-complete policy does not resolve to the newest surviving completed version")
        }
    }
    let m = TestMonitor::arc();
    match (entries(&archive, BandSelectionPolicy::LatestClosed, Apath::root(), m.clone()).await, expected) {
        (Ok(es), Some(n)) => {
            let mut want: Vec<String> = vec!["/".into()];
            want.extend((0..=n).map(|k| format!("/only_{k}")));
            want.push("/v".into());
            let got: Vec<String> = es.iter().map(|e| e.apath.to_string()).collect();
            if got != want {
                return found(K, input.clone(), format!("listing with LatestClosed = {got:?}"), &format!("{want:?}: the entries of {exp_text}"), "listing the latest complete version shows another version");
            }
        }
        (Err(_), None) => {}
        (Ok(es), None) => return found(K, input.clone(), format!("listing with LatestClosed returned {} entries", es.len()), &exp_text, "a version was listed although no complete version exists"),
        (Err(e), Some(_)) => return found(K, input.clone(), format!("listing with LatestClosed failed: {e}"), &exp_text, "listing the latest complete version failed"),
    }
    let dest = scratch.join("dest");
    let _ = std::fs::remove_dir_all(&dest);
    let m = TestMonitor::arc();
    let r = conserve::restore(&archive, &dest, RestoreOptions::default(), m.clone()).await;
    match (r, expected) {
        (Ok(()), Some(n)) => {
            let errs = m.take_errors();
            let v = std::fs::read(dest.join("v")).unwrap_or_default();
            let names: BTreeSet<String> = tree_snapshot(&dest).into_keys().collect();
            let mut want: BTreeSet<String> = (0..=n).map(|k| format!("/only_{k}")).collect();
            want.insert("/v".into());
            if !errs.is_empty() || v != format!("content of version {n}").into_bytes() || names != want {
                return found(K, input.clone(), format!("default restore: {} error(s); /v = {:?}; files {names:?}", errs.len(), String::from_utf8_lossy(&v)),
                    &format!("the tree of {exp_text}"), "restore with the default policy did not produce the newest surviving completed version");
            }
        }
        (Err(conserve::Error::NoCompleteBands), None) => {}
        (other, _) => {
            return found(K, input.clone(), format!("default restore returned {:?}", other.map_err(|e| e.to_string())), &exp_text,
                "restore with the default policy does not select the newest surviving completed version")
        }
    }
    Ok(None)
}

fn latest_closed_selection(only: Option<&Value>) -> R {
    let tmp = su!(tempfile::tempdir());
    let src = tmp.path().join("src");
    let rt = su!(tokio::runtime::Runtime::new());
    rt.block_on(async {
        const LEN: usize = 5;
        for mask in 0..(1u32 << LEN) {
            let flags: Vec<bool> = (0..LEN).map(|k| mask & (1 << k) != 0).collect();
            let text = |n: usize| flags[..n].iter().map(|c| if *c { 'C' } else { 'I' }).collect::<String>();
            if let Some(o) = only {
                let want = o["bands"].as_str().unwrap_or("");
                if !text(LEN).starts_with(want) || want.is_empty() {
                    continue;
                }
            }
            let apath = tmp.path().join(format!("ar{mask}"));
            let archive = su!(Archive::create_path(&apath).await);
            let _ = std::fs::remove_dir_all(&src);
            let mut bands: Vec<(u32, bool)> = Vec::new();
            for k in 0..LEN {
                put(&src, "v", format!("content of version {k}").as_bytes())?;
                put(&src, &format!("only_{k}"), b"x")?;
                pin_all(&src, 1_600_000_000 + k as i64, 0)?;
                let st = su!(conserve::backup(&archive, &src, &BackupOptions::default(), Arc::new(VoidMonitor)).await);
                if st.errors != 0 {
                    return Err(format!("setup: backup {k} reported errors"));
                }
                if !flags[k] {
                    su!(std::fs::remove_file(apath.join(format!("b{k:04}/BANDTAIL"))));
                }
                bands.push((k as u32, flags[k]));
                let input = json!({"bands": text(k + 1), "deleted": null});
                if skip(only, "bands", &input["bands"]) || skip(only, "deleted", &Value::Null) {
                    continue;
                }
                if let Some(v) = check_selection(&apath, &bands, tmp.path(), &input).await? {
                    return Ok(Some(v));
                }
            }
            // delete the newest complete version: the next older complete one becomes the latest
            // (delete is refused while the LAST band is incomplete, so only patterns ending in a complete band)
            if let Some(newest) = bands.iter().filter(|b| b.1).map(|b| b.0).max().filter(|n| *n as usize == LEN - 1) {
                let input = json!({"bands": text(LEN), "deleted": newest});
                if skip(only, "deleted", &input["deleted"]) {
                    continue;
                }
                su!(archive.delete_bands(&[bid(newest)], &DeleteOptions { dry_run: false, break_lock: false }, Arc::new(VoidMonitor)).await);
                bands.retain(|b| b.0 != newest);
                if let Some(v) = check_selection(&apath, &bands, tmp.path(), &input).await? {
                    return Ok(Some(v));
                }
            }
            drop(archive);
            let _ = std::fs::remove_dir_all(&apath);
        }
        wide_band_ids(only, tmp.path(), &src).await
    })
}

/// Band ids around 9999/10000 and 99999/100000 (directory names of different lengths: "b10000" sorts before "b9999"
/// as a string).  Four real versions b0000..b0003 are made once; for every id set and every complete / interrupted
/// pattern the four band directories are renamed to the ids under test in a fresh copy.
async fn wide_band_ids(only: Option<&Value>, tmp: &Path, src: &Path) -> R {
    const K: &str = "latest_closed_selection";
    if only.map(|o| o.get("bands").is_some()).unwrap_or(false) {
        return Ok(None);
    }
    let template = tmp.join("wide_template");
    let archive = su!(Archive::create_path(&template).await);
    let _ = std::fs::remove_dir_all(src);
    for k in 0..4 {
        put(src, "v", format!("content of version {k}").as_bytes())?;
        put(src, &format!("only_{k}"), b"x")?;
        pin_all(src, 1_600_000_000 + k as i64, 0)?;
        let st = su!(conserve::backup(&archive, src, &BackupOptions::default(), Arc::new(VoidMonitor)).await);
        if st.errors != 0 {
            return Err(format!("setup: backup {k} reported errors"));
        }
    }
    drop(archive);
    let id_sets: [[u32; 4]; 5] = [[9998, 9999, 10000, 10001], [99998, 99999, 100000, 100001], [0, 9999, 10000, 100000], [7, 10, 9999, 123456], [999, 1000, 99999, 1000000]];
    for (si, ids) in id_sets.into_iter().enumerate() {
        for mask in (0..16u32).rev() {
            // every pattern for the two plain straddles; a selection of patterns for the mixed-width sets
            if si >= 2 && only.is_none() && ![15, 14, 13, 11, 7, 5, 3, 0].contains(&mask) {
                continue;
            }
            let tails: String = (0..4).map(|k| if mask & (1 << k) != 0 { 'C' } else { 'I' }).collect();
            let input = json!({"ids": ids, "tails": tails});
            if skip(only, "ids", &input["ids"]) || skip(only, "tails", &input["tails"]) {
                continue;
            }
            let work = tmp.join("wide_work");
            let _ = std::fs::remove_dir_all(&work);
            su!(copy_dir(&template, &work));
            for k in (0..4usize).rev() {
                let to = work.join(bid(ids[k]).to_string());
                let from = work.join(format!("b{k:04}"));
                if from != to {
                    su!(std::fs::rename(&from, &to));
                }
                if mask & (1 << k) == 0 {
                    su!(std::fs::remove_file(to.join("BANDTAIL")));
                }
            }
            let names = |v: &[u32]| v.iter().map(|n| bid(*n).to_string()).collect::<Vec<_>>();
            let state: String = (0..4).map(|k| format!("{}:{}", bid(ids[k]), if mask & (1 << k) != 0 { "complete" } else { "interrupted" })).collect::<Vec<_>>().join(" ");
            let archive = su!(Archive::open_path(&work).await);
            // all ids, ascending by NUMBER
            match archive.list_band_ids().await {
                Ok(l) if l == ids.iter().map(|n| bid(*n)).collect::<Vec<_>>() => {}
                other => {
                    return found(K, input, format!("list_band_ids() = {:?}", other.map(|l| l.iter().map(|b| b.to_string()).collect::<Vec<_>>()).map_err(|e| e.to_string())), &format!("{:?} (ascending by number)", names(&ids)),
                        "the versions of the archive are not listed in ascending numerical order once their directory names differ in length")
                }
            }
            match archive.last_band_id().await {
                Ok(Some(b)) if b == bid(ids[3]) => {}
                other => return found(K, input, format!("last_band_id() = {:?}", other.map(|b| b.map(|b| b.to_string())).map_err(|e| e.to_string())), &bid(ids[3]).to_string(), "the newest version is not the one with the greatest number"),
            }
            match archive.resolve_band_id(BandSelectionPolicy::Latest).await {
                Ok(b) if b == bid(ids[3]) => {}
                other => return found(K, input, format!("resolve_band_id(Latest) = {:?}", other.map(|b| b.to_string()).map_err(|e| e.to_string())), &bid(ids[3]).to_string(), "the latest policy does not resolve to the version with the greatest number"),
            }
            let expected: Option<usize> = (0..4).rev().find(|k| mask & (1 << k) != 0);
            let exp_text = match expected {
                Some(k) => format!("{} (the greatest complete band of: {state})", bid(ids[k])),
                None => format!("no complete band (NoCompleteBands) in: {state}"),
            };
            let lcb = match archive.last_complete_band().await {
                Ok(b) => b.map(|b| b.id()),
                Err(e) => return found(K, input, format!("last_complete_band() failed: {e}"), &exp_text, "asking for the latest complete version failed on a healthy archive"),
            };
            if lcb != expected.map(|k| bid(ids[k])) {
                return found(K, input, format!("last_complete_band() = {:?}", lcb.map(|b| b.to_string())), &exp_text, "the latest complete version is not the complete version with the greatest number");
            }
            match (archive.resolve_band_id(BandSelectionPolicy::LatestClosed).await, expected) {
                (Ok(id), Some(k)) if id == bid(ids[k]) => {}
                (Err(conserve::Error::NoCompleteBands), None) => {}
                (other, _) => {
                    return found(K, input, format!("resolve_band_id(LatestClosed) = {:?}", other.map(|b| b.to_string()).map_err(|e| e.to_string())), &exp_text,
                        "the latest-complete policy does not resolve to the complete version with the greatest number")
                }
            }
            let m = TestMonitor::arc();
            match (entries(&archive, BandSelectionPolicy::LatestClosed, Apath::root(), m.clone()).await, expected) {
                (Ok(es), Some(k)) => {
                    let mut want: Vec<String> = vec!["/".into()];
                    want.extend((0..=k).map(|j| format!("/only_{j}")));
                    want.push("/v".into());
                    let got: Vec<String> = es.iter().map(|e| e.apath.to_string()).collect();
                    if got != want {
                        return found(K, input, format!("listing with LatestClosed = {got:?}"), &format!("{want:?}: the entries of {exp_text}"), "listing the latest complete version shows another version");
                    }
                }
                (Err(_), None) => {}
                (Ok(es), None) => return found(K, input, format!("listing with LatestClosed returned {} entries", es.len()), &exp_text, "a version was listed although no complete version exists"),
                (Err(e), Some(_)) => return found(K, input, format!("listing with LatestClosed failed: {e}"), &exp_text, "listing the latest complete version failed"),
            }
            let dest = tmp.join("wide_dest");
            let _ = std::fs::remove_dir_all(&dest);
            let m = TestMonitor::arc();
            match (conserve::restore(&archive, &dest, RestoreOptions::default(), m.clone()).await, expected) {
                (Ok(()), Some(k)) => {
                    let errs = m.take_errors();
                    let v = std::fs::read(dest.join("v")).unwrap_or_default();
                    let got: BTreeSet<String> = tree_snapshot(&dest).into_keys().collect();
                    let mut want: BTreeSet<String> = (0..=k).map(|j| format!("/only_{j}")).collect();
                    want.insert("/v".into());
                    if !errs.is_empty() || v != format!("content of version {k}").into_bytes() || got != want {
                        return found(K, input, format!("default restore: {} error(s); /v = {:?}; files {got:?}", errs.len(), String::from_utf8_lossy(&v)),
                            &format!("/v = \"content of version {k}\": the tree of {exp_text}"), "restore with the default policy did not produce the complete version with the greatest number");
                    }
                }
                (Err(conserve::Error::NoCompleteBands), None) => {}
                (other, _) => {
                    return found(K, input, format!("default restore returned {:?}", other.map_err(|e| e.to_string())), &exp_text, "restore with the default policy does not select the complete version with the greatest number")
                }
            }
        }
    }
    Ok(None)
}

// ------------------------------------------------------------------------------------------------------- C03 / C08
fn source_paths(root: &Path) -> Vec<String> {
    let mut v: Vec<String> = tree_snapshot(root).into_keys().collect();
    v.push("/".into());
    v
}

fn hunk_rel(band: u32, n: u32) -> String {
    format!("b{band:04}/i/{:05}/{:09}", n / 10000, n)
}

struct CrashBase {
    dir: PathBuf,
    band: u32,
    /// entries of each hunk of the newest band, read before any damage
    hunks: Vec<Vec<IndexEntry>>,
    /// data block files (archive-relative) the newest backup wrote, with the first hunk that refers to each
    new_blocks: Vec<(String, usize)>,
    /// listing of the previous band (empty when there is none)
    prev_listing: Vec<String>,
    /// source paths / restored tree of the newest version and of the previous one
    tree_new: BTreeMap<String, Option<Vec<u8>>>,
    tree_prev: Option<BTreeMap<String, Option<Vec<u8>>>>,
}

async fn crash_state_check(base: &CrashBase, label: &str, state: &str, work: &Path, scratch: &Path) -> R {
    const K: &str = "crash_empty_last_file";
    let input = json!({"archive": label, "state": state});
    let x = base.band;
    let archive = su!(Archive::open_path(work).await);
    let tree_x: Vec<String> = {
        let mut v: Vec<String> = base.tree_new.keys().cloned().collect();
        v.push("/".into());
        v
    };
    // (1) completeness, as seen by every reader
    let a = archive.band_is_closed(bid(x)).await.map_err(|e| e.to_string());
    let lcb = archive.last_complete_band().await.map(|b| b.map(|b| b.id())).map_err(|e| e.to_string());
    let band = Band::open(&archive, bid(x)).await;
    if state == "BANDHEAD" {
        // The newest band cannot be opened at all: it is not a version.  No reader may regard it as complete; the
        // listing falls back to the previous version.
        if std::env::var_os("WITNESS_DEBUG").is_some() {
            eprintln!("{label} BANDHEAD empty: band_is_closed = {a:?}; Band::open = {:?}; last_complete_band = {lcb:?}", band.as_ref().map(|b| b.id()).map_err(|e| e.to_string()));
        }
        if a != Ok(false) || band.is_ok() || matches!(lcb, Ok(Some(id)) if id == bid(x)) {
            return found(K, input, format!("Archive::band_is_closed = {a:?}; Band::open ok = {}; last_complete_band = {lcb:?}", band.is_ok()),
                "a band whose head was never written is not open-able and not complete", "a band without a readable head is treated as a version");
        }
        // C03 "every previously completed version restores exactly as before": the selection of the latest complete
        // version must not fail because of the interrupted band (all earlier bands of these archives are complete)
        let want = if x > 0 { Some(bid(x - 1)) } else { None };
        if lcb != Ok(want) {
            return found(K, input, format!("last_complete_band = {lcb:?}"), &format!("Ok({want:?})"),
                "a backup killed while creating its band head makes the selection of the latest complete version fail (default restore unusable)");
        }
        return Ok(None);
    }
    let band = match band {
        Ok(b) => b,
        Err(e) => return found(K, input, format!("Band::open(b{x:04}) failed: {e}"), "the band opens: its head is intact", "a crash while writing a later file made the band unopenable"),
    };
    let b = band.is_closed().await.map_err(|e| e.to_string());
    let st = archive.open_stored_tree(BandSelectionPolicy::Specified(bid(x))).await;
    let c = match &st {
        Ok(st) => st.is_closed().await.map_err(|e| e.to_string()),
        Err(e) => Err(e.to_string()),
    };
    let d = lcb.clone().map(|l| l == Some(bid(x)));
    let views = format!("Archive::band_is_closed = {a:?}; Band::is_closed = {b:?}; StoredTree::is_closed = {c:?}; last_complete_band = {:?}", lcb.clone().map(|l| l.map(|i| i.to_string())));
    if !(a.is_ok() && a == b && b == c && c == d) {
        return found(K, input, views, "all four agree (and none fails)", "after a crash that left an empty file, readers disagree whether the newest version is complete");
    }
    let complete = a == Ok(true);
    let prev_id = if x > 0 { Some(bid(x - 1)) } else { None };
    if !complete && lcb != Ok(prev_id) {
        return found(K, input, views, &format!("last_complete_band = {:?}", prev_id.map(|i| i.to_string())), "the previous completed version is no longer the latest complete one");
    }
    // (2) the stitched listing of the crashed band
    let readable: usize = match state {
        "BANDTAIL" | "undamaged" => base.hunks.len(),
        s if s.starts_with("hunk ") => s[5..].parse::<usize>().map_err(|e| e.to_string())?,
        s if s.starts_with("block ") => base.new_blocks.iter().find(|nb| nb.0 == s[6..]).map(|nb| nb.1).ok_or("unknown block")?,
        _ => return Err(format!("unknown state {state}")),
    };
    let mut want: Vec<String> = base.hunks[..readable].iter().flatten().map(|e| e.apath.to_string()).collect();
    if complete {
        // a complete band lists exactly its own source
        if readable != base.hunks.len() {
            return found(K, input, views, "not complete: hunks are missing and the tail was never written", "a band that lost its last hunks is regarded as complete");
        }
    } else {
        let last: Option<Apath> = base.hunks[..readable].iter().flatten().last().map(|e| e.apath.clone());
        want.extend(base.prev_listing.iter().filter(|p| last.as_ref().map(|l| Apath::from(p.as_str()) > *l).unwrap_or(true)).cloned());
    }
    for via in ["Archive::iter_entries", "StoredTree::iter_entries"] {
        let m = TestMonitor::arc();
        let got: Vec<String> = if via == "Archive::iter_entries" {
            match entries(&archive, BandSelectionPolicy::Specified(bid(x)), Apath::root(), m.clone()).await {
                Ok(es) => es.iter().map(|e| e.apath.to_string()).collect(),
                Err(e) => return found(K, input, format!("{via} failed: {e}"), "a listing", "listing the crashed band failed"),
            }
        } else {
            let mut it = match &st {
                Ok(st) => st.iter_entries(Apath::root(), Exclude::nothing(), m.clone()),
                Err(e) => return found(K, input, format!("open_stored_tree failed: {e}"), "a listing", "opening the crashed band failed"),
            };
            let mut v = Vec::new();
            while let Some(e) = it.next().await {
                v.push(e.apath.to_string());
            }
            v
        };
        let uniq: BTreeSet<&String> = got.iter().collect();
        if uniq.len() != got.len() {
            return found(K, input, format!("{via}(b{x:04}) = {got:?}"), "no path twice", "the stitched listing contains a path twice");
        }
        if complete {
            let mut sorted_want = tree_x.clone();
            sorted_want.sort();
            let mut sorted_got = got.clone();
            sorted_got.sort();
            if sorted_got != sorted_want {
                return found(K, input, format!("{views}; {via}(b{x:04}) = {got:?}"), &format!("exactly the paths of that version's source: {sorted_want:?}"),
                    "a version that the archive presents as complete lists entries its source did not have (entries of the previous version were appended) or lacks some");
            }
        }
        if got != want {
            return found(K, input, format!("{views}; {via}(b{x:04}) = {got:?}"), &format!("{want:?}"),
                "the listing of the crashed band is not: its readable hunks, then (only if incomplete) the previous version's entries after the last of them");
        }
    }
    // (3) restore with the default policy gives the tree of the version last_complete_band names
    let want_tree = if complete { Some(&base.tree_new) } else { base.tree_prev.as_ref() };
    let dest = scratch.join("crash_dest");
    let _ = std::fs::remove_dir_all(&dest);
    let m = TestMonitor::arc();
    let r = conserve::restore(&archive, &dest, RestoreOptions::default(), m.clone()).await;
    match (r, want_tree) {
        (Ok(()), Some(w)) => {
            let errs = m.take_errors();
            let got = tree_snapshot(&dest);
            if let Some(d) = snapshot_diff(&got, w) {
                return found(K, input, format!("{views}; default restore: {d}; {} error(s)", errs.len()), "exactly the tree of the latest complete version",
                    "after a crash that left an empty file, the default restore produces a tree that no completed version had");
            }
            if !errs.is_empty() {
                return found(K, input, format!("default restore reported {} error(s): {}", errs.len(), errs[0]), "no error", "restoring the latest complete version reported errors");
            }
        }
        (Err(conserve::Error::NoCompleteBands), None) => {}
        (other, _) => return found(K, input, format!("{views}; default restore returned {:?}", other.map_err(|e| e.to_string())), "restores the latest complete version (or NoCompleteBands if none)", "default restore fails after the crash"),
    }
    Ok(None)
}

async fn crash_base(dir: PathBuf, band: u32, blocks_before: &BTreeSet<String>, prev: Option<(&Vec<String>, BTreeMap<String, Option<Vec<u8>>>)>, src: &Path) -> Result<CrashBase, String> {
    let archive = su!(Archive::open_path(&dir).await);
    let b = su!(Band::open(&archive, bid(band)).await);
    let avail = su!(b.index().hunks_available().await);
    let mut hunks = Vec::new();
    let mut new_blocks: Vec<(String, usize)> = Vec::new();
    for (k, n) in avail.iter().enumerate() {
        if *n as usize != k {
            return Err(format!("setup: hunk numbers are not consecutive: {avail:?}"));
        }
        let es = su!(b.index().read_hunk(*n).await).ok_or("setup: hunk vanished")?;
        for e in &es {
            for a in &e.addrs {
                let rel = format!("d/{}", conserve::blockdir::block_relpath(&a.hash));
                if !blocks_before.contains(&rel) && !new_blocks.iter().any(|nb| nb.0 == rel) {
                    new_blocks.push((rel, k));
                }
            }
        }
        hunks.push(es);
    }
    Ok(CrashBase {
        dir,
        band,
        hunks,
        new_blocks,
        prev_listing: prev.as_ref().map(|p| p.0.clone()).unwrap_or_default(),
        tree_new: tree_snapshot(src),
        tree_prev: prev.map(|p| p.1),
    })
}

pub fn block_set(apath: &Path) -> BTreeSet<String> {
    tree_snapshot(&apath.join("d")).into_iter().filter(|(_, v)| v.is_some()).map(|(k, _)| format!("d{k}")).collect()
}

fn crash_empty_last_file(only: Option<&Value>) -> R {
    const K: &str = "crash_empty_last_file";
    let tmp = su!(tempfile::tempdir());
    let src = tmp.path().join("src");
    let opts = || BackupOptions { max_block_size: 4096, small_file_cap: 100, max_entries_per_hunk: 2, ..BackupOptions::default() };
    let rt = su!(tokio::runtime::Runtime::new());
    rt.block_on(async {
        // version 0
        put(&src, "aaa", &content("aaa", 20))?;
        put(&src, "big", &content("big", 5000))?;
        put(&src, "mmm/x", &content("x", 30))?;
        put(&src, "zzz", &content("zzz", 25))?;
        pin_all(&src, 1_600_000_000, 0)?;
        let two = tmp.path().join("two");
        let archive = su!(Archive::create_path(&two).await);
        su!(conserve::backup(&archive, &src, &opts(), Arc::new(VoidMonitor)).await);
        let one = tmp.path().join("one");
        su!(copy_dir(&two, &one));
        let tree0 = tree_snapshot(&src);
        let list0: Vec<String> = entries(&archive, BandSelectionPolicy::Specified(bid(0)), Apath::root(), TestMonitor::arc()).await?.iter().map(|e| e.apath.to_string()).collect();
        let mut s0 = source_paths(&src);
        s0.sort();
        let mut l0 = list0.clone();
        l0.sort();
        if l0 != s0 {
            return found(K, json!({"archive": "one-band", "state": "undamaged"}), format!("listing of b0000 = {list0:?}"), &format!("{s0:?}"), "a fault-free backup does not list its source");
        }
        let blocks0 = block_set(&two);
        // version 1: /aaa changed, /mmm/y added (its own blocks), /zzz deleted
        put(&src, "aaa", &content("aaa two", 33))?;
        put(&src, "mmm/y", &content("y", 6000))?;
        su!(std::fs::remove_file(src.join("zzz")));
        pin_all(&src, 1_600_000_100, 0)?;
        su!(conserve::backup(&archive, &src, &opts(), Arc::new(VoidMonitor)).await);
        drop(archive);
        let base_one = crash_base(one, 0, &BTreeSet::new(), None, &{
            // the source of version 0 is gone: rebuild it for the snapshot
            let s = tmp.path().join("src0");
            for (p, v) in &tree0 {
                if let Some(bytes) = v {
                    put(&s, &p[1..], bytes)?;
                }
            }
            s
        })
        .await?;
        let base_two = crash_base(two, 1, &blocks0, Some((&list0, tree0.clone())), &src).await?;
        if base_two.hunks.len() < 3 || base_two.new_blocks.len() < 2 {
            return Err(format!("setup: scenario too small ({} hunks, {} new blocks)", base_two.hunks.len(), base_two.new_blocks.len()));
        }
        for (label, base) in [("two-band", &base_two), ("one-band", &base_one)] {
            if skip(only, "archive", &json!(label)) {
                continue;
            }
            let mut states: Vec<String> = vec!["undamaged".into(), "BANDTAIL".into()];
            states.extend((0..base.hunks.len()).rev().map(|k| format!("hunk {k}")));
            states.extend(base.new_blocks.iter().map(|nb| format!("block {}", nb.0)));
            states.push("BANDHEAD".into());
            for state in states {
                if skip(only, "state", &json!(state)) {
                    continue;
                }
                let work = tmp.path().join("work");
                let _ = std::fs::remove_dir_all(&work);
                su!(copy_dir(&base.dir, &work));
                let bdir = work.join(format!("b{:04}", base.band));
                // files written after the one that is left empty do not exist
                let cut_hunks_from: usize;
                let cut_blocks_after_hunk: usize;
                match state.as_str() {
                    "undamaged" => {
                        cut_hunks_from = usize::MAX;
                        cut_blocks_after_hunk = usize::MAX;
                    }
                    "BANDTAIL" => {
                        su!(std::fs::write(bdir.join("BANDTAIL"), b""));
                        cut_hunks_from = usize::MAX;
                        cut_blocks_after_hunk = usize::MAX;
                    }
                    "BANDHEAD" => {
                        su!(std::fs::write(bdir.join("BANDHEAD"), b""));
                        cut_hunks_from = 0;
                        cut_blocks_after_hunk = 0;
                    }
                    s if s.starts_with("hunk ") => {
                        let k: usize = su!(s[5..].parse());
                        su!(std::fs::write(work.join(hunk_rel(base.band, k as u32)), b""));
                        cut_hunks_from = k + 1;
                        cut_blocks_after_hunk = k + 1;
                    }
                    s => {
                        let rel = &s[6..];
                        let k = base.new_blocks.iter().find(|nb| nb.0 == rel).map(|nb| nb.1).ok_or("unknown block")?;
                        su!(std::fs::write(work.join(rel), b""));
                        cut_hunks_from = k;
                        cut_blocks_after_hunk = k + 1;
                    }
                }
                if state != "undamaged" && state != "BANDTAIL" {
                    su!(std::fs::remove_file(bdir.join("BANDTAIL")));
                }
                for k in 0..base.hunks.len() {
                    if k >= cut_hunks_from {
                        su!(std::fs::remove_file(work.join(hunk_rel(base.band, k as u32))));
                    }
                }
                if cut_hunks_from == 0 {
                    su!(std::fs::remove_dir(bdir.join("i/00000")));
                }
                for (rel, k) in &base.new_blocks {
                    if *k >= cut_blocks_after_hunk {
                        let _ = std::fs::remove_file(work.join(rel));
                    }
                }
                if let Some(v) = crash_state_check(base, label, &state, &work, tmp.path()).await? {
                    return Ok(Some(v));
                }
            }
        }
        Ok(None)
    })
}

// ------------------------------------------------------------------------------------------------------------ C12
fn subtree_restore(only: Option<&Value>) -> R {
    const K: &str = "subtree_restore";
    let tmp = su!(tempfile::tempdir());
    let src = tmp.path().join("src");
    let files = [
        "top", "a/f1", "a/b/f2", "a/b/c/f3", "a/b/c/d/f4", "a/b/c/d/e/f5", "a/b/c.x/g", "a/b/cc/g", "a/b-c/h", "a.b/c/i", "ab/c/j",
        "é/f", "é/ü/g", "é/ü/日本/文", "é/ü/日本/深い/ファイル", "é/ü/日本語/k", "éa/ü/l", "x/y/z/w/v/u/deep",
        // siblings whose names extend the name of a symlink (the links are made below)
        "d/a.b", "d/a.target", "d/ab/inner", "d/éclair", "d/é.d/deep/f", "d/zz", "dd/other", "a/b/c/link.d/f", "a/b/c/linker", "a/b/c/link-2/g",
    ];
    for f in files {
        put(&src, f, &content(f, 10 + f.len()))?;
    }
    su!(std::fs::create_dir_all(src.join("a/b/c/empty/dir")));
    su!(symlink("../f2", src.join("a/b/c/link")));
    su!(symlink("a.target", src.join("d/a")));
    su!(symlink("nowhere", src.join("d/é")));
    su!(symlink("dd", src.join("d/z")));
    pin_all(&src, 1_600_000_000, 5)?;
    let whole = tree_snapshot(&src);
    let mut dirs: Vec<String> = whole.iter().filter(|(_, v)| v.is_none()).map(|(k, _)| k.clone()).collect();
    dirs.sort_by_key(|d| d.matches('/').count());
    dirs.insert(0, "/".to_string());
    let rt = su!(tokio::runtime::Runtime::new());
    rt.block_on(async {
        let archive = su!(Archive::create_path(&tmp.path().join("archive")).await);
        su!(conserve::backup(&archive, &src, &BackupOptions { max_entries_per_hunk: 3, ..BackupOptions::default() }, Arc::new(VoidMonitor)).await);
        let full: Vec<String> = entries(&archive, BandSelectionPolicy::Latest, Apath::root(), TestMonitor::arc()).await?.iter().map(|e| e.apath.to_string()).collect();
        for s in &dirs {
            let below = |p: &str| p == s || s == "/" || (p.starts_with(s.as_str()) && p.as_bytes()[s.len()] == b'/');
            // listing
            if !skip(only, "subtree", &json!(s)) {
                let want: Vec<String> = full.iter().filter(|p| below(p)).cloned().collect();
                let got: Vec<String> = entries(&archive, BandSelectionPolicy::Latest, Apath::from(s.as_str()), TestMonitor::arc()).await?.iter().map(|e| e.apath.to_string()).collect();
                if got != want {
                    return found(K, json!({"subtree": s, "dest": "listing"}), format!("listing below {s}: {got:?}"), &format!("{want:?}"), "listing a subtree does not give the directory and exactly what is below it");
                }
            }
            for destkind in ["absent", "empty"] {
                let input = json!({"subtree": s, "dest": destkind});
                if skip(only, "subtree", &input["subtree"]) || skip(only, "dest", &input["dest"]) {
                    continue;
                }
                let dest = tmp.path().join("dest");
                let _ = std::fs::remove_dir_all(&dest);
                if destkind == "empty" {
                    su!(std::fs::create_dir(&dest));
                }
                let m = TestMonitor::arc();
                let o = RestoreOptions { only_subtree: Some(Apath::from(s.as_str())), ..RestoreOptions::default() };
                if let Err(e) = conserve::restore(&archive, &dest, o, m.clone()).await {
                    return found(K, input, format!("restore failed: {e}"), "Ok", "restoring one directory of a version failed");
                }
                let errs = m.take_errors();
                let got = tree_snapshot(&dest);
                // exactly: the ancestors of S (as directories), S, and everything below S
                let want: BTreeMap<String, Option<Vec<u8>>> = whole.iter().filter(|(p, v)| below(p) || (v.is_none() && s.len() > p.len() && s.starts_with(p.as_str()) && s.as_bytes()[p.len()] == b'/')).map(|(p, v)| (p.clone(), v.clone())).collect();
                if !errs.is_empty() || got != want {
                    return found(K, input, format!("{} error(s){}; {}", errs.len(), errs.first().map(|e| format!(" (first: {e})")).unwrap_or_default(), snapshot_diff(&got, &want).unwrap_or_else(|| "tree as expected".into())),
                        "no error; exactly the entries at or below the subtree (inside its otherwise empty ancestors)", "restoring only a subtree fails or restores something else than that subtree");
                }
            }
        }
        Ok(None)
    })
}

// ------------------------------------------------------------------------------------------------------------ C13
fn hunk_names(only: Option<&Value>) -> R {
    const K: &str = "hunk_names";
    let nfiles = only.and_then(|o| o["files"].as_u64()).unwrap_or(10_050) as usize;
    let input = json!({"files": nfiles, "max_entries_per_hunk": 1});
    let tmp = su!(tempfile::tempdir());
    let src = tmp.path().join("src");
    su!(std::fs::create_dir_all(&src));
    for i in 0..nfiles {
        su!(std::fs::write(src.join(format!("f{i:06}")), b""));
    }
    let rt = su!(tokio::runtime::Runtime::new());
    rt.block_on(async {
        let apath = tmp.path().join("archive");
        let archive = su!(Archive::create_path(&apath).await);
        let st = su!(conserve::backup(&archive, &src, &BackupOptions { max_entries_per_hunk: 1, ..BackupOptions::default() }, Arc::new(VoidMonitor)).await);
        if st.errors != 0 {
            return found(K, input, format!("backup reported {} errors", st.errors), "no errors", "a fault-free backup of many files reported errors");
        }
        let count = nfiles + 1; // one entry per hunk: the root and every file
        let idir = apath.join("b0000/i");
        let mut present: BTreeSet<String> = BTreeSet::new();
        for d in su!(std::fs::read_dir(&idir)).flatten() {
            let dn = d.file_name().to_string_lossy().into_owned();
            if !su!(d.file_type()).is_dir() {
                present.insert(dn);
                continue;
            }
            for f in su!(std::fs::read_dir(d.path())).flatten() {
                present.insert(format!("{dn}/{}", f.file_name().to_string_lossy()));
            }
        }
        let want: BTreeSet<String> = (0..count).map(|n| format!("{:05}/{:09}", n / 10000, n)).collect();
        if present != want {
            let extra: Vec<&String> = present.difference(&want).take(4).collect();
            let missing: Vec<&String> = want.difference(&present).take(4).collect();
            return found(K, input, format!("{} files under b0000/i; not allowed by the format: {extra:?} ...; missing: {missing:?} ...", present.len()),
                &format!("exactly i/{{n/10000:05}}/{{n:09}} for n = 0..{count} (doc/format.md: 9-digit sequence number, subdirectory = number / 10000)"),
                "index hunks are not named by their sequence number, consecutively from 0");
        }
        let band = su!(Band::open(&archive, bid(0)).await);
        let info = su!(band.get_info().await);
        if info.index_hunk_count != Some(count as u64) {
            return found(K, input, format!("BANDTAIL index_hunk_count = {:?}", info.index_hunk_count), &format!("{count}"), "the tail does not record the number of hunks written");
        }
        let avail = su!(band.index().hunks_available().await);
        if avail != (0..count as u32).collect::<Vec<u32>>() {
            return found(K, input, format!("hunks_available() has {} numbers, first deviation at index {:?}", avail.len(), avail.iter().enumerate().find(|(i, n)| **n as usize != *i)), &format!("0..{count}"),
                "the hunk numbers read back are not consecutive from 0");
        }
        let listed = entries(&archive, BandSelectionPolicy::Latest, Apath::root(), TestMonitor::arc()).await?;
        if listed.len() != count || listed.last().map(|e| e.apath.to_string()) != Some(format!("/f{:06}", nfiles - 1)) {
            return found(K, input, format!("listing has {} entries, last {:?}", listed.len(), listed.last().map(|e| e.apath.to_string())), &format!("{count} entries, last /f{:06}", nfiles - 1),
                "a version with more than 10000 hunks does not list every entry");
        }
        Ok(None)
    })
}

// ------------------------------------------------------------------------------------------------------ C01 / C17
fn lmtime(p: &Path) -> Result<(i64, u32), String> {
    let md = su!(std::fs::symlink_metadata(p));
    let t = FileTime::from_last_modification_time(&md);
    Ok((t.unix_seconds(), t.nanoseconds()))
}

/// (relative path, kind: 'f' | 'd' | 'l', mtime) -- dates a filesystem with 34-bit+ timestamps keeps exactly
pub fn dated_entries() -> Vec<(&'static str, char, (i64, u32))> {
    let y2100 = 4_102_444_800i64;
    let y2200 = 7_258_118_400i64;
    let y1960 = -315_619_200i64;
    let y1901 = -2_147_400_000i64; // 1901-12-14, just above the 32-bit minimum
    vec![
        ("dated/future_file", 'f', (y2100, 123_456_789)),
        ("dated/future_file_whole", 'f', (y2200, 0)),
        ("dated/future_dir", 'd', (y2100 + 86_400, 500)),
        ("dated/future_link", 'l', (y2100 + 2 * 86_400, 999_999_999)),
        ("dated/past_1960_file", 'f', (y1960, 250_000_000)),
        ("dated/past_1960_dir", 'd', (y1960 + 1, 0)),
        ("dated/past_1960_link", 'l', (y1960 + 2, 1)),
        ("dated/past_1901_file", 'f', (y1901, 999_999_999)),
        ("dated/past_1901_dir", 'd', (y1901 + 5, 7)),
        ("dated/past_1901_link", 'l', (y1901 + 9, 0)),
        ("dated/pre_epoch_file", 'f', (-1, 999_999_999)),
        ("dated/recent_file", 'f', (1_700_000_000, 1)),
    ]
}

/// Create the dated entries below `root` and set their mtimes (call AFTER any blanket pinning; sets `dated/` itself last).
pub fn make_dated(root: &Path) -> Result<(), String> {
    for (rel, kind, _) in dated_entries() {
        let p = root.join(rel);
        su!(std::fs::create_dir_all(p.parent().unwrap()));
        match kind {
            'f' => su!(std::fs::write(&p, rel.as_bytes())),
            'd' => su!(std::fs::create_dir_all(&p)),
            _ => {
                let _ = std::fs::remove_file(&p);
                su!(symlink("future_file", &p))
            }
        }
    }
    set_dated(root)
}

pub fn set_dated(root: &Path) -> Result<(), String> {
    for (rel, kind, (s, n)) in dated_entries() {
        let p = root.join(rel);
        let t = FileTime::from_unix_time(s, n);
        if kind == 'l' {
            su!(filetime::set_symlink_file_times(&p, t, t));
        } else {
            su!(filetime::set_file_mtime(&p, t));
        }
        if lmtime(&p)? != (s, n) {
            return Err(format!("setup: the filesystem does not keep mtime {s}.{n:09} of {rel} (reads back {:?})", lmtime(&p)?));
        }
    }
    su!(filetime::set_file_mtime(root.join("dated"), FileTime::from_unix_time(4_102_444_800 + 7, 42)));
    Ok(())
}

fn mtime_recorded_exact(only: Option<&Value>) -> R {
    const K: &str = "mtime_recorded_exact";
    let tmp = su!(tempfile::tempdir());
    let src = tmp.path().join("src");
    put(&src, "plain", b"plain")?;
    pin_all(&src, 1_600_000_000, 0)?;
    make_dated(&src)?;
    let now = std::time::SystemTime::now().duration_since(std::time::UNIX_EPOCH).map(|d| d.as_secs() as i64).unwrap_or(0);
    if now >= 4_102_444_800 {
        return Err("setup: the 'future' dates of this scenario are no longer in the future".into());
    }
    // what the filesystem says, read independently of conserve
    let mut want: BTreeMap<String, (i64, u32)> = BTreeMap::new();
    want.insert("/".into(), lmtime(&src)?);
    for p in tree_snapshot(&src).keys() {
        want.insert(p.clone(), lmtime(&src.join(&p[1..]))?);
    }
    let rt = su!(tokio::runtime::Runtime::new());
    rt.block_on(async {
        let archive = su!(Archive::create_path(&tmp.path().join("archive")).await);
        let st = su!(conserve::backup(&archive, &src, &BackupOptions::default(), Arc::new(VoidMonitor)).await);
        if st.errors != 0 {
            return found(K, json!({}), format!("backup reported {} errors", st.errors), "no errors", "backing up entries with unusual dates reported errors");
        }
        let es = entries(&archive, BandSelectionPolicy::Latest, Apath::root(), TestMonitor::arc()).await?;
        let got: BTreeMap<String, (i64, u32)> = es.iter().map(|e| (e.apath.to_string(), (e.mtime, e.mtime_nanos))).collect();
        for (p, w) in &want {
            if skip(only, "path", &json!(p)) {
                continue;
            }
            match got.get(p) {
                Some(g) if g == w => {}
                other => {
                    return found(K, json!({"path": p, "source_mtime": [w.0, w.1]}), format!("recorded mtime of {p}: {other:?}"), &format!("{w:?} (the source's mtime: seconds, nanoseconds)"),
                        "the modification time recorded for an entry is not the source's (a date in the future or far past is altered)")
                }
            }
        }
        // an unchanged tree is reported unchanged by the next backup
        let changed: Arc<Mutex<Vec<String>>> = Arc::new(Mutex::new(Vec::new()));
        let c2 = changed.clone();
        let o = BackupOptions { change_callback: Some(Box::new(move |ch| { if !ch.change.is_unchanged() { c2.lock().unwrap().push(ch.to_string()); } Ok(()) })), ..BackupOptions::default() };
        let st2 = su!(conserve::backup(&archive, &src, &o, Arc::new(VoidMonitor)).await);
        let changed = changed.lock().unwrap().clone();
        if only.is_none() && (!changed.is_empty() || st2.written_blocks != 0) {
            return found(K, json!({"second_backup": true}), format!("second backup of the untouched tree: changes {changed:?}, {} block(s) written", st2.written_blocks), "no change, nothing written",
                "an entry with an unusual date is seen as modified by every later backup");
        }
        // restore puts the same times back
        let dest = tmp.path().join("dest");
        let m = TestMonitor::arc();
        if let Err(e) = conserve::restore(&archive, &dest, RestoreOptions { band_selection: BandSelectionPolicy::Specified(bid(0)), ..RestoreOptions::default() }, m.clone()).await {
            return found(K, json!({}), format!("restore failed: {e}"), "Ok", "restoring entries with unusual dates failed");
        }
        let errs = m.take_errors();
        if !errs.is_empty() {
            return found(K, json!({}), format!("restore reported: {}", errs[0]), "no errors", "restoring entries with unusual dates reported errors");
        }
        for (p, w) in &want {
            if skip(only, "path", &json!(p)) {
                continue;
            }
            let g = lmtime(&dest.join(&p[1..]))?;
            if g != *w {
                return found(K, json!({"path": p, "source_mtime": [w.0, w.1], "phase": "restore"}), format!("restored mtime of {p}: {g:?}"), &format!("{w:?}"), "restore does not put back the modification time the source had");
            }
        }
        Ok(None)
    })
}

// ------------------------------------------------------------------------------------------------------------ C18
fn diff_agrees(only: Option<&Value>) -> R {
    const K: &str = "diff_agrees";
    const T: i64 = 1_650_000_000;
    let cases = ["nothing", "rewrite_same_second", "touch_1ns", "touch_same_second", "touch_next_second", "touch_to_whole_second", "longer_same_mtime", "chmod", "added", "deleted", "rewrite_and_other_touched"];
    let tmp = su!(tempfile::tempdir());
    let rt = su!(tokio::runtime::Runtime::new());
    rt.block_on(async {
        for case in cases {
            if skip(only, "case", &json!(case)) {
                continue;
            }
            let input = json!({"case": case});
            let root = tmp.path().join(case);
            let src = root.join("src");
            put(&src, "other", b"other file")?;
            put(&src, "report", b"total: 1000")?;
            put(&src, "sub/whole", b"whole second")?;
            pin_all(&src, T, 0)?;
            let set = |rel: &str, s: i64, n: u32| filetime::set_file_mtime(src.join(rel), FileTime::from_unix_time(s, n)).map_err(|e| format!("setup: {e}"));
            set("report", T, 100_000_000)?;
            set("other", T, 100_000_000)?;
            if lmtime(&src.join("report"))? != (T, 100_000_000) {
                return Err("setup: the filesystem does not keep sub-second mtimes".into());
            }
            let archive = su!(Archive::create_path(&root.join("archive")).await);
            su!(conserve::backup(&archive, &src, &BackupOptions::default(), Arc::new(VoidMonitor)).await);
            let dir_times = (lmtime(&src)?, lmtime(&src.join("sub"))?);
            match case {
                "nothing" => {}
                "rewrite_same_second" => {
                    su!(std::fs::write(src.join("report"), b"total: 9999"));
                    set("report", T, 900_000_000)?;
                }
                "touch_1ns" => set("report", T, 100_000_001)?,
                "touch_same_second" => set("report", T, 900_000_000)?,
                "touch_next_second" => set("report", T + 1, 100_000_000)?,
                "touch_to_whole_second" => set("report", T, 0)?,
                "longer_same_mtime" => {
                    su!(std::fs::write(src.join("report"), b"total: 1000000"));
                    set("report", T, 100_000_000)?;
                }
                "chmod" => su!(std::fs::set_permissions(src.join("report"), std::fs::Permissions::from_mode(0o600))),
                "added" => {
                    put(&src, "sub/new", b"new")?;
                    set("sub/new", T, 5)?;
                }
                "deleted" => su!(std::fs::remove_file(src.join("other"))),
                _ => {
                    su!(std::fs::write(src.join("report"), b"total: 9999"));
                    set("report", T, 100_000_001)?;
                    set("other", T, 999_999_999)?;
                    set("sub/whole", T, 1)?;
                }
            }
            // directory times as they were (not compared by diff, but keep the scenario exact)
            su!(filetime::set_file_mtime(&src, FileTime::from_unix_time(dir_times.0 .0, dir_times.0 .1)));
            su!(filetime::set_file_mtime(src.join("sub"), FileTime::from_unix_time(dir_times.1 .0, dir_times.1 .1)));
            // (a) diff of the stored version against the tree
            let st = su!(archive.open_stored_tree(BandSelectionPolicy::Latest).await);
            let lt = su!(SourceTree::open(&src));
            let mut d = su!(conserve::diff(&st, &lt, DiffOptions::default(), Arc::new(VoidMonitor)).await);
            let diffed: BTreeSet<String> = d.collect().await.iter().map(|c| c.to_string()).collect();
            let mut d = su!(conserve::diff(&st, &lt, DiffOptions { include_unchanged: true, ..DiffOptions::default() }, Arc::new(VoidMonitor)).await);
            let diffed_all: Vec<String> = d.collect().await.iter().map(|c| c.to_string()).collect();
            // (b) what the next backup reports
            let seen: Arc<Mutex<BTreeSet<String>>> = Arc::new(Mutex::new(BTreeSet::new()));
            let s2 = seen.clone();
            let o = BackupOptions { change_callback: Some(Box::new(move |ch| { if !ch.change.is_unchanged() { s2.lock().unwrap().insert(ch.to_string()); } Ok(()) })), ..BackupOptions::default() };
            su!(conserve::backup(&archive, &src, &o, Arc::new(VoidMonitor)).await);
            let backed: BTreeSet<String> = seen.lock().unwrap().clone();
            if diffed != backed {
                return found(K, input, format!("diff reports {diffed:?} (with unchanged: {diffed_all:?}); the backup of the same tree reports {backed:?}"), "the same changed entries",
                    "diff and the next backup disagree about which entries changed");
            }
            // (c) what the two stored versions hold
            let e0 = entries(&archive, BandSelectionPolicy::Specified(bid(0)), Apath::root(), TestMonitor::arc()).await?;
            let e1 = entries(&archive, BandSelectionPolicy::Specified(bid(1)), Apath::root(), TestMonitor::arc()).await?;
            let m0: BTreeMap<String, &IndexEntry> = e0.iter().map(|e| (e.apath.to_string(), e)).collect();
            let m1: BTreeMap<String, &IndexEntry> = e1.iter().map(|e| (e.apath.to_string(), e)).collect();
            let mut stored: BTreeSet<String> = BTreeSet::new();
            for (p, a) in &m0 {
                match m1.get(p) {
                    None => {
                        stored.insert(format!("- {p}"));
                    }
                    Some(b) if a.kind == Kind::File && a != b => {
                        stored.insert(format!("* {p}"));
                    }
                    _ => {}
                }
            }
            for p in m1.keys() {
                if !m0.contains_key(p) {
                    stored.insert(format!("+ {p}"));
                }
            }
            if diffed != stored {
                return found(K, input, format!("diff reports {diffed:?}; the entries stored for the two versions differ in {stored:?}"), "the same entries",
                    "diff does not report exactly the files whose stored metadata or content addresses differ");
            }
        }
        diff_order_cases(only, tmp.path()).await
    })
}

/// Round 8: trees in which STRING order and APATH order of the paths differ (`/a/c` with `/b`; `/a.b`, `/a-b/x` with
/// `/a/x`; a top-level file next to a directory with children), one file removed / added / grown at a time.  The
/// expected difference is computed here from the two source trees alone, in the documented apath order (transcription
/// `w_apath::doc_cmp`): `diff(stored, source)` must be exactly that sequence; the change callback of the next backup
/// must report the same sequence (it does not report ADDED DIRECTORIES -- `copy_dir` returns no change on the unchanged
/// tree --, none is added here); the new version lists exactly the paths of the new tree.
/// Input {"case": "order: <tree>: <mutation>"}.
async fn diff_order_cases(only: Option<&Value>, tmp: &Path) -> R {
    const K: &str = "diff_agrees";
    const T: i64 = 1_650_000_000;
    let trees: [(&str, &[&str], &[&str]); 4] = [
        ("t1", &["a/c", "b"], &["b-new", "a/d", "0", "a/b", "c"]),
        ("t2", &["a.b", "a/x", "a/y", "a-b/x", "a0"], &["a-", "a/x2", "a-b/w", "a!", "a-b/y", "a/a", "b"]),
        ("t3", &["dir/one", "dir/two", "dir/sub/three", "m"], &["dir.txt", "e", "c", "dir-", "dir0", "dir/sub/a", "dir/zz", "n"]),
        ("t4", &["x/y/z", "x/y.z", "x.y/z", "x/yy", "w"], &["x/y/a", "x-", "x/y-", "x.y/a", "x/z", "y"]),
    ];
    let mut n = 0;
    for (tname, files, adds) in trees {
        let mut mutations: Vec<(String, &str, &str)> = Vec::new();
        for f in files {
            mutations.push((format!("remove {f}"), "remove", f));
            mutations.push((format!("grow {f}"), "grow", f));
        }
        for f in adds {
            mutations.push((format!("add {f}"), "add", f));
        }
        for (mname, op, path) in mutations {
            let case = format!("order: {tname}: {mname}");
            if skip(only, "case", &json!(case)) {
                continue;
            }
            n += 1;
            let root = tmp.join(format!("order{n}"));
            let src = root.join("src");
            for f in files {
                put(&src, f, &content(f, 11))?;
            }
            pin_all(&src, T, 0)?;
            let before = tree_snapshot(&src);
            let archive = su!(Archive::create_path(&root.join("archive")).await);
            su!(conserve::backup(&archive, &src, &BackupOptions::default(), Arc::new(VoidMonitor)).await);
            match op {
                "remove" => su!(std::fs::remove_file(src.join(path))),
                "grow" => put(&src, path, &content(path, 23))?,
                _ => put(&src, path, &content(path, 7))?,
            }
            pin_all(&src, T, 0)?;
            let after = tree_snapshot(&src);
            // the model difference, in apath order
            let mut paths: Vec<&String> = before.keys().chain(after.keys().filter(|k| !before.contains_key(*k))).collect();
            paths.sort_by(|x, y| super::w_apath::doc_cmp(x, y));
            let mut model: Vec<String> = Vec::new();
            for p in &paths {
                match (before.get(*p), after.get(*p)) {
                    (Some(_), None) => model.push(format!("- {p}")),
                    (None, Some(_)) => model.push(format!("+ {p}")),
                    (Some(x), Some(y)) if x != y => model.push(format!("* {p}")),
                    _ => {}
                }
            }
            if model.is_empty() || model.iter().any(|l| l.starts_with('+') && after.get(&l[2..]) == Some(&None)) {
                return Err(format!("setup failed: case {case:?} has the model difference {model:?} (empty, or a directory is added)"));
            }
            let mut after_paths: Vec<String> = std::iter::once("/".to_string()).chain(after.keys().cloned()).collect();
            after_paths.sort_by(|x, y| super::w_apath::doc_cmp(x, y));
            let input = json!({"case": case, "tree": files, "mutation": mname, "tree_lists_in_apath_order_as": after_paths});
            let st = su!(archive.open_stored_tree(BandSelectionPolicy::Latest).await);
            let lt = su!(SourceTree::open(&src));
            let mut d = su!(conserve::diff(&st, &lt, DiffOptions::default(), Arc::new(VoidMonitor)).await);
            let diffed: Vec<String> = d.collect().await.iter().map(|c| format!("{} {}", c.change.sigil(), AsRef::<str>::as_ref(&c.apath))).collect();
            if diffed != model {
                return found(K, input, format!("diff reports {diffed:?}"), &format!("{model:?}"),
                    "diff of the stored version against the tree is not the difference of the two trees: the two listings are not aligned in apath order (direct children of a directory come before the contents of its subdirectories)");
            }
            let seen: Arc<Mutex<Vec<String>>> = Arc::new(Mutex::new(Vec::new()));
            let s2 = seen.clone();
            let o = BackupOptions { change_callback: Some(Box::new(move |ch| { if !ch.change.is_unchanged() { s2.lock().unwrap().push(format!("{} {}", ch.change.sigil(), AsRef::<str>::as_ref(&ch.apath))); } Ok(()) })), ..BackupOptions::default() };
            let stats = su!(conserve::backup(&archive, &src, &o, Arc::new(VoidMonitor)).await);
            let backed: Vec<String> = seen.lock().unwrap().clone();
            if backed != model {
                return found(K, input, format!("the backup's change callback reports {backed:?} (new_files = {}, modified_files = {})", stats.new_files, stats.modified_files), &format!("{model:?}"),
                    "the changes reported by a backup are not the difference between the previous version and the tree");
            }
            let want_new = model.iter().filter(|l| l.starts_with('+')).count();
            let want_mod = model.iter().filter(|l| l.starts_with('*')).count();
            if stats.new_files != want_new || stats.modified_files != want_mod {
                return found(K, input, format!("backup stats: new_files = {}, modified_files = {}", stats.new_files, stats.modified_files), &format!("new_files = {want_new}, modified_files = {want_mod}"),
                    "the backup counts files as new / modified that are not (basis and source listings were not aligned)");
            }
            let e1 = entries(&archive, BandSelectionPolicy::Specified(bid(1)), Apath::root(), TestMonitor::arc()).await?;
            let listed: Vec<String> = e1.iter().map(|e| String::from(e.apath.clone())).collect();
            if listed != after_paths {
                return found(K, input, format!("the new version lists {listed:?}"), &format!("{after_paths:?}"), "the version stored after the change does not list the tree in apath order, every path once");
            }
        }
    }
    Ok(None)
}


// ------------------------------------------------------------------------------------------------------------ C07
fn second_close_keeps_tail(only: Option<&Value>) -> R {
    const K: &str = "second_close_keeps_tail";
    let tmp = su!(tempfile::tempdir());
    let src = tmp.path().join("src");
    put(&src, "f", b"some content")?;
    put(&src, "g/h", &content("h", 3000))?;
    let rt = su!(tokio::runtime::Runtime::new());
    rt.block_on(async {
        for tailkind in ["own", "foreign"] {
            let input = json!({"tail": tailkind});
            if skip(only, "tail", &input["tail"]) {
                continue;
            }
            let apath = tmp.path().join(format!("archive_{tailkind}"));
            let archive = su!(Archive::create_path(&apath).await);
            su!(conserve::backup(&archive, &src, &BackupOptions::default(), Arc::new(VoidMonitor)).await);
            su!(conserve::backup(&archive, &src, &BackupOptions::default(), Arc::new(VoidMonitor)).await);
            if tailkind == "foreign" {
                // a tail that this process did not write (another writer closed the band at another time)
                su!(std::fs::write(apath.join("b0001/BANDTAIL"), b"{\"end_time\":1500000000,\"index_hunk_count\":1}\n"));
            }
            let before = tree_snapshot(&apath);
            let archive = su!(Archive::open_path(&apath).await);
            let band = su!(Band::open(&archive, bid(1)).await);
            let r = band.close(7).await;
            let after = tree_snapshot(&apath);
            let gone: Vec<&String> = before.keys().filter(|k| !after.contains_key(*k)).collect();
            let altered: Vec<&String> = before.keys().filter(|k| after.get(*k).map(|v| v != &before[*k]).unwrap_or(false)).collect();
            if !gone.is_empty() || !altered.is_empty() {
                return found(K, input, format!("Band::close on the closed band b0001 returned {:?}; files removed: {gone:?}; files altered: {altered:?}", r.map_err(|e| e.to_string())),
                    "every file that existed before the call is still there with the same bytes (the call fails with AlreadyExists)",
                    "a refused create-new write removed or replaced the file that was already there");
            }
            if r.is_ok() {
                return found(K, input, "Band::close on an already closed band returned Ok".into(), "Err(AlreadyExists): a tail is written at most once", "writing a band tail a second time was reported as success");
            }
            // "no path is written twice": a create-new write of a path that already holds content is REFUSED even when the
            // bytes offered are the very bytes stored (the refusal of an identical BANDHEAD is what stops the loser of a band
            // race; round 8, seed C07-6 made the transport accept "idempotent" creates)
            for (rel, bytes) in &before {
                let rel = rel.trim_start_matches('/');
                let Some(bytes) = bytes else { continue };
                if bytes.is_empty() || !apath.join(rel).is_file() {
                    continue;
                }
                let r2 = archive.transport().write(rel, bytes, conserve::transport::WriteMode::CreateNew).await;
                if r2.is_ok() {
                    return found(K, json!({"tail": tailkind, "rewritten": rel}), format!("Transport::write({rel:?}, the bytes it already holds, CreateNew) returned Ok"),
                        "Err(AlreadyExists)", "a create-new write over an existing file with identical bytes was accepted: the loser of a race for a band is no longer refused");
                }
            }
            // the first backup and the band are still usable
            if !su!(band.is_closed().await) || su!(archive.last_complete_band().await).map(|b| b.id()) != Some(bid(1)) {
                return found(K, input, "after the refused second close the band is no longer the latest complete one".into(), "b0001 stays closed", "a refused write changed the state of the archive");
            }
        }
        Ok(None)
    })
}
