//! More bounded stand-ins through the public API (each used only as a fallback when a unit cannot be posed, or
//! as the `bounded` supplement of the thorough tier; never counted as proved):
//!  * `exclude_roundtrip`  (C15): backup with exclusions E stores exactly the entries (below the root) that listing a
//!                         FULL backup with the same E yields.  Round 6: a hand-written REFERENCE table (independent of
//!                         the glob library) for `/dir/**`, `/dir`, `/dir/*`, `*.o`, `/a/b`, `cache`, ... on a fixed
//!                         tree: the exact set of paths that backup-time, list-time and restore-time selection must
//!                         keep ("omitted iff it or an ancestor matches"): `/dir/**` keeps `/dir` itself, `/dir` does not.
//!                         Round 7: a second reference tree whose names differ only in leading / trailing white space
//!                         (`a`, ` a`, `a `, `tmp`, `tmp `, ` `, NBSP): a pattern given as a STRING is taken literally
//!                         (`" a"` omits ` a`, never `a`), through `from_strings` and through `from_patterns_and_files`;
//!                         only the lines of an exclude FILE are trimmed (documented), with their own expectations.
//!  * `restore_sandbox`    (C16): symlinks owned by another user pointing at sentinels beside the destination
//!                         (relative `..`, absolute, directory): restore must leave owner / mode / mtime / content
//!                         of every sentinel untouched; a non-empty destination must be refused untouched, also one
//!                         that holds only dot-names (`.config`, `.cache/state`, `.config -> ../sentinel_file`).
//!                         Stitched scenario: directory `a` (holding `a/x`) replaced by a symlink leading out of the
//!                         destination (absolute, relative, `..`), second backup interrupted after the hunk holding
//!                         `/a`: restoring the latest (incomplete) version must create nothing through the link
//!                         and must report the refused entry; with a COMPLETE second version it restores cleanly.
//!                         Round 7: the replaced directory holds files at depth 1, 2 and 3 (`a/x`, `a/sub/y`,
//!                         `a/sub/deeper/z`) and the place the link leads to already HAS `sub/` (with a `y`) and
//!                         `sub/deeper/`, so that a write through the link at any depth succeeds and is seen; the plain
//!                         scenario holds siblings whose names extend a symlink's name (`to_file.txt`, `to_dir2/inner`,
//!                         `to_plainer`, `d/up_up.bak`, `d/up_up2/deep/f`): the whole restored tree must equal the
//!                         source and no error may be reported.
//!                         Round 8: exclude FILES and `#` (`exclude_hash_table`): `.#*`, `/issue#*`, `a#b` are globs, a line
//!                         is a comment only when its first non-blank character is `#`, there are no trailing comments.
//!                         Round 8 (`restore_sandbox`): the stitched scenario also with a replaced directory whose NAME holds
//!                         a newline / TAB / 0x01 / ESC (`a\nb`, `t\tab`, `\u{1}c`, `monthly\nreports`, ..); listings are
//!                         compared by the RAW text of the apaths, never by their Display form.
//!  * `resume_no_rewrite`  (C14): a backup interrupted after any index hunk and resumed on the unchanged tree
//!                         writes no data block (everything it needs is already stored), and an unchanged-tree
//!                         backup writes none and records identical addresses.
//!  * `determinism_replay` (C17): the same history replayed into two fresh archives (second replay on a
//!                         multi-thread runtime, with one 31 s stall in an observer-only callback) gives the
//!                         same files with identical bytes apart from BANDHEAD / BANDTAIL.  The source holds files,
//!                         directories and symlinks dated in the future and in the far past (w_round5::dated_entries).
//!                         `determinism_replay_fast`: the same without the stall (quick tier).
//!                         Round 8 (both kinds): a history with a FAILING delete (`b0001 b0099(absent) b0002 b0003` on six
//!                         versions) replayed eight times leaves the same versions and bytes every time.

use std::collections::BTreeMap;
use std::os::unix::fs::{lchown, symlink, MetadataExt, PermissionsExt};
use std::path::{Path, PathBuf};
use std::sync::Arc;

use conserve::monitor::test::TestMonitor;
use conserve::monitor::void::VoidMonitor;
use conserve::{Apath, Archive, BackupOptions, BandId, BandSelectionPolicy, Exclude, RestoreOptions};
use serde_json::{json, Value};

pub fn dispatch(mode: &str, kind: &str, _input: Option<&Value>) -> Option<Value> {
    let f: fn() -> Result<Option<Value>, String> = match kind {
        "exclude_roundtrip" => exclude_roundtrip,
        "restore_sandbox" => restore_sandbox,
        "resume_no_rewrite" => resume_no_rewrite,
        "determinism_replay" => determinism_replay,
        "determinism_replay_fast" => determinism_replay_fast,
        "delete_unsorted" => delete_unsorted,
        "block_write_fails" => block_write_fails,
        "backup_heals_damage" => backup_heals_damage,
        _ => return None,
    };
    if mode != "search" && mode != "replay" {
        return None;
    }
    let kind = kind.to_string();
    Some(match std::panic::catch_unwind(f) {
        Ok(Ok(Some(v))) => v,
        Ok(Ok(None)) => json!({"found": false, "kind": kind}),
        Ok(Err(e)) => json!({"found": false, "kind": kind, "error": e}),
        Err(p) => {
            let msg = p.downcast_ref::<String>().cloned().or_else(|| p.downcast_ref::<&str>().map(|s| s.to_string())).unwrap_or_default();
            json!({"found": true, "kind": kind, "input": {}, "real": format!("panic: {msg}"), "expected": "no panic", "explain": "a fault-free scenario panicked"})
        }
    })
}

fn found(kind: &str, input: Value, real: String, expected: &str, explain: &str) -> Result<Option<Value>, String> {
    Ok(Some(json!({"found": true, "kind": kind, "input": input, "real": real, "expected": expected, "explain": explain})))
}

fn write_tree(root: &Path, files: &[(&str, usize)]) -> Result<(), String> {
    for (p, n) in files {
        let path = root.join(p);
        std::fs::create_dir_all(path.parent().unwrap()).map_err(|e| format!("setup failed at line {}: {e:?}", line!()))?;
        let content: Vec<u8> = (0..*n).map(|i| (i as u8).wrapping_mul(17).wrapping_add(p.len() as u8) | 1).collect();
        std::fs::write(&path, content).map_err(|e| format!("setup failed at line {}: {e:?}", line!()))?;
    }
    Ok(())
}

async fn listing(archive: &Archive, band: u32, exclude: Exclude) -> Result<Vec<String>, String> {
    let mut it = archive.iter_entries(BandSelectionPolicy::Specified(BandId::new(&[band])), Apath::root(), exclude, Arc::new(VoidMonitor)).await.map_err(|e| format!("setup failed at line {}: {e:?}", line!()))?;
    let mut out = Vec::new();
    while let Some(e) = it.next().await {
        out.push(String::from(e.apath.clone())); // the raw text, not Display
    }
    Ok(out)
}

// ---------------------------------------------------------------------------------------------- C15
fn exclude_roundtrip() -> Result<Option<Value>, String> {
    let tmp = tempfile::tempdir().map_err(|e| format!("setup failed at line {}: {e:?}", line!()))?;
    let src = tmp.path().join("src");
    write_tree(&src, &[
        ("build-x86/obj/a.o", 10), ("build-x86/out.bin", 10), ("sub/builds/log", 5), ("sub/build", 5), ("tmp-1/scratch", 5),
        ("keep/tmp-1/x", 5), ("foo/x/bar/file", 4), ("foo1bar/g", 4), ("café/mid/out/h", 4), ("caféXout", 4), ("a.o", 3), ("keep/b.o", 3), ("keep/c.txt", 3), ("é/ü.o", 3), ("cache/deep/er/f", 4), ("z", 1),
    ])?;
    // symlinks whose TARGET text matches a pattern while their own path does not (dangling and not): a link is selected by
    // its own path only, at backup time as at list / restore time
    write_tree(&src, &[("sub/blob", 3)])?;
    for (link, target) in [("latest", "cache"), ("sub/blob-link", "blob"), ("scratchlink", "tmp-1"), ("gone", "cache-gone"), ("dang.lnk", "missing.o"),
        ("foolink", "foo1bar"), ("keep/obj", "../build-x86/obj"), ("sub/to-keep", "../keep"), ("é/lnk", "ü.o")] {
        symlink(target, src.join(link)).map_err(|e| format!("setup failed at line {}: {e:?}", line!()))?;
    }
    let pattern_sets: Vec<Vec<&str>> = vec![
        vec!["build*", "/tmp-*"], vec!["*.o"], vec!["/keep"], vec!["sub"], vec!["cache/**"], vec!["/build-x86/obj", "?"], vec!["[a-c]*"], vec!["é"], vec!["foo*bar"], vec!["café?out", "caf*ut"],
        vec!["/cache"], vec!["cache*"], vec!["/cache", "blob"], vec!["missing.*", "keep"],
    ];
    let rt = tokio::runtime::Runtime::new().map_err(|e| format!("setup failed at line {}: {e:?}", line!()))?;
    rt.block_on(async {
        for (pi, pats) in pattern_sets.into_iter().enumerate() {
            let ex = || Exclude::from_strings(pats.clone()).map_err(|e| format!("bad patterns: {e:?}"));
            let full = Archive::create_path(&tmp.path().join(format!("full{pi}"))).await.map_err(|e| format!("setup failed at line {}: {e:?}", line!()))?;
            conserve::backup(&full, &src, &BackupOptions::default(), Arc::new(VoidMonitor)).await.map_err(|e| format!("setup failed at line {}: {e:?}", line!()))?;
            let part_dir = tmp.path().join(format!("part{pi}"));
            let part = Archive::create_path(&part_dir).await.map_err(|e| format!("setup failed at line {}: {e:?}", line!()))?;
            conserve::backup(&part, &src, &BackupOptions { exclude: ex()?, ..BackupOptions::default() }, Arc::new(VoidMonitor)).await.map_err(|e| format!("setup failed at line {}: {e:?}", line!()))?;
            let stored: Vec<String> = listing(&part, 0, Exclude::nothing()).await?.into_iter().filter(|p| p != "/").collect();
            let listed: Vec<String> = listing(&full, 0, ex()?).await?.into_iter().filter(|p| p != "/").collect();
            if stored != listed {
                let only_stored: Vec<&String> = stored.iter().filter(|p| !listed.contains(p)).collect();
                let only_listed: Vec<&String> = listed.iter().filter(|p| !stored.contains(p)).collect();
                return found("exclude_roundtrip", json!({"patterns": pats}), format!("only in the backup made with exclusions: {only_stored:?}; only in the listing of the full backup with the same exclusions: {only_listed:?}; (stored {stored:?}; listed {listed:?})"),
                    "the same entries", "exclusions select different entries at backup time and at list time");
            }
            // restore side
            let dest = tmp.path().join("dest");
            let _ = std::fs::remove_dir_all(&dest);
            conserve::restore(&full, &dest, RestoreOptions { exclude: ex()?, ..RestoreOptions::default() }, Arc::new(VoidMonitor)).await.map_err(|e| format!("setup failed at line {}: {e:?}", line!()))?;
            let mut restored = Vec::new();
            let mut stack = vec![dest.clone()];
            while let Some(d) = stack.pop() {
                for e in std::fs::read_dir(&d).map_err(|e| format!("setup failed at line {}: {e:?}", line!()))?.flatten() {
                    let rel = format!("/{}", e.path().strip_prefix(&dest).map_err(|e| format!("setup failed at line {}: {e:?}", line!()))?.to_string_lossy());
                    restored.push(rel);
                    if e.file_type().map_err(|e| format!("setup failed at line {}: {e:?}", line!()))?.is_dir() {
                        stack.push(e.path());
                    }
                }
            }
            restored.sort();
            let mut want = stored.clone();
            want.sort();
            if restored != want {
                return found("exclude_roundtrip", json!({"patterns": pats}), format!("restore of the full backup with exclusions produced {restored:?}; the excluded backup stored {want:?}"),
                    "the same entries", "exclusions select different entries at backup time and at restore time");
            }
        }
        if let Some(v) = exclude_reference_table(tmp.path()).await? {
            return Ok(Some(v));
        }
        if let Some(v) = exclude_whitespace_table(tmp.path()).await? {
            return Ok(Some(v));
        }
        exclude_hash_table(tmp.path()).await
    })
}

/// The "if and only if" clause of C15 against hand-written expectations (no glob library involved): for a fixed tree
/// and each pattern set, the exact set of paths (below the root) that must remain.  An entry is omitted iff it or one
/// of its ancestors matches; `X/**` matches everything below X but not X, `X/*` the children of X, a pattern without
/// a leading slash matches at any depth, `*` and `?` do not match `/`.
async fn exclude_reference_table(tmp: &Path) -> Result<Option<Value>, String> {
    let src = tmp.join("ref_src");
    write_tree(&src, &[("dir/x", 3), ("dir/sub/y", 3), ("dir/obj.o", 3), ("dirt/kept", 3), ("a/b/c", 3), ("a/bb", 3), ("a.o", 3), ("cache/z", 3), ("deep/cache/w", 3), ("deep/k.o", 3), ("plain", 3)])?;
    std::fs::create_dir_all(src.join("dir/hollow")).map_err(|e| format!("setup failed at line {}: {e:?}", line!()))?;
    symlink("dir", src.join("dirlink")).map_err(|e| format!("setup failed at line {}: {e:?}", line!()))?;
    const ALL: &[&str] = &["/a", "/a.o", "/a/b", "/a/b/c", "/a/bb", "/cache", "/cache/z", "/deep", "/deep/cache", "/deep/cache/w", "/deep/k.o", "/dir", "/dir/hollow", "/dir/obj.o", "/dir/sub",
        "/dir/sub/y", "/dir/x", "/dirlink", "/dirt", "/dirt/kept", "/plain"];
    // (patterns, paths that are OMITTED) -- everything else of ALL remains
    let table: Vec<(Vec<&str>, Vec<&str>)> = vec![
        (vec!["/dir/**"], vec!["/dir/hollow", "/dir/obj.o", "/dir/sub", "/dir/sub/y", "/dir/x"]),
        (vec!["/dir"], vec!["/dir", "/dir/hollow", "/dir/obj.o", "/dir/sub", "/dir/sub/y", "/dir/x"]),
        (vec!["/dir/*"], vec!["/dir/hollow", "/dir/obj.o", "/dir/sub", "/dir/sub/y", "/dir/x"]),
        (vec!["*.o"], vec!["/a.o", "/deep/k.o", "/dir/obj.o"]),
        (vec!["/a/b"], vec!["/a/b", "/a/b/c"]),
        (vec!["cache"], vec!["/cache", "/cache/z", "/deep/cache", "/deep/cache/w"]),
        (vec!["cache/**"], vec!["/cache/z", "/deep/cache/w"]),
        (vec!["dir/**"], vec!["/dir/hollow", "/dir/obj.o", "/dir/sub", "/dir/sub/y", "/dir/x"]),
        (vec!["/deep/cache/**", "/a/**"], vec!["/deep/cache/w", "/a/b", "/a/b/c", "/a/bb"]),
        (vec!["/dir/sub/**"], vec!["/dir/sub/y"]),
        (vec!["/dir/hollow/**"], vec![]),
        (vec!["/*/**"], vec!["/a/b", "/a/b/c", "/a/bb", "/cache/z", "/deep/cache", "/deep/cache/w", "/deep/k.o", "/dir/hollow", "/dir/obj.o", "/dir/sub", "/dir/sub/y", "/dir/x", "/dirt/kept"]),
        (vec!["/di?"], vec!["/dir", "/dir/hollow", "/dir/obj.o", "/dir/sub", "/dir/sub/y", "/dir/x"]),
        (vec!["/nothing/**"], vec![]),
    ];
    let full = Archive::create_path(&tmp.join("ref_full")).await.map_err(|e| format!("setup failed at line {}: {e:?}", line!()))?;
    conserve::backup(&full, &src, &BackupOptions::default(), Arc::new(VoidMonitor)).await.map_err(|e| format!("setup failed at line {}: {e:?}", line!()))?;
    let mut all_listed: Vec<String> = listing(&full, 0, Exclude::nothing()).await?.into_iter().filter(|p| p != "/").collect();
    all_listed.sort();
    if all_listed != ALL.iter().map(|s| s.to_string()).collect::<Vec<_>>() {
        return Err(format!("setup failed: the reference tree lists as {all_listed:?}"));
    }
    for (ti, (pats, omitted)) in table.iter().enumerate() {
        if let Some(bad) = omitted.iter().find(|o| !ALL.contains(o)) {
            return Err(format!("setup failed: the reference table names {bad} which is not in the tree"));
        }
        let want: Vec<String> = ALL.iter().filter(|p| !omitted.contains(p)).map(|s| s.to_string()).collect();
        let ex = || Exclude::from_strings(pats.clone()).map_err(|e| format!("bad patterns: {e:?}"));
        let report = |phase: &str, got: &Vec<String>| {
            let wrongly_omitted: Vec<&String> = want.iter().filter(|p| !got.contains(p)).collect();
            let wrongly_kept: Vec<&String> = got.iter().filter(|p| !want.contains(p)).collect();
            found("exclude_roundtrip", json!({"patterns": pats, "phase": phase, "tree": ALL}), format!("{phase}: omitted although neither the entry nor an ancestor matches: {wrongly_omitted:?}; kept although the entry or an ancestor matches: {wrongly_kept:?}"),
                &format!("exactly {want:?}"), "an entry is not omitted if and only if it or one of its ancestors matches an exclusion pattern (reference table written by hand)")
        };
        // backup time
        let part = Archive::create_path(&tmp.join(format!("ref_part{ti}"))).await.map_err(|e| format!("setup failed at line {}: {e:?}", line!()))?;
        conserve::backup(&part, &src, &BackupOptions { exclude: ex()?, ..BackupOptions::default() }, Arc::new(VoidMonitor)).await.map_err(|e| format!("setup failed at line {}: {e:?}", line!()))?;
        let mut stored: Vec<String> = listing(&part, 0, Exclude::nothing()).await?.into_iter().filter(|p| p != "/").collect();
        stored.sort();
        if stored != want {
            return report("backup with the exclusions", &stored);
        }
        // list time
        let mut listed: Vec<String> = listing(&full, 0, ex()?).await?.into_iter().filter(|p| p != "/").collect();
        listed.sort();
        if listed != want {
            return report("listing the full backup with the exclusions", &listed);
        }
        // restore time
        let dest = tmp.join("ref_dest");
        let _ = std::fs::remove_dir_all(&dest);
        conserve::restore(&full, &dest, RestoreOptions { exclude: ex()?, ..RestoreOptions::default() }, Arc::new(VoidMonitor)).await.map_err(|e| format!("setup failed at line {}: {e:?}", line!()))?;
        let mut restored: Vec<String> = tree_snapshot(&dest, &[])?.into_keys().map(|k| format!("/{k}")).collect();
        restored.sort();
        if restored != want {
            return report("restoring the full backup with the exclusions", &restored);
        }
    }
    Ok(None)
}

/// Round 7: names and patterns that differ only in leading / trailing white space.  A pattern handed over as a STRING
/// (`Exclude::from_strings`, the pattern list of `Exclude::from_patterns_and_files`) is a glob over names and is taken
/// as it is: `" a"` names the entry ` a`, not `a`; `" "` names the entry ` `.  Only the LINES of an exclude file are
/// trimmed, blank lines and `#` lines dropped (README: "ignoring leading and trailing whitespace"): those expectations
/// are kept apart.
async fn exclude_whitespace_table(tmp: &Path) -> Result<Option<Value>, String> {
    let src = tmp.join("ws_src");
    write_tree(&src, &[("a", 3), (" a", 4), ("a ", 5), ("b", 3), ("tmp/kept", 3), ("tmp /inside", 4), (" /x", 3), ("\u{a0}nb", 4), ("nb", 3), ("sub/ a", 4), ("sub/a", 3), (" lead/deep/f", 4), ("lead/deep/f", 3)])?;
    let mut all: Vec<String> = ["/ ", "/ /x", "/ a", "/ lead", "/ lead/deep", "/ lead/deep/f", "/a", "/a ", "/b", "/lead", "/lead/deep", "/lead/deep/f", "/nb", "/sub", "/sub/ a", "/sub/a", "/tmp", "/tmp ", "/tmp /inside", "/tmp/kept", "/\u{a0}nb"]
        .iter().map(|s| s.to_string()).collect();
    all.sort();
    // (patterns given as strings, lines of an exclude file, paths that are OMITTED) -- everything else remains
    let table: Vec<(Vec<&str>, Option<&str>, Vec<&str>)> = vec![
        (vec![" a"], None, vec!["/ a", "/sub/ a"]),
        (vec!["a"], None, vec!["/a", "/sub/a"]),
        (vec!["a "], None, vec!["/a "]),
        (vec!["tmp "], None, vec!["/tmp ", "/tmp /inside"]),
        (vec!["tmp"], None, vec!["/tmp", "/tmp/kept"]),
        (vec![" "], None, vec!["/ ", "/ /x"]),
        (vec!["/ a"], None, vec!["/ a"]),
        (vec!["/a"], None, vec!["/a"]),
        (vec!["\u{a0}nb"], None, vec!["/\u{a0}nb"]),
        (vec!["nb"], None, vec!["/nb"]),
        (vec![" lead"], None, vec!["/ lead", "/ lead/deep", "/ lead/deep/f"]),
        (vec![" a", "tmp "], None, vec!["/ a", "/sub/ a", "/tmp ", "/tmp /inside"]),
        (vec!["/tmp /**"], None, vec!["/tmp /inside"]),
        (vec![" *"], None, vec!["/ ", "/ /x", "/ a", "/ lead", "/ lead/deep", "/ lead/deep/f", "/sub/ a"]),
        (vec!["* "], None, vec!["/ ", "/ /x", "/a ", "/tmp ", "/tmp /inside"]),
        (vec!["  ", "b "], None, vec![]),
        // an exclude FILE: lines are trimmed, blank and comment lines dropped (documented)
        (vec![], Some(" a\n\ntmp \n# a comment\n   \n"), vec!["/a", "/sub/a", "/tmp", "/tmp/kept"]),
        (vec![], Some("\t/ a \n lead\t\n"), vec!["/ a", "/lead", "/lead/deep", "/lead/deep/f"]),
        // both: the string is literal, the line of the file is trimmed
        (vec![" a"], Some("tmp \n"), vec!["/ a", "/sub/ a", "/tmp", "/tmp/kept"]),
    ];
    run_exclude_file_table(tmp, "ws", &src, all, table, "a pattern given as a string is a glob over names as it stands: white space at its ends is part of it (only the lines of an exclude file are trimmed); an entry is omitted if and only if it or an ancestor matches").await
}

/// Round 8: `#` in patterns and in exclude files.  In an exclude FILE a line whose first non-blank character is `#` is a
/// comment (README; the unchanged code trims the line first, so an INDENTED `#` line is a comment too -- that is what is
/// expected here); anywhere else `#` is an ordinary character of the glob: `.#*` (Emacs lock files), `/issue#*`, `a#b`
/// name entries, and there are NO trailing comments (`b # x` is the glob `b # x`).  A name that starts with `#` can be
/// excluded from a file with a character class (`[#]top`).  A pattern given as a STRING is never a comment.
async fn exclude_hash_table(tmp: &Path) -> Result<Option<Value>, String> {
    let src = tmp.join("hash_src");
    write_tree(&src, &[(".#lock", 3), ("issue#12", 4), ("a#b", 5), ("a", 3), ("b", 3), ("keep.txt", 3), (".#keep.txt", 4), ("sub/notes", 3), ("sub/.#notes", 4), ("sub/a#b", 4), ("issue#42/log", 3), ("issue", 3), ("#top", 4), ("sub/issue#7", 3)])?;
    let mut all: Vec<String> = ["/#top", "/.#keep.txt", "/.#lock", "/a", "/a#b", "/b", "/issue", "/issue#12", "/issue#42", "/issue#42/log", "/keep.txt", "/sub", "/sub/.#notes", "/sub/a#b", "/sub/issue#7", "/sub/notes"]
        .iter().map(|s| s.to_string()).collect();
    all.sort();
    // (patterns given as strings, lines of an exclude file, paths that are OMITTED) -- everything else remains
    let table: Vec<(Vec<&str>, Option<&str>, Vec<&str>)> = vec![
        (vec![], Some(".#*\n"), vec!["/.#keep.txt", "/.#lock", "/sub/.#notes"]),
        (vec![], Some("/issue#*\n"), vec!["/issue#12", "/issue#42", "/issue#42/log"]),
        (vec![], Some("# a comment line\n.#*\n#a\n"), vec!["/.#keep.txt", "/.#lock", "/sub/.#notes"]),
        // the unchanged code trims a line BEFORE it looks for the leading `#`: an indented `#` line is a comment too
        (vec![], Some("  # indented comment\n\t#b\na#b\n"), vec!["/a#b", "/sub/a#b"]),
        (vec![], Some("a#b\n"), vec!["/a#b", "/sub/a#b"]),
        (vec![], Some("a\n"), vec!["/a"]),
        // a line that starts with `#` is a comment even when an entry has that name
        (vec![], Some("#top\n"), vec![]),
        (vec![], Some("[#]top\n"), vec!["/#top"]),
        // no trailing comments: the whole trimmed line is the glob
        (vec![], Some("b # not a comment\nissue#42/log # neither\n"), vec![]),
        (vec![], Some("sub/*#*\n"), vec!["/sub/.#notes", "/sub/a#b", "/sub/issue#7"]),
        // strings are never comments
        (vec![".#*", "/issue#*"], None, vec!["/.#keep.txt", "/.#lock", "/sub/.#notes", "/issue#12", "/issue#42", "/issue#42/log"]),
        (vec!["#top"], None, vec!["/#top"]),
        (vec!["a#b"], Some("# b\nissue\n"), vec!["/a#b", "/sub/a#b", "/issue"]),
    ];
    run_exclude_file_table(tmp, "hash", &src, all, table, "`#` starts a comment only at the beginning of a (trimmed) line of an exclude file; inside a glob it is an ordinary character: an entry is omitted if and only if it or an ancestor matches one of the globs AS GIVEN").await
}

/// Backup-time, list-time and restore-time selection against a hand-written table, through `Exclude::from_strings` (rows
/// without a file) and `Exclude::from_patterns_and_files`.
async fn run_exclude_file_table(tmp: &Path, tag: &str, src: &Path, all: Vec<String>, table: Vec<(Vec<&str>, Option<&str>, Vec<&str>)>, explain: &str) -> Result<Option<Value>, String> {
    let full = Archive::create_path(&tmp.join(format!("{tag}_full"))).await.map_err(|e| format!("setup failed at line {}: {e:?}", line!()))?;
    conserve::backup(&full, src, &BackupOptions::default(), Arc::new(VoidMonitor)).await.map_err(|e| format!("setup failed at line {}: {e:?}", line!()))?;
    let mut all_listed: Vec<String> = listing(&full, 0, Exclude::nothing()).await?.into_iter().filter(|p| p != "/").collect();
    all_listed.sort();
    if all_listed != all {
        return Err(format!("setup failed: the {tag} reference tree lists as {all_listed:?}"));
    }
    for (ti, (pats, file_lines, omitted)) in table.iter().enumerate() {
        if let Some(bad) = omitted.iter().find(|o| !all.iter().any(|a| a == *o)) {
            return Err(format!("setup failed: the {tag} table names {bad:?} which is not in the tree"));
        }
        let want: Vec<String> = all.iter().filter(|p| !omitted.contains(&p.as_str())).cloned().collect();
        let file = tmp.join(format!("{tag}_exclude_{ti}.txt"));
        if let Some(lines) = file_lines {
            std::fs::write(&file, lines).map_err(|e| format!("setup failed at line {}: {e:?}", line!()))?;
        }
        let files: Vec<PathBuf> = file_lines.iter().map(|_| file.clone()).collect();
        let mut constructors: Vec<&str> = vec!["Exclude::from_patterns_and_files"];
        if file_lines.is_none() {
            constructors.insert(0, "Exclude::from_strings");
        }
        for ctor in constructors {
            let ex = || match ctor {
                "Exclude::from_strings" => Exclude::from_strings(pats.clone()),
                _ => Exclude::from_patterns_and_files(pats.clone(), files.clone()),
            }
            .map_err(|e| format!("setup failed: {ctor} rejects {pats:?}: {e:?}"));
            let report = |phase: &str, got: &Vec<String>| {
                let wrongly_omitted: Vec<&String> = want.iter().filter(|p| !got.contains(p)).collect();
                let wrongly_kept: Vec<&String> = got.iter().filter(|p| !want.contains(p)).collect();
                found("exclude_roundtrip", json!({"constructor": ctor, "patterns": pats, "exclude_file_content": file_lines, "phase": phase, "tree": all}),
                    format!("{phase}: omitted although neither the entry nor an ancestor matches: {wrongly_omitted:?}; kept although the entry or an ancestor matches: {wrongly_kept:?}"), &format!("exactly {want:?}"),
                    explain)
            };
            let part_dir = tmp.join(format!("{tag}_part{ti}"));
            let _ = std::fs::remove_dir_all(&part_dir);
            let part = Archive::create_path(&part_dir).await.map_err(|e| format!("setup failed at line {}: {e:?}", line!()))?;
            conserve::backup(&part, src, &BackupOptions { exclude: ex()?, ..BackupOptions::default() }, Arc::new(VoidMonitor)).await.map_err(|e| format!("setup failed at line {}: {e:?}", line!()))?;
            let mut stored: Vec<String> = listing(&part, 0, Exclude::nothing()).await?.into_iter().filter(|p| p != "/").collect();
            stored.sort();
            if stored != want {
                return report("backup with the exclusions", &stored);
            }
            let mut listed: Vec<String> = listing(&full, 0, ex()?).await?.into_iter().filter(|p| p != "/").collect();
            listed.sort();
            if listed != want {
                return report("listing the full backup with the exclusions", &listed);
            }
            let dest = tmp.join(format!("{tag}_dest"));
            let _ = std::fs::remove_dir_all(&dest);
            conserve::restore(&full, &dest, RestoreOptions { exclude: ex()?, ..RestoreOptions::default() }, Arc::new(VoidMonitor)).await.map_err(|e| format!("setup failed at line {}: {e:?}", line!()))?;
            let mut restored: Vec<String> = tree_snapshot(&dest, &[])?.into_keys().map(|k| format!("/{k}")).collect();
            restored.sort();
            if restored != want {
                return report("restoring the full backup with the exclusions", &restored);
            }
        }
    }
    Ok(None)
}

// ---------------------------------------------------------------------------------------------- C16
#[derive(Debug, PartialEq)]
struct Snap { uid: u32, gid: u32, mode: u32, mtime: (i64, i64), content: Option<Vec<u8>> }

fn snap(p: &Path) -> Result<Snap, String> {
    let m = std::fs::metadata(p).map_err(|e| format!("setup failed at line {}: {e:?}", line!()))?;
    Ok(Snap { uid: m.uid(), gid: m.gid(), mode: m.mode(), mtime: (m.mtime(), m.mtime_nsec()), content: if m.is_file() { std::fs::read(p).ok() } else { None } })
}

fn restore_sandbox() -> Result<Option<Value>, String> {
    let tmp = tempfile::tempdir().map_err(|e| format!("setup failed at line {}: {e:?}", line!()))?;
    let sandbox = tmp.path();
    let sentinel_file = sandbox.join("sentinel_file");
    let sentinel_dir = sandbox.join("sentinel_dir");
    std::fs::write(&sentinel_file, b"do not touch").map_err(|e| format!("setup failed at line {}: {e:?}", line!()))?;
    std::fs::set_permissions(&sentinel_file, std::fs::Permissions::from_mode(0o4755)).map_err(|e| format!("setup failed at line {}: {e:?}", line!()))?;
    std::fs::create_dir(&sentinel_dir).map_err(|e| format!("setup failed at line {}: {e:?}", line!()))?;
    std::fs::set_permissions(&sentinel_dir, std::fs::Permissions::from_mode(0o750)).map_err(|e| format!("setup failed at line {}: {e:?}", line!()))?;
    filetime::set_file_mtime(&sentinel_file, filetime::FileTime::from_unix_time(1_000_000_000, 5)).map_err(|e| format!("setup failed at line {}: {e:?}", line!()))?;
    filetime::set_file_mtime(&sentinel_dir, filetime::FileTime::from_unix_time(1_000_000_001, 6)).map_err(|e| format!("setup failed at line {}: {e:?}", line!()))?;
    let src = sandbox.join("src");
    std::fs::create_dir_all(src.join("d")).map_err(|e| format!("setup failed at line {}: {e:?}", line!()))?;
    std::fs::write(src.join("plain"), b"plain file").map_err(|e| format!("setup failed at line {}: {e:?}", line!()))?;
    std::fs::write(src.join("d/inner"), b"inner").map_err(|e| format!("setup failed at line {}: {e:?}", line!()))?;
    symlink("../sentinel_file", src.join("to_file")).map_err(|e| format!("setup failed at line {}: {e:?}", line!()))?;
    symlink(&sentinel_dir, src.join("to_dir")).map_err(|e| format!("setup failed at line {}: {e:?}", line!()))?;
    symlink("../../sentinel_file", src.join("d/up_up")).map_err(|e| format!("setup failed at line {}: {e:?}", line!()))?;
    symlink("plain", src.join("to_plain")).map_err(|e| format!("setup failed at line {}: {e:?}", line!()))?;
    // siblings whose names merely extend the name of a symlink: they do not lie below it
    write_tree(&src, &[("to_file.txt", 6), ("to_dir2/inner", 7), ("to_plainer", 8), ("to_plain-2/x/y", 9), ("d/up_up.bak", 5), ("d/up_up2/deep/f", 4)])?;
    // dot-names in the archived tree: a destination that already holds such names must not be written over / through
    std::fs::write(src.join(".config"), b"settings from the archive").map_err(|e| format!("setup failed at line {}: {e:?}", line!()))?;
    std::fs::create_dir_all(src.join(".cache")).map_err(|e| format!("setup failed at line {}: {e:?}", line!()))?;
    std::fs::write(src.join(".cache/state"), b"state from the archive").map_err(|e| format!("setup failed at line {}: {e:?}", line!()))?;
    let is_root = unsafe { libc_geteuid() } == 0;
    if is_root {
        // nobody / nogroup usually 65534; only ids that resolve to names are recorded by conserve, others are harmless
        for l in ["to_file", "to_dir", "d/up_up", "plain"] {
            let _ = lchown(src.join(l), Some(65534), Some(65534));
        }
    }
    let before = (snap(&sentinel_file)?, snap(&sentinel_dir)?);
    let rt = tokio::runtime::Runtime::new().map_err(|e| format!("setup failed at line {}: {e:?}", line!()))?;
    rt.block_on(async {
        let archive = Archive::create_path(&sandbox.join("archive")).await.map_err(|e| format!("setup failed at line {}: {e:?}", line!()))?;
        conserve::backup(&archive, &src, &BackupOptions::default(), Arc::new(VoidMonitor)).await.map_err(|e| format!("setup failed at line {}: {e:?}", line!()))?;
        let dest = sandbox.join("dest");
        let monitor = TestMonitor::arc();
        if let Err(e) = conserve::restore(&archive, &dest, RestoreOptions::default(), monitor.clone()).await {
            return found("restore_sandbox", json!({}), format!("restore failed: {e}"), "Ok", "restore into an absent destination failed");
        }
        let after = (snap(&sentinel_file)?, snap(&sentinel_dir)?);
        if after != before {
            return found("restore_sandbox", json!({"root": is_root}), format!("sentinels after restore: {after:?}"), &format!("{before:?}"),
                "restoring symlinks changed something they point to, outside the destination");
        }
        let restore_errors = monitor.take_errors();
        if let Some(d) = super::w_round5::snapshot_diff(&super::w_round5::tree_snapshot(&dest), &super::w_round5::tree_snapshot(&src)) {
            return found("restore_sandbox", json!({"scenario": "symlinks next to siblings whose names extend the link's name", "root": is_root}), format!("restored tree against the source: {d}; {} error(s) reported{}", restore_errors.len(),
                restore_errors.first().map(|e| format!(" (first: {e})")).unwrap_or_default()), "every entry of the source is restored (a sibling of a symlink is not below it)",
                "restore skipped entries beside a restored symlink because their names begin with the link's name");
        }
        if !restore_errors.is_empty() {
            return found("restore_sandbox", json!({"scenario": "symlinks next to siblings whose names extend the link's name", "root": is_root}), format!("{} error(s) reported, first: {}", restore_errors.len(), restore_errors[0]), "no error",
                "restoring a complete version with symlinks reported errors");
        }
        for l in ["to_file", "to_dir", "d/up_up", "to_plain"] {
            let m = std::fs::symlink_metadata(dest.join(l)).map_err(|e| format!("setup failed at line {}: {e:?}", line!()))?;
            if !m.file_type().is_symlink() || std::fs::read_link(dest.join(l)).map_err(|e| format!("setup failed at line {}: {e:?}", line!()))? != std::fs::read_link(src.join(l)).map_err(|e| format!("setup failed at line {}: {e:?}", line!()))? {
                return found("restore_sandbox", json!({"link": l}), "link not restored as the same link".into(), "same target", "a symlink was not restored as a symlink with its target");
            }
        }
        // non-empty destination is refused and left untouched
        let dest2 = sandbox.join("dest2");
        std::fs::create_dir(&dest2).map_err(|e| format!("setup failed at line {}: {e:?}", line!()))?;
        std::fs::write(dest2.join("existing"), b"mine").map_err(|e| format!("setup failed at line {}: {e:?}", line!()))?;
        let r = conserve::restore(&archive, &dest2, RestoreOptions::default(), Arc::new(VoidMonitor)).await;
        let names: Vec<String> = std::fs::read_dir(&dest2).map_err(|e| format!("setup failed at line {}: {e:?}", line!()))?.flatten().map(|e| e.file_name().to_string_lossy().into_owned()).collect();
        if r.is_ok() || names != vec!["existing".to_string()] || std::fs::read(dest2.join("existing")).map_err(|e| format!("setup failed at line {}: {e:?}", line!()))? != b"mine" {
            return found("restore_sandbox", json!({}), format!("restore into a non-empty destination returned {:?} and left {names:?}", r.is_ok()), "Err(DestinationNotEmpty), destination untouched",
                "restore without overwrite did not refuse a non-empty destination");
        }
        // a destination that holds only names starting with a dot is not empty either
        for case in ["dot file", "dot directory", "dot symlink to a file beside the destination", "dot symlink to a directory beside the destination", "dot file and DS_Store", "empty dot directory"] {
            let box_dir = sandbox.join("dotbox");
            let _ = std::fs::remove_dir_all(&box_dir);
            let dest3 = box_dir.join("dest");
            std::fs::create_dir_all(&dest3).map_err(|e| format!("setup failed at line {}: {e:?}", line!()))?;
            std::fs::write(box_dir.join("sentinel"), b"beside the destination").map_err(|e| format!("setup failed at line {}: {e:?}", line!()))?;
            std::fs::create_dir(box_dir.join("sentinel_d")).map_err(|e| format!("setup failed at line {}: {e:?}", line!()))?;
            std::fs::write(box_dir.join("sentinel_d/state"), b"beside too").map_err(|e| format!("setup failed at line {}: {e:?}", line!()))?;
            match case {
                "dot file" => std::fs::write(dest3.join(".config"), b"precious local settings").map_err(|e| format!("setup failed at line {}: {e:?}", line!()))?,
                "dot directory" => {
                    std::fs::create_dir(dest3.join(".cache")).map_err(|e| format!("setup failed at line {}: {e:?}", line!()))?;
                    std::fs::write(dest3.join(".cache/state"), b"precious local state").map_err(|e| format!("setup failed at line {}: {e:?}", line!()))?;
                }
                "dot symlink to a file beside the destination" => symlink("../sentinel", dest3.join(".config")).map_err(|e| format!("setup failed at line {}: {e:?}", line!()))?,
                "dot symlink to a directory beside the destination" => symlink("../sentinel_d", dest3.join(".cache")).map_err(|e| format!("setup failed at line {}: {e:?}", line!()))?,
                "dot file and DS_Store" => {
                    std::fs::write(dest3.join(".DS_Store"), b"finder").map_err(|e| format!("setup failed at line {}: {e:?}", line!()))?;
                    std::fs::write(dest3.join(".plain"), b"mine").map_err(|e| format!("setup failed at line {}: {e:?}", line!()))?;
                }
                _ => std::fs::create_dir(dest3.join(".git")).map_err(|e| format!("setup failed at line {}: {e:?}", line!()))?,
            }
            for p in [&dest3, &box_dir] {
                filetime::set_file_mtime(p, filetime::FileTime::from_unix_time(1_000_000_100, 9)).map_err(|e| format!("setup failed at line {}: {e:?}", line!()))?;
            }
            let before3 = tree_snapshot(&box_dir, &[])?;
            let before_sent = (snap(&sentinel_file)?, snap(&sentinel_dir)?);
            let r = conserve::restore(&archive, &dest3, RestoreOptions::default(), Arc::new(VoidMonitor)).await;
            let after3 = tree_snapshot(&box_dir, &[])?;
            let input = json!({"destination_holds_only": case});
            if after3 != before3 || (snap(&sentinel_file)?, snap(&sentinel_dir)?) != before_sent {
                let created: Vec<&String> = after3.keys().filter(|k| !before3.contains_key(*k)).collect();
                let changed: Vec<&String> = after3.iter().filter(|(k, v)| before3.get(*k).is_some_and(|b| b != *v)).map(|(k, _)| k).collect();
                return found("restore_sandbox", input, format!("restore without overwrite returned {:?}; created {created:?}; changed {changed:?} (paths relative to the directory that holds dest/ and the sentinels)", r.map_err(|e| e.to_string())),
                    "Err(DestinationNotEmpty); the destination and everything beside it untouched", "restore without overwrite wrote into (or through) a destination that was not empty: it holds names starting with a dot");
            }
            if !matches!(r, Err(conserve::Error::DestinationNotEmpty)) {
                return found("restore_sandbox", input, format!("restore without overwrite returned {:?}", r.map_err(|e| e.to_string())), "Err(DestinationNotEmpty)",
                    "restore without overwrite did not refuse a destination that holds entries whose names start with a dot");
            }
        }
        // the stitched listing of an interrupted backup: a symlink from the newer band followed by the former contents
        // of the directory it replaced, from the older band
        // round 8: the replaced directory's NAME holds a newline / TAB / 0x01 / ESC (legal names): the guard must
        // recognise the restored symlink by the raw path, whatever the path looks like when printed
        for dir in ["a", "a\nb", "t\tab", "\u{1}c", "monthly\nreports", "e\u{1b}[0m"] {
            for (name, target) in [("absolute", LinkTarget::AbsoluteSentinel), ("relative", LinkTarget::RelativeSentinel), ("dotdot", LinkTarget::DotDot)] {
                for interrupted in [true, false] {
                    if dir != "a" && (!interrupted || (dir.len() > 3 && !matches!(target, LinkTarget::DotDot))) {
                        continue; // the complete case and all three targets are covered with the plain name and the short odd names
                    }
                    if let Some(v) = stitched_symlink_case(dir, name, target, interrupted).await? {
                        return Ok(Some(v));
                    }
                }
            }
        }
        Ok(None)
    })
}

#[derive(Clone, Copy)]
enum LinkTarget { AbsoluteSentinel, RelativeSentinel, DotDot }

/// Names and metadata of everything below `root` (not following links), except below `skip`.
fn tree_snapshot(root: &Path, skip: &[PathBuf]) -> Result<BTreeMap<String, String>, String> {
    let mut out = BTreeMap::new();
    let mut stack = vec![root.to_path_buf()];
    while let Some(d) = stack.pop() {
        for e in std::fs::read_dir(&d).map_err(|e| format!("setup failed at line {}: {e:?}", line!()))?.flatten() {
            let p = e.path();
            if skip.iter().any(|s| *s == p) {
                continue;
            }
            let m = std::fs::symlink_metadata(&p).map_err(|e| format!("setup failed at line {}: {e:?}", line!()))?;
            let content = if m.is_file() { std::fs::read(&p).ok() } else { None };
            out.insert(p.strip_prefix(root).unwrap().to_string_lossy().into_owned(),
                format!("type={:?} uid={} gid={} mode={:o} mtime={}.{} content={:?}", m.file_type(), m.uid(), m.gid(), m.mode(), m.mtime(), m.mtime_nsec(), content));
            if m.is_dir() {
                stack.push(p);
            }
        }
    }
    Ok(out)
}

/// First version: directory `a` with `a/x` (and `a/sub/y`).  Then `a` is replaced by a symlink that leads out of the
/// destination.  Second version complete, or interrupted right after the index hunk that holds `/a` (one entry per
/// hunk; the later hunks and the tail are removed: the state a killed backup leaves).  Restore the LATEST version:
/// nothing outside the destination may be created or changed; in the interrupted case the entries below `/a` must be
/// refused WITH an error report, in the complete case there is nothing to refuse and no error.
async fn stitched_symlink_case(dir: &str, name: &str, target: LinkTarget, interrupted: bool) -> Result<Option<Value>, String> {
    let tmp = tempfile::tempdir().map_err(|e| format!("setup failed at line {}: {e:?}", line!()))?;
    let sandbox = tmp.path().join("sandbox");
    let sentinel_dir = sandbox.join("sentinel_dir");
    std::fs::create_dir_all(&sentinel_dir).map_err(|e| format!("setup failed at line {}: {e:?}", line!()))?;
    std::fs::write(sentinel_dir.join("keep"), b"do not touch").map_err(|e| format!("setup failed at line {}: {e:?}", line!()))?;
    std::fs::write(sandbox.join("beside"), b"beside the destination").map_err(|e| format!("setup failed at line {}: {e:?}", line!()))?;
    // wherever the link leads (sentinel_dir, or the sandbox itself for `..`) the directories `sub/` and `sub/deeper/` exist
    // already, `sub/y` too: a write through the link at depth 2 or 3 would succeed
    for outside in [&sentinel_dir, &sandbox] {
        std::fs::create_dir_all(outside.join("sub/deeper")).map_err(|e| format!("setup failed at line {}: {e:?}", line!()))?;
        std::fs::write(outside.join("sub/y"), b"SENTINEL y: must never change").map_err(|e| format!("setup failed at line {}: {e:?}", line!()))?;
        for p in ["sub/y", "sub/deeper", "sub"] {
            filetime::set_file_mtime(outside.join(p), filetime::FileTime::from_unix_time(1_000_000_003, 8)).map_err(|e| format!("setup failed at line {}: {e:?}", line!()))?;
        }
    }
    filetime::set_file_mtime(&sentinel_dir, filetime::FileTime::from_unix_time(1_000_000_001, 6)).map_err(|e| format!("setup failed at line {}: {e:?}", line!()))?;
    filetime::set_file_mtime(&sandbox, filetime::FileTime::from_unix_time(1_000_000_002, 7)).map_err(|e| format!("setup failed at line {}: {e:?}", line!()))?;
    // source and archive live outside the sandbox, so that the sandbox holds only sentinels and the destination
    let src = tmp.path().join("src");
    write_tree(&src, &[(&format!("{dir}/x"), 9), (&format!("{dir}/sub/y"), 5), (&format!("{dir}/sub/deeper/z"), 6), ("plain", 7)])?;
    let top = format!("/{dir}");
    let opts = || BackupOptions { max_entries_per_hunk: 1, ..BackupOptions::default() };
    let archive_path = tmp.path().join("archive");
    let archive = Archive::create_path(&archive_path).await.map_err(|e| format!("setup failed at line {}: {e:?}", line!()))?;
    conserve::backup(&archive, &src, &opts(), Arc::new(VoidMonitor)).await.map_err(|e| format!("setup failed at line {}: {e:?}", line!()))?;
    std::fs::remove_dir_all(src.join(dir)).map_err(|e| format!("setup failed at line {}: {e:?}", line!()))?;
    let dest = sandbox.join("dest");
    let target_text: PathBuf = match target {
        LinkTarget::AbsoluteSentinel => sentinel_dir.clone(),
        LinkTarget::RelativeSentinel => PathBuf::from("../sentinel_dir"),   // resolved from dest/: sandbox/sentinel_dir
        LinkTarget::DotDot => PathBuf::from(".."),                           // resolved from dest/: the sandbox itself
    };
    symlink(&target_text, src.join(dir)).map_err(|e| format!("setup failed at line {}: {e:?}", line!()))?;
    conserve::backup(&archive, &src, &opts(), Arc::new(VoidMonitor)).await.map_err(|e| format!("setup failed at line {}: {e:?}", line!()))?;
    drop(archive);
    if interrupted {
        // find the hunk of b0001 that holds `/a`; remove every later hunk and the tail
        let hunk_dir = archive_path.join("b0001/i/00000");
        let nhunks = std::fs::read_dir(&hunk_dir).map_err(|e| format!("setup failed at line {}: {e:?}", line!()))?.count();
        let probe = Archive::open_path(&archive_path).await.map_err(|e| format!("setup failed at line {}: {e:?}", line!()))?;
        let complete = listing(&probe, 1, Exclude::nothing()).await?;
        drop(probe);
        let pos = complete.iter().position(|p| *p == top).ok_or_else(|| format!("setup failed: {top:?} is not in the second version: {complete:?}"))?;
        if nhunks != complete.len() {
            return Err(format!("setup failed: expected one entry per hunk, got {nhunks} hunks for {} entries", complete.len()));
        }
        for n in pos + 1..nhunks {
            std::fs::remove_file(hunk_dir.join(format!("{n:09}"))).map_err(|e| format!("setup failed at line {}: {e:?}", line!()))?;
        }
        std::fs::remove_file(archive_path.join("b0001/BANDTAIL")).map_err(|e| format!("setup failed at line {}: {e:?}", line!()))?;
    }
    let archive = Archive::open_path(&archive_path).await.map_err(|e| format!("setup failed at line {}: {e:?}", line!()))?;
    // what the latest version lists (stitched when interrupted)
    let mut listed = Vec::new();
    {
        let mut it = archive.iter_entries(BandSelectionPolicy::Latest, Apath::root(), Exclude::nothing(), Arc::new(VoidMonitor)).await.map_err(|e| format!("setup failed at line {}: {e:?}", line!()))?;
        while let Some(e) = it.next().await {
            listed.push(String::from(e.apath.clone())); // the raw text, not Display
        }
    }
    let below: Vec<&String> = listed.iter().filter(|p| p.starts_with(&format!("{top}/"))).collect();
    if interrupted && !["/x", "/sub/y", "/sub/deeper/z"].iter().all(|p| below.iter().any(|b| **b == format!("{top}{p}"))) {
        return Err(format!("setup failed: the stitched listing does not hold the files below {top:?} at depth 1, 2 and 3: {listed:?}"));
    }
    if !interrupted && !below.is_empty() {
        return Err(format!("setup failed: the complete second version lists entries below the symlink: {listed:?}"));
    }
    let input = json!({"scenario": "directory replaced by a symlink", "link_target": name, "target_text": target_text.to_string_lossy(), "replaced_directory": top, "second_backup_interrupted_after": if interrupted { top.as_str() } else { "(complete)" }, "latest_version_lists": listed});
    let before = tree_snapshot(&sandbox, &[dest.clone()])?;
    let before_dir = snap(&sentinel_dir)?;
    let monitor = TestMonitor::arc();
    let r = conserve::restore(&archive, &dest, RestoreOptions { band_selection: BandSelectionPolicy::Latest, ..RestoreOptions::default() }, monitor.clone()).await;
    let errors = monitor.take_errors();
    let after = tree_snapshot(&sandbox, &[dest.clone()])?;
    let after_dir = snap(&sentinel_dir)?;
    if after != before || after_dir != before_dir {
        let created: Vec<&String> = after.keys().filter(|k| !before.contains_key(*k)).collect();
        let changed: Vec<&String> = after.iter().filter(|(k, v)| before.get(*k).is_some_and(|b| b != *v)).map(|(k, _)| k).collect();
        return found("restore_sandbox", input, format!("outside the destination: created {created:?}, changed {changed:?} (sentinel directory {after_dir:?}, before {before_dir:?})"),
            "nothing outside the destination is created or modified",
            "restore wrote through a symlink it had just restored: entries of the older band below a path that the newer band records as a symlink");
    }
    if let Err(e) = r {
        return found("restore_sandbox", input, format!("restore failed: {e}"), "Ok (entries that cannot be restored are reported, the rest is restored)", "restore of the latest version aborted");
    }
    let m = std::fs::symlink_metadata(dest.join(dir)).map_err(|e| format!("setup failed at line {}: {e:?}", line!()))?;
    if !m.file_type().is_symlink() || std::fs::read_link(dest.join(dir)).map_err(|e| format!("setup failed at line {}: {e:?}", line!()))? != target_text {
        return found("restore_sandbox", input, format!("dest/{dir:?} is {:?}", m.file_type()), "the symlink recorded by the latest version", "the symlink of the latest version was not restored as that symlink");
    }
    if std::fs::read(dest.join("plain")).ok().map(|c| c.len()) != Some(7) {
        return found("restore_sandbox", input, "dest/plain is missing or has the wrong length".into(), "the other entries are restored", "an entry beside the symlink was not restored");
    }
    if interrupted && errors.is_empty() {
        return found("restore_sandbox", input, format!("no error was reported although {below:?} were not restored"), "an error report for every refused entry",
            "entries below a path restored as a symlink were dropped silently");
    }
    if !interrupted && !errors.is_empty() {
        return found("restore_sandbox", input, format!("errors reported: {errors:?}"), "no error", "restoring a complete version in which a directory became a symlink reported errors");
    }
    Ok(None)
}

extern "C" {
    #[link_name = "geteuid"]
    fn libc_geteuid() -> u32;
}

// ---------------------------------------------------------------------------------------------- C14
fn block_files(apath: &Path) -> Vec<PathBuf> {
    let mut out = Vec::new();
    let mut stack = vec![apath.join("d")];
    while let Some(d) = stack.pop() {
        if let Ok(rd) = std::fs::read_dir(&d) {
            for e in rd.flatten() {
                if e.path().is_dir() { stack.push(e.path()) } else { out.push(e.path()) }
            }
        }
    }
    out.sort();
    out
}

fn copy_dir(from: &Path, to: &Path) -> std::io::Result<()> {
    std::fs::create_dir_all(to)?;
    for e in std::fs::read_dir(from)? {
        let e = e?;
        let t = to.join(e.file_name());
        if e.file_type()?.is_dir() { copy_dir(&e.path(), &t)?; } else { std::fs::copy(e.path(), t)?; }
    }
    Ok(())
}

fn resume_no_rewrite() -> Result<Option<Value>, String> {
    let tmp = tempfile::tempdir().map_err(|e| format!("setup failed at line {}: {e:?}", line!()))?;
    let src = tmp.path().join("src");
    // small files (combined) mixed with files above the small-file cap and directories
    write_tree(&src, &[("f01", 20), ("f02", 20), ("f03", 20), ("f04", 20), ("f05", 20), ("f06", 300), ("f07", 20), ("f08", 300),
        ("f09", 20), ("f10", 300), ("f11", 20), ("g/h1", 20), ("g/h2", 300), ("g/h3", 20)])?;
    let opts = || BackupOptions { max_entries_per_hunk: 4, small_file_cap: 64, ..BackupOptions::default() };
    let rt = tokio::runtime::Runtime::new().map_err(|e| format!("setup failed at line {}: {e:?}", line!()))?;
    rt.block_on(async {
        let full_path = tmp.path().join("full");
        let full = Archive::create_path(&full_path).await.map_err(|e| format!("setup failed at line {}: {e:?}", line!()))?;
        conserve::backup(&full, &src, &opts(), Arc::new(VoidMonitor)).await.map_err(|e| format!("setup failed at line {}: {e:?}", line!()))?;
        // an unchanged-tree backup writes no block and records identical addresses
        let stats2 = conserve::backup(&full, &src, &opts(), Arc::new(VoidMonitor)).await.map_err(|e| format!("setup failed at line {}: {e:?}", line!()))?;
        if stats2.written_blocks != 0 {
            return found("resume_no_rewrite", json!({"case": "unchanged tree"}), format!("second backup of an unchanged tree wrote {} blocks", stats2.written_blocks), "0 blocks",
                "backing up an unchanged tree stored data again");
        }
        drop(full);
        // a newest band directory without a head (backup killed right after the directory was created) must not make
        // the next backup forget the earlier versions: small files stored in different groupings, then an empty b0002
        {
            let src2 = tmp.path().join("src2");
            write_tree(&src2, &[("a", 20), ("b", 25)])?;
            let p2 = tmp.path().join("headless");
            let ar = Archive::create_path(&p2).await.map_err(|e| e.to_string())?;
            conserve::backup(&ar, &src2, &opts(), Arc::new(VoidMonitor)).await.map_err(|e| e.to_string())?;
            write_tree(&src2, &[("a", 21)])?;
            conserve::backup(&ar, &src2, &opts(), Arc::new(VoidMonitor)).await.map_err(|e| e.to_string())?;
            drop(ar);
            std::fs::create_dir(p2.join("b0002")).map_err(|e| e.to_string())?;
            let ar = Archive::open_path(&p2).await.map_err(|e| e.to_string())?;
            let st = conserve::backup(&ar, &src2, &opts(), Arc::new(VoidMonitor)).await.map_err(|e| e.to_string())?;
            if st.written_blocks != 0 {
                return found("resume_no_rewrite", json!({"case": "newest band directory has no BANDHEAD"}), format!("backup of the unchanged tree wrote {} block(s)", st.written_blocks),
                    "0 blocks: the basis falls back to the earlier versions", "an unopenable newest band made the backup store again what earlier versions already hold");
            }
        }
        let nhunks = std::fs::read_dir(full_path.join("b0000/i/00000")).map_err(|e| format!("setup failed at line {}: {e:?}", line!()))?.count();
        let all_blocks = block_files(&full_path).len();
        for k in 1..nhunks {
            // crash state: hunks >= k and the tail of b0000 missing; b0001 never existed
            let crash = tmp.path().join(format!("crash{k}"));
            copy_dir(&full_path, &crash).map_err(|e| format!("setup failed at line {}: {e:?}", line!()))?;
            std::fs::remove_dir_all(crash.join("b0001")).map_err(|e| format!("setup failed at line {}: {e:?}", line!()))?;
            std::fs::remove_file(crash.join("b0000/BANDTAIL")).map_err(|e| format!("setup failed at line {}: {e:?}", line!()))?;
            for n in k..nhunks {
                std::fs::remove_file(crash.join(format!("b0000/i/00000/{n:09}"))).map_err(|e| format!("setup failed at line {}: {e:?}", line!()))?;
            }
            let archive = Archive::open_path(&crash).await.map_err(|e| format!("setup failed at line {}: {e:?}", line!()))?;
            let stats = conserve::backup(&archive, &src, &opts(), Arc::new(VoidMonitor)).await.map_err(|e| format!("setup failed at line {}: {e:?}", line!()))?;
            let now = block_files(&crash).len();
            if stats.written_blocks != 0 || now != all_blocks {
                return found("resume_no_rewrite", json!({"interrupted_after_hunk": k - 1, "hunks": nhunks}),
                    format!("the resumed backup wrote {} blocks ({} block files now, {} after an uninterrupted run)", stats.written_blocks, now, all_blocks),
                    "0 blocks written: everything the interrupted run stored is reused",
                    "a backup resumed after an interruption stored again content that was already in the archive");
            }
        }
        Ok(None)
    })
}

// ---------------------------------------------------------------------------------------------- C10
/// "When the damage was a deleted or emptied file, a new backup of the source completes and restores exactly":
/// for every data block and every index hunk of a two-version archive, delete it / empty it, back up the UNCHANGED
/// source again, and restore the new version: it must restore exactly with no error.
fn backup_heals_damage() -> Result<Option<Value>, String> {
    let tmp = tempfile::tempdir().map_err(|e| e.to_string())?;
    let src = tmp.path().join("src");
    write_tree(&src, &[("big", 20000), ("s1", 30), ("s2", 40), ("d/mid", 5000)])?;
    let base = tmp.path().join("base");
    let opts = || BackupOptions { max_block_size: 4096, small_file_cap: 100, max_entries_per_hunk: 3, ..BackupOptions::default() };
    let rt = tokio::runtime::Runtime::new().map_err(|e| e.to_string())?;
    rt.block_on(async {
        let archive = Archive::create_path(&base).await.map_err(|e| e.to_string())?;
        conserve::backup(&archive, &src, &opts(), Arc::new(VoidMonitor)).await.map_err(|e| e.to_string())?;
        drop(archive);
        let mut victims: Vec<PathBuf> = block_files(&base);
        let mut stack = vec![base.join("b0000/i")];
        while let Some(d) = stack.pop() {
            for e in std::fs::read_dir(&d).map_err(|e| e.to_string())?.flatten() {
                if e.path().is_dir() { stack.push(e.path()) } else { victims.push(e.path()) }
            }
        }
        for (vi, v) in victims.iter().enumerate() {
            for action in ["delete", "truncate0"] {
                let work = tmp.path().join(format!("w{vi}_{action}"));
                copy_dir(&base, &work).map_err(|e| e.to_string())?;
                let rel = v.strip_prefix(&base).map_err(|e| e.to_string())?;
                if action == "delete" { std::fs::remove_file(work.join(rel)).map_err(|e| e.to_string())?; } else { std::fs::write(work.join(rel), b"").map_err(|e| e.to_string())?; }
                let input = json!({"file": rel.to_string_lossy(), "action": action});
                let archive = Archive::open_path(&work).await.map_err(|e| e.to_string())?;
                let m = TestMonitor::arc();
                let res = conserve::backup(&archive, &src, &opts(), m.clone()).await;
                match res {
                    Ok(st) if st.errors == 0 => {}
                    Ok(st) => return found("backup_heals_damage", input, format!("the new backup reported {} errors", st.errors), "completes without error", "a backup after deleting/emptying one stored file did not complete cleanly"),
                    Err(e) => return found("backup_heals_damage", input, format!("the new backup failed: {e}"), "completes", "a backup after deleting/emptying one stored file failed"),
                }
                drop(archive);
                let archive = Archive::open_path(&work).await.map_err(|e| e.to_string())?;
                let dest = tmp.path().join(format!("r{vi}_{action}"));
                let rm = TestMonitor::arc();
                let rr = conserve::restore(&archive, &dest, RestoreOptions::default(), rm.clone()).await;
                let errs = rm.take_errors();
                let mut bad = None;
                for name in ["big", "s1", "s2", "d/mid"] {
                    if std::fs::read(dest.join(name)).ok() != std::fs::read(src.join(name)).ok() { bad = Some(name); }
                }
                if rr.is_err() || !errs.is_empty() || bad.is_some() {
                    return found("backup_heals_damage", input, format!("restore of the new version: ok={}, {} error(s){}; file differing: {:?}", rr.is_ok(), errs.len(),
                        errs.first().map(|e| format!(" ({e})")).unwrap_or_default(), bad),
                        "the new version restores exactly", "after deleting/emptying one stored file, a new backup of the unchanged source does not restore exactly (the damage spread into the new version)");
                }
                let _ = std::fs::remove_dir_all(&work);
                let _ = std::fs::remove_dir_all(&dest);
            }
        }
        Ok(None)
    })
}

// ---------------------------------------------------------------------------------------------- C04
/// The write of one data block is made to fail without any hook (a DIRECTORY is pre-created at the block's path, whose
/// name is the BLAKE2b hash of the victim file's bytes).  Then: the backup must not crash; if it reports complete success
/// (Ok and no error counted) every file restores exactly from a freshly opened archive; in any case every file that IS
/// recorded restores exactly (never a dangling reference), and the earlier version is untouched.
fn block_write_fails() -> Result<Option<Value>, String> {
    let tmp = tempfile::tempdir().map_err(|e| e.to_string())?;
    let src = tmp.path().join("src");
    write_tree(&src, &[("a", 400), ("b", 500)])?;
    let apath = tmp.path().join("archive");
    let rt = tokio::runtime::Runtime::new().map_err(|e| e.to_string())?;
    rt.block_on(async {
        let opts = || BackupOptions { small_file_cap: 0, ..BackupOptions::default() };
        let archive = Archive::create_path(&apath).await.map_err(|e| e.to_string())?;
        conserve::backup(&archive, &src, &opts(), Arc::new(VoidMonitor)).await.map_err(|e| e.to_string())?;
        write_tree(&src, &[("victim", 700), ("w", 300)])?;
        let victim_bytes = std::fs::read(src.join("victim")).map_err(|e| e.to_string())?;
        let hex = conserve::BlockHash::hash_bytes(&victim_bytes).to_string();
        std::fs::create_dir_all(apath.join("d").join(&hex[..3]).join(&hex)).map_err(|e| e.to_string())?;
        let archive = Archive::open_path(&apath).await.map_err(|e| e.to_string())?;
        let monitor = TestMonitor::arc();
        let res = conserve::backup(&archive, &src, &opts(), monitor.clone()).await;
        let reported = match &res { Ok(st) => st.errors + monitor.take_errors().len(), Err(_) => 1 };
        drop(archive);
        let archive = Archive::open_path(&apath).await.map_err(|e| e.to_string())?;
        // the earlier version is untouched
        let d0 = tmp.path().join("r0");
        let m0 = TestMonitor::arc();
        let o0 = RestoreOptions { band_selection: BandSelectionPolicy::Specified(BandId::zero()), ..RestoreOptions::default() };
        conserve::restore(&archive, &d0, o0, m0.clone()).await.map_err(|e| e.to_string())?;
        if !m0.take_errors().is_empty() || !d0.join("a").exists() || !d0.join("b").exists() {
            return found("block_write_fails", json!({}), "b0000 no longer restores cleanly".into(), "earlier versions untouched", "a failed block write harmed an earlier version");
        }
        if res.is_ok() {
            let d1 = tmp.path().join("r1");
            let m1 = TestMonitor::arc();
            let o1 = RestoreOptions { band_selection: BandSelectionPolicy::Specified(BandId::new(&[1])), ..RestoreOptions::default() };
            let rr = conserve::restore(&archive, &d1, o1, m1.clone()).await;
            let rerrs = m1.take_errors();
            for name in ["a", "b", "victim", "w"] {
                let want = std::fs::read(src.join(name)).map_err(|e| e.to_string())?;
                match std::fs::read(d1.join(name)) {
                    Ok(got) if got == want => {}
                    Ok(got) if got.is_empty() && !rerrs.is_empty() && reported > 0 => {}
                    Err(_) if reported > 0 && rerrs.is_empty() => {} // skipped with an error at backup time
                    other => {
                        return found("block_write_fails", json!({"failing_block": hex, "file": name}),
                            format!("backup reported {reported} error(s); restore of the new version: {:?}, {} restore error(s); /{name} came back as {:?} bytes",
                                rr.is_ok(), rerrs.len(), other.as_ref().map(|g| g.len()).ok()),
                            "every recorded file restores exactly; a skipped file is reported at backup time",
                            "a storage error during backup produced a version that records a file it cannot restore (dangling reference or false success)");
                    }
                }
            }
            if reported == 0 {
                return found("block_write_fails", json!({"failing_block": hex}), "backup reported complete success although a block write failed".into(),
                    "an error is reported", "a failed block write was reported as complete success");
            }
        }
        Ok(None)
    })
}

// ---------------------------------------------------------------------------------------------- C05
/// Three versions, each adding one large file (its own block); delete the newest and the oldest in ONE call,
/// named newest first.  Afterwards exactly b0001 is listed, it restores identically, every present block is
/// referenced by it and no unreferenced block remains; a dry run before that changes nothing.
fn delete_unsorted() -> Result<Option<Value>, String> {
    let tmp = tempfile::tempdir().map_err(|e| e.to_string())?;
    let src = tmp.path().join("src");
    let rt = tokio::runtime::Runtime::new().map_err(|e| e.to_string())?;
    rt.block_on(async {
        let apath = tmp.path().join("archive");
        let archive = Archive::create_path(&apath).await.map_err(|e| e.to_string())?;
        let opts = || BackupOptions { small_file_cap: 10, ..BackupOptions::default() };
        for (i, name) in ["one", "two", "three"].iter().enumerate() {
            write_tree(&src, &[(name, 500 + i)])?;
            conserve::backup(&archive, &src, &opts(), Arc::new(VoidMonitor)).await.map_err(|e| e.to_string())?;
        }
        let before = block_files(&apath).len();
        let del = [BandId::new(&[2]), BandId::new(&[0])];
        archive.delete_bands(&del, &conserve::DeleteOptions { dry_run: true, break_lock: false }, Arc::new(VoidMonitor)).await.map_err(|e| e.to_string())?;
        if block_files(&apath).len() != before || archive.list_band_ids().await.map_err(|e| e.to_string())?.len() != 3 {
            return found("delete_unsorted", json!({"delete": ["b0002", "b0000"], "dry_run": true}), "a dry run removed something".into(), "nothing changes", "delete --dry-run changed the archive");
        }
        archive.delete_bands(&del, &conserve::DeleteOptions { dry_run: false, break_lock: false }, Arc::new(VoidMonitor)).await.map_err(|e| e.to_string())?;
        let ids: Vec<String> = archive.list_band_ids().await.map_err(|e| e.to_string())?.iter().map(|b| b.to_string()).collect();
        if ids != vec!["b0001".to_string()] {
            return found("delete_unsorted", json!({"delete": ["b0002", "b0000"]}), format!("versions left: {ids:?}"), "[b0001]", "delete did not remove exactly the requested versions");
        }
        let archive = Archive::open_path(&apath).await.map_err(|e| e.to_string())?;
        let unref = archive.unreferenced_blocks(Arc::new(VoidMonitor)).await.map_err(|e| e.to_string())?;
        if !unref.is_empty() {
            return found("delete_unsorted", json!({"delete": ["b0002", "b0000"]}), format!("{} unreferenced block(s) remain after the delete ({} block files)", unref.len(), block_files(&apath).len()),
                "no unreferenced block remains", "deleting versions named in non-ascending order left garbage blocks behind");
        }
        let dest = tmp.path().join("dest");
        let monitor = TestMonitor::arc();
        conserve::restore(&archive, &dest, RestoreOptions::default(), monitor.clone()).await.map_err(|e| e.to_string())?;
        if !monitor.take_errors().is_empty() || !dest.join("one").exists() || !dest.join("two").exists() || dest.join("three").exists() {
            return found("delete_unsorted", json!({"delete": ["b0002", "b0000"]}), "the kept version b0001 does not restore as before".into(), "b0001 restores exactly", "delete harmed a kept version");
        }
        Ok(None)
    })
}

// ---------------------------------------------------------------------------------------------- C17
fn tree_bytes(root: &Path) -> BTreeMap<String, Vec<u8>> {
    let mut out = BTreeMap::new();
    let mut stack = vec![root.to_path_buf()];
    while let Some(d) = stack.pop() {
        if let Ok(rd) = std::fs::read_dir(&d) {
            for e in rd.flatten() {
                let p = e.path();
                if p.is_dir() {
                    stack.push(p);
                } else {
                    let rel = p.strip_prefix(root).unwrap().to_string_lossy().into_owned();
                    if rel.ends_with("BANDHEAD") || rel.ends_with("BANDTAIL") {
                        out.insert(rel, Vec::new());
                    } else {
                        out.insert(rel, std::fs::read(&p).unwrap_or_default());
                    }
                }
            }
        }
    }
    out
}

/// Give every entry below `root` (and `root` itself) the same fixed mtime, so that two replays see identical metadata.
fn pin_times(root: &Path, secs: i64) {
    let t = filetime::FileTime::from_unix_time(secs, 0);
    let mut stack = vec![root.to_path_buf()];
    while let Some(d) = stack.pop() {
        if let Ok(rd) = std::fs::read_dir(&d) {
            for e in rd.flatten() {
                if e.path().is_dir() { stack.push(e.path()); }
                let _ = filetime::set_file_mtime(e.path(), t);
            }
        }
        let _ = filetime::set_file_mtime(&d, t);
    }
}

fn determinism_replay() -> Result<Option<Value>, String> {
    determinism("determinism_replay", true)
}

/// The same two replays without the 31 s stall (quick tier): the second replay still runs on a multi-thread runtime.
fn determinism_replay_fast() -> Result<Option<Value>, String> {
    determinism("determinism_replay_fast", false)
}

fn determinism(kind: &str, stall: bool) -> Result<Option<Value>, String> {
    let tmp = tempfile::tempdir().map_err(|e| format!("setup failed at line {}: {e:?}", line!()))?;
    let src = tmp.path().join("src");
    write_tree(&src, &[("a", 30), ("b", 30), ("c", 30), ("d/e", 30), ("d/f", 5000), ("g", 30)])?;
    // files, directories and symlinks dated in the future (2100, 2200) and in the far past (1901, 1960): what is recorded
    // for them must depend on the source only, never on the time of the run
    super::w_round5::make_dated(&src)?;
    let history = |apath: PathBuf, slow: bool, rt: tokio::runtime::Runtime| -> Result<(), String> {
        rt.block_on(async {
            let archive = Archive::create_path(&apath).await.map_err(|e| format!("setup failed at line {}: {e:?}", line!()))?;
            for round in 0..2 {
                if round == 1 {
                    std::fs::write(src.join("b"), b"changed in round two").map_err(|e| format!("setup failed at line {}: {e:?}", line!()))?;
                }
                pin_times(&src, 1_600_000_000 + 100 * round as i64);
                super::w_round5::set_dated(&src)?;
                let mut opts = BackupOptions { max_entries_per_hunk: 1000, ..BackupOptions::default() };
                if slow && stall && round == 0 {
                    let stalled = std::sync::atomic::AtomicBool::new(false);
                    opts.change_callback = Some(Box::new(move |ch| {
                        if ch.apath == "/c" && !stalled.swap(true, std::sync::atomic::Ordering::SeqCst) {
                            std::thread::sleep(std::time::Duration::from_secs(31));
                        }
                        Ok(())
                    }));
                }
                conserve::backup(&archive, &src, &opts, Arc::new(VoidMonitor)).await.map_err(|e| format!("setup failed at line {}: {e:?}", line!()))?;
            }
            Ok(())
        })
    };
    std::fs::write(src.join("b"), vec![7u8; 30]).map_err(|e| format!("setup failed at line {}: {e:?}", line!()))?;
    history(tmp.path().join("r1"), false, tokio::runtime::Builder::new_current_thread().enable_all().build().map_err(|e| format!("setup failed at line {}: {e:?}", line!()))?)?;
    std::fs::write(src.join("b"), vec![7u8; 30]).map_err(|e| format!("setup failed at line {}: {e:?}", line!()))?;
    history(tmp.path().join("r2"), true, tokio::runtime::Builder::new_multi_thread().worker_threads(4).enable_all().build().map_err(|e| format!("setup failed at line {}: {e:?}", line!()))?)?;
    let (a, b) = (tree_bytes(&tmp.path().join("r1")), tree_bytes(&tmp.path().join("r2")));
    if a != b {
        let only_a: Vec<&String> = a.keys().filter(|k| !b.contains_key(*k)).collect();
        let only_b: Vec<&String> = b.keys().filter(|k| !a.contains_key(*k)).collect();
        let differ: Vec<&String> = a.keys().filter(|k| b.get(*k).map(|v| v != &a[*k]).unwrap_or(false)).collect();
        return found(kind, json!({"stall_s": if stall { 31 } else { 0 }}), format!("only in replay 1: {only_a:?}; only in replay 2: {only_b:?}; different bytes: {differ:?}"),
            "identical archive trees (apart from BANDHEAD/BANDTAIL timestamps)", "replaying the same history twice produced different archives");
    }
    failing_delete_replay(kind)
}

/// Round 8: a history that contains a FAILING operation: six versions of pinned source states, then one delete that
/// names an absent version in the middle (`b0001 b0099 b0002 b0003`).  Whatever the delete does with such a request
/// (the unchanged code deletes b0001, then fails at b0099), the same history must leave the same archive: replayed
/// eight times in this process, the remaining band directories and every remaining file must be identical, and the
/// call must return the same kind of result.
fn failing_delete_replay(kind: &str) -> Result<Option<Value>, String> {
    let tmp = tempfile::tempdir().map_err(|e| format!("setup failed at line {}: {e:?}", line!()))?;
    let src = tmp.path().join("src");
    let rt = tokio::runtime::Builder::new_current_thread().enable_all().build().map_err(|e| format!("setup failed at line {}: {e:?}", line!()))?;
    let request = ["b0001", "b0099", "b0002", "b0003"];
    let input = json!({"history": "6 backups, then delete_bands([b0001, b0099 (absent), b0002, b0003])", "replays": 8});
    let mut first: Option<(Vec<String>, BTreeMap<String, Vec<u8>>, String)> = None;
    for replay in 0..8 {
        let _ = std::fs::remove_dir_all(&src);
        let apath = tmp.path().join(format!("d{replay}"));
        let outcome = rt.block_on(async {
            let archive = Archive::create_path(&apath).await.map_err(|e| format!("setup failed at line {}: {e:?}", line!()))?;
            for v in 0..6usize {
                write_tree(&src, &[(&format!("f{v}"), 40 + v), ("same", 30), ("sub/changing", 20 + v)])?;
                pin_times(&src, 1_600_000_000 + 100 * v as i64);
                conserve::backup(&archive, &src, &BackupOptions { small_file_cap: 0, ..BackupOptions::default() }, Arc::new(VoidMonitor)).await.map_err(|e| format!("setup failed at line {}: {e:?}", line!()))?;
            }
            let ids = [BandId::new(&[1]), BandId::new(&[99]), BandId::new(&[2]), BandId::new(&[3])];
            let r = archive.delete_bands(&ids, &conserve::DeleteOptions { dry_run: false, break_lock: false }, Arc::new(VoidMonitor)).await;
            Ok::<String, String>(match r {
                Ok(st) => format!("Ok (deleted_band_count = {})", st.deleted_band_count),
                Err(e) => format!("Err({e})"),
            })
        })?;
        let mut bands: Vec<String> = std::fs::read_dir(&apath).map_err(|e| format!("setup failed at line {}: {e:?}", line!()))?.flatten().map(|e| e.file_name().to_string_lossy().into_owned()).filter(|n| n.starts_with('b')).collect();
        bands.sort();
        let bytes = tree_bytes(&apath);
        match &first {
            None => first = Some((bands, bytes, outcome)),
            Some((bands0, bytes0, outcome0)) => {
                if *bands0 != bands || *outcome0 != outcome {
                    return found(kind, input, format!("replay 0: delete returned {outcome0}, versions left {bands0:?}; replay {replay}: delete returned {outcome}, versions left {bands:?}"),
                        "the same versions are left by every replay of the same history",
                        &format!("a delete request {request:?} that names an absent version removes a different subset of the versions each time it is replayed: what a history leaves depends on something other than the history"));
                }
                if *bytes0 != bytes {
                    let differ: Vec<&String> = bytes0.keys().filter(|k| bytes.get(*k) != bytes0.get(*k)).chain(bytes.keys().filter(|k| !bytes0.contains_key(*k))).collect();
                    return found(kind, input, format!("replay {replay} differs from replay 0 in {differ:?}"), "identical archive trees (apart from BANDHEAD/BANDTAIL timestamps)",
                        "replaying a history with a failing delete produced different archives");
                }
            }
        }
    }
    Ok(None)
}
