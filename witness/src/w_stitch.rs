//! Native witness search / replay for units `stitch` and `hunkiter` (C08, C12 listing clause, C10 no-panic of
//! `iter_available_hunks`), through the PUBLIC API of the real crate.  Used only after the verifier rejected an
//! obligation, to exhibit a concrete archive; it never decides.
//!
//!  * `stitch_listing`: small archives are written directly in the documented format (BANDHEAD / BANDTAIL json files;
//!    index hunks written as files `bNNNN/i/00000/00000000N` holding
//!    snappy(json(entries)), snappy in its "all literal" form), then listed with `Archive::iter_entries(Specified(N),
//!    subtree, Exclude::nothing())`.  Expected: an executable transcription of the spec functions `stitch` /
//!    `flat_remaining` / `prev_existing` / `doc_cmp` / `under` of prelude/{stitch_spec,hunkiter_spec,apath_spec}.rs.
//!    Every entry carries the name of its band as symlink target, so "comes unmodified from the newest version that
//!    covers its path" is compared too.
//!    Input: {"bands":[null | {"closed":bool,"broken_head":bool,"no_head":bool,"hunks":{"0":["/a","/b"],"1":"garbage",...}}], "list":N, "subtree":"/"}
//!    (`broken_head`: BANDHEAD holds garbage; `no_head`, round 7: the band directory and its hunks exist but there is no
//!    BANDHEAD file at all -- a half-deleted band, or one whose creation was interrupted: it is not a version and the
//!    stitching walks on to the band before it.)
//!  * `hunkiter_listdir_panic`: a band whose index directory cannot be listed (here: the directory `bNNNN/i` is gone,
//!    as after an interrupted deletion of the band) makes `IndexRead::iter_available_hunks` panic in
//!    `.expect("hunks available")`; expected (C10): no panic.

use std::cmp::Ordering;
use std::collections::BTreeMap;
use std::fs;
use std::path::Path;

use conserve::monitor::test::TestMonitor;
use conserve::{Apath, Archive, BandId, BandSelectionPolicy, Exclude, IndexEntry, Kind};
use serde_json::{json, Value};

pub fn dispatch(mode: &str, kind: &str, input: Option<&Value>) -> Option<Value> {
    Some(match (mode, kind) {
        ("search", "stitch_listing") => search(),
        ("replay", "stitch_listing") => replay(input?),
        ("search", "hunkiter_listdir_panic") | ("replay", "hunkiter_listdir_panic") => listdir_panic(),
        _ => return None,
    })
}

// ---------------------------------------------------------------- archive description

#[derive(Clone, Debug)]
enum Hunk {
    Entries(Vec<String>),
    Garbage,
}

#[derive(Clone, Debug)]
struct BandDesc {
    closed: bool,
    broken_head: bool,
    /// the directory exists (with its hunks) but has no BANDHEAD file
    no_head: bool,
    hunks: BTreeMap<u32, Hunk>,
}

type ArchDesc = Vec<Option<BandDesc>>;

fn desc_to_json(a: &ArchDesc) -> Value {
    Value::Array(
        a.iter()
            .map(|b| match b {
                None => Value::Null,
                Some(b) => {
                    let mut h = serde_json::Map::new();
                    for (n, hk) in &b.hunks {
                        h.insert(
                            n.to_string(),
                            match hk {
                                Hunk::Entries(es) => json!(es),
                                Hunk::Garbage => json!("garbage"),
                            },
                        );
                    }
                    json!({"closed": b.closed, "broken_head": b.broken_head, "no_head": b.no_head, "hunks": h})
                }
            })
            .collect(),
    )
}

fn desc_from_json(v: &Value) -> Option<ArchDesc> {
    let mut out = Vec::new();
    for b in v.as_array()? {
        if b.is_null() {
            out.push(None);
            continue;
        }
        let mut hunks = BTreeMap::new();
        for (k, hv) in b.get("hunks")?.as_object()? {
            let n: u32 = k.parse().ok()?;
            let h = if let Some(arr) = hv.as_array() {
                Hunk::Entries(arr.iter().filter_map(|s| s.as_str().map(|s| s.to_string())).collect())
            } else {
                Hunk::Garbage
            };
            hunks.insert(n, h);
        }
        out.push(Some(BandDesc {
            closed: b.get("closed")?.as_bool()?,
            broken_head: b.get("broken_head").and_then(|x| x.as_bool()).unwrap_or(false),
            no_head: b.get("no_head").and_then(|x| x.as_bool()).unwrap_or(false),
            hunks,
        }));
    }
    Some(out)
}

// ---------------------------------------------------------------- executable transcription of the spec

fn lex_seq_cmp(a: &[&[u8]], b: &[&[u8]]) -> Ordering {
    // seq_lex_cmp: component-wise, each component byte-wise (lex_cmp)
    let mut i = 0;
    loop {
        match (a.get(i), b.get(i)) {
            (None, None) => return Ordering::Equal,
            (None, Some(_)) => return Ordering::Less,
            (Some(_), None) => return Ordering::Greater,
            (Some(x), Some(y)) => match x.cmp(y) {
                Ordering::Equal => i += 1,
                o => return o,
            },
        }
    }
}

/// doc_cmp(str_comps(a), str_comps(b)): directory parts first, then the tails
fn spec_apath_cmp(a: &str, b: &str) -> Ordering {
    let ca: Vec<&[u8]> = a.as_bytes().split(|c| *c == b'/').collect();
    let cb: Vec<&[u8]> = b.as_bytes().split(|c| *c == b'/').collect();
    match lex_seq_cmp(&ca[..ca.len() - 1], &cb[..cb.len() - 1]) {
        Ordering::Equal => ca[ca.len() - 1].cmp(cb[cb.len() - 1]),
        o => o,
    }
}

/// under(s, a): a is s itself, or s is the root, or a continues s with a '/' separator
fn spec_under(s: &str, a: &str) -> bool {
    let (s, a) = (s.as_bytes(), a.as_bytes());
    a == s || (s == b"/" && a.starts_with(s)) || {
        let mut p = s.to_vec();
        p.push(b'/');
        a.starts_with(&p)
    }
}

/// flat_remaining over the LISTED hunk numbers (the files that exist), skipping unreadable ones
fn spec_band_entries(b: &BandDesc, after: &Option<String>) -> Vec<String> {
    let mut out = Vec::new();
    if b.broken_head || b.no_head {
        return out; // m_opens is false
    }
    for (_n, h) in &b.hunks {
        if let Hunk::Entries(es) = h {
            for e in es {
                let keep = match after {
                    None => true,
                    Some(a) => spec_apath_cmp(e, a) == Ordering::Greater,
                };
                if keep {
                    out.push(e.clone());
                }
            }
        }
    }
    out
}

fn spec_prev_existing(a: &ArchDesc, n: usize) -> Option<usize> {
    (0..n).rev().find(|&i| a[i].is_some())
}

/// stitch(a, id, after): (apath, band it must come from)
fn spec_stitch(a: &ArchDesc, id: usize, after: Option<String>) -> Vec<(String, usize)> {
    let b = a[id].as_ref().expect("listed band exists");
    let own = spec_band_entries(b, &after);
    let after2 = own.last().cloned().or(after);
    let mut out: Vec<(String, usize)> = own.into_iter().map(|p| (p, id)).collect();
    if !b.closed {
        if let Some(p) = spec_prev_existing(a, id) {
            out.extend(spec_stitch(a, p, after2));
        }
    }
    out
}

fn spec_listing(a: &ArchDesc, id: usize, subtree: &str) -> Vec<(String, usize)> {
    spec_stitch(a, id, None).into_iter().filter(|(p, _)| spec_under(subtree, p)).collect()
}

// ---------------------------------------------------------------- writing the archive in the documented format

/// Snappy raw format made of literals only: varint(uncompressed length) then literal elements
fn snappy_stored(data: &[u8]) -> Vec<u8> {
    let mut out = Vec::new();
    let mut n = data.len();
    loop {
        let b = (n & 0x7f) as u8;
        n >>= 7;
        if n == 0 {
            out.push(b);
            break;
        }
        out.push(b | 0x80);
    }
    for chunk in data.chunks(60) {
        out.push(((chunk.len() - 1) as u8) << 2);
        out.extend_from_slice(chunk);
    }
    out
}

fn entry(apath: &str, band: usize) -> IndexEntry {
    IndexEntry {
        apath: apath.into(),
        kind: Kind::Symlink,
        target: Some(format!("b{band}")),
        mtime: 0,
        mtime_nanos: 0,
        addrs: Vec::new(),
        unix_mode: Default::default(),
        owner: Default::default(),
    }
}

async fn build_archive(dir: &Path, a: &ArchDesc) -> Result<Archive, String> {
    // `Band::create` is crate-private: band heads, tails and hunks are written as files in the documented format
    // (doc/format.md: BANDHEAD / BANDTAIL are json, hunks are i/00000/00000000N = snappy(json)).
    let archive = Archive::create_path(dir).await.map_err(|e| format!("create: {e}"))?;
    for (id, b) in a.iter().enumerate() {
        let Some(b) = b else { continue }; // deleted version: no directory at all
        let bdir = dir.join(BandId::new(&[id as u32]).to_string());
        fs::create_dir_all(bdir.join("i")).map_err(|e| e.to_string())?;
        let head: &[u8] = if b.broken_head {
            b"{ this is not json"
        } else {
            b"{\"start_time\":1700000000,\"band_format_version\":\"0.6.3\",\"format_flags\":[]}\n"
        };
        if !b.no_head {
            fs::write(bdir.join("BANDHEAD"), head).map_err(|e| e.to_string())?;
        }
        for (n, h) in &b.hunks {
            let sub = bdir.join("i").join(format!("{:05}", n / 10000));
            fs::create_dir_all(&sub).map_err(|e| e.to_string())?;
            let bytes = match h {
                Hunk::Entries(es) => {
                    let v: Vec<IndexEntry> = es.iter().map(|p| entry(p, id)).collect();
                    snappy_stored(&serde_json::to_vec(&v).map_err(|e| e.to_string())?)
                }
                Hunk::Garbage => b"\xff\xff\xff\xff not a hunk \xff".to_vec(),
            };
            fs::write(sub.join(format!("{:09}", n)), bytes).map_err(|e| e.to_string())?;
        }
        if b.closed {
            let tail = format!("{{\"end_time\":1700000001,\"index_hunk_count\":{}}}\n", b.hunks.len());
            fs::write(bdir.join("BANDTAIL"), tail).map_err(|e| e.to_string())?;
        }
    }
    Ok(archive)
}

async fn real_listing(archive: &Archive, id: usize, subtree: &str) -> Result<Vec<(String, String)>, String> {
    let archive = archive.clone();
    let subtree: Apath = subtree.into();
    // (the Stitch future is not Send: run it on a LocalSet; a panic comes back as a JoinError)
    let local = tokio::task::LocalSet::new();
    let h = local.spawn_local(async move {
        let mut st = archive
            .iter_entries(
                BandSelectionPolicy::Specified(BandId::new(&[id as u32])),
                subtree,
                Exclude::nothing(),
                TestMonitor::arc(),
            )
            .await
            .map_err(|e| format!("iter_entries: {e}"))?;
        let mut out = Vec::new();
        let mut steps = 0;
        while let Some(e) = st.next().await {
            out.push((e.apath.to_string(), e.target.clone().unwrap_or_default()));
            steps += 1;
            if steps > 10_000 {
                return Err("listing does not terminate (10000 entries)".to_string());
            }
        }
        Ok::<_, String>(out)
    });
    match local.run_until(h).await {
        Ok(r) => r,
        Err(e) => Err(format!("PANIC: {e}")),
    }
}

fn compare(a: &ArchDesc, id: usize, subtree: &str, real: &Result<Vec<(String, String)>, String>) -> Option<Value> {
    let exp: Vec<(String, String)> = spec_listing(a, id, subtree).into_iter().map(|(p, b)| (p, format!("b{b}"))).collect();
    let same = matches!(real, Ok(r) if *r == exp);
    if same {
        return None;
    }
    Some(json!({
        "found": true, "kind": "stitch_listing",
        "input": {"bands": desc_to_json(a), "list": id, "subtree": subtree},
        "real": match real { Ok(r) => json!(r), Err(e) => json!(e) },
        "expected": exp,
        "explain": "Archive::iter_entries(Specified(list), subtree, Exclude::nothing()) differs from the stitched listing of the spec (pairs are [apath, band the entry must come from])"
    }))
}

async fn run_one(a: &ArchDesc, ids: &[usize], subtrees: &[&str]) -> Result<Option<Value>, String> {
    let tmp = tempfile::tempdir().map_err(|e| e.to_string())?;
    let archive = build_archive(&tmp.path().join("a"), a).await?;
    for &id in ids {
        match &a[id] {
            Some(b) if !b.broken_head && !b.no_head => {}
            _ => continue, // the listed version itself must exist and open
        }
        for st in subtrees {
            let real = real_listing(&archive, id, st).await;
            if let Some(v) = compare(a, id, st, &real) {
                return Ok(Some(v));
            }
        }
    }
    Ok(None)
}

fn layouts() -> Vec<BTreeMap<u32, Hunk>> {
    // paths in apath order: /a < /b < /a/x < /b/y   (files of a directory come before its sub-directories' content)
    let e = |v: &[&str]| Hunk::Entries(v.iter().map(|s| s.to_string()).collect());
    let m = |v: Vec<(u32, Hunk)>| v.into_iter().collect::<BTreeMap<u32, Hunk>>();
    vec![
        m(vec![]),
        m(vec![(0, e(&["/a"]))]),
        m(vec![(0, e(&["/a", "/b"]))]),
        m(vec![(0, e(&["/a"])), (1, e(&["/b", "/a/x"]))]),
        m(vec![(0, e(&["/a", "/b", "/a/x", "/b/y"]))]),
        m(vec![(0, e(&["/b"])), (2, e(&["/a/x", "/b/y"]))]),
        m(vec![(0, e(&["/a"])), (1, Hunk::Garbage), (2, e(&["/b/y"]))]),
        m(vec![(0, e(&["/a/x"]))]),
        m(vec![(0, e(&[])), (1, e(&["/b", "/a/x"]))]),
    ]
}

fn band_options() -> Vec<Option<BandDesc>> {
    let mut out = vec![None];
    for l in layouts() {
        for closed in [false, true] {
            out.push(Some(BandDesc { closed, broken_head: false, no_head: false, hunks: l.clone() }));
        }
    }
    out.push(Some(BandDesc { closed: false, broken_head: true, no_head: false, hunks: layouts()[2].clone() }));
    out.push(Some(BandDesc { closed: false, broken_head: false, no_head: true, hunks: layouts()[2].clone() }));
    out
}

fn search() -> Value {
    let rt = tokio::runtime::Runtime::new().unwrap();
    let opts = band_options();
    let mut tried = 0usize;
    let res = rt.block_on(async {
        for b0 in &opts {
            for b1 in &opts {
                for b2 in &opts {
                    // (the newest band is one that is listed: a directory without a head in that place adds nothing)
                    if b2.as_ref().map(|b| b.no_head).unwrap_or(true) {
                        continue;
                    }
                    let a: ArchDesc = vec![b0.clone(), b1.clone(), b2.clone()];
                    tried += 1;
                    match run_one(&a, &[2, 1], &["/", "/a"]).await {
                        Ok(Some(v)) => return Some(v),
                        Ok(None) => {}
                        Err(e) => return Some(json!({"found": false, "kind": "stitch_listing", "error": e, "input": {"bands": desc_to_json(&a)}})),
                    }
                }
            }
        }
        None
    });
    // Phase 2: one complete version whose names exercise the ordering (siblings that extend one another,
    // bytes below '/', multi-byte names), listed under every choice of subtree.
    let res = res.or_else(|| {
        rt.block_on(async {
            let mut paths: Vec<String> = [
                "/a", "/a.b", "/a-b", "/ab", "/a b", "/é", "/éa", "/z", "/a/b", "/a/b/c", "/a/b/deep/f", "/a.b/x",
                "/a.b/sub/y", "/a-b/y", "/ab/q", "/é/ü", "/éa/w", "/a b/k",
            ]
            .iter()
            .map(|s| s.to_string())
            .collect();
            paths.sort_by(|x, y| super::w_apath::doc_cmp(x, y));
            let mut subtrees: Vec<String> = paths.clone();
            subtrees.extend(["/", "/nope", "/a.", "/a/b/d", "/é/"].iter().map(|s| s.to_string()).filter(|s| super::w_apath::valid(s)));
            let st_refs: Vec<&str> = subtrees.iter().map(|s| s.as_str()).collect();
            for split in [paths.len(), 5, 9] {
                let mut hunks = BTreeMap::new();
                hunks.insert(0u32, Hunk::Entries(paths[..split.min(paths.len())].to_vec()));
                if split < paths.len() {
                    hunks.insert(1u32, Hunk::Entries(paths[split..].to_vec()));
                }
                let a: ArchDesc = vec![Some(BandDesc { closed: true, broken_head: false, no_head: false, hunks })];
                tried += 1;
                match run_one(&a, &[0], &st_refs).await {
                    Ok(Some(v)) => return Some(v),
                    Ok(None) => {}
                    Err(e) => return Some(json!({"found": false, "kind": "stitch_listing", "error": e})),
                }
            }
            None
        })
    });
    res.unwrap_or_else(|| json!({"found": false, "kind": "stitch_listing", "tried_archives": tried,
        "explain": "no archive of 3 versions (each absent / unopenable / without a head file / complete / incomplete, 9 hunk layouts incl. gaps, unreadable and empty hunks) lists differently from the spec"}))
}

fn replay(input: &Value) -> Value {
    let a = match input.get("bands").and_then(desc_from_json) {
        Some(a) => a,
        None => return json!({"found": false, "error": "bad input"}),
    };
    let id = input.get("list").and_then(|x| x.as_u64()).unwrap_or(0) as usize;
    let st = input.get("subtree").and_then(|x| x.as_str()).unwrap_or("/").to_string();
    let rt = tokio::runtime::Runtime::new().unwrap();
    match rt.block_on(run_one(&a, &[id], &[st.as_str()])) {
        Ok(Some(v)) => v,
        Ok(None) => json!({"found": false, "kind": "stitch_listing", "input": input}),
        Err(e) => json!({"found": false, "kind": "stitch_listing", "error": e}),
    }
}

// ---------------------------------------------------------------- C10: iter_available_hunks panics when list_dir fails

fn listdir_panic() -> Value {
    let rt = tokio::runtime::Runtime::new().unwrap();
    rt.block_on(async {
        let tmp = tempfile::tempdir().unwrap();
        let dir = tmp.path().join("a");
        let a: ArchDesc = vec![
            Some(BandDesc { closed: true, broken_head: false, no_head: false, hunks: layouts()[2].clone() }),
            Some(BandDesc { closed: false, broken_head: false, no_head: false, hunks: layouts()[1].clone() }),
        ];
        let archive = match build_archive(&dir, &a).await {
            Ok(x) => x,
            Err(e) => return json!({"found": false, "error": e}),
        };
        // the index directory of the newest band is gone (e.g. deletion of the band was interrupted after `i`
        // and before BANDHEAD); any other list_dir failure (permissions, network) takes the same path
        fs::remove_dir_all(dir.join("b0001").join("i")).unwrap();
        let real = real_listing(&archive, 1, "/").await;
        let panicked = matches!(&real, Err(e) if e.starts_with("PANIC"));
        json!({
            "found": panicked, "kind": "hunkiter_listdir_panic",
            "input": {"bands": desc_to_json(&a), "damage": "remove directory b0001/i", "list": 1, "subtree": "/"},
            "real": match &real { Ok(r) => json!(r), Err(e) => json!(e) },
            "expected": "no panic: the listing continues with the previous version (b0001 has no tail): [/a b0, /b b0], or an error is reported",
            "explain": "IndexRead::iter_available_hunks: `self.hunks_available().await.expect(\"hunks available\")` panics when Transport::list_dir fails"
        })
    })
}
