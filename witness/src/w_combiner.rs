//! Native replay for unit combiner, through the PUBLIC API of the real crate only (no hooks).
//!  * `combiner_failed_flush` (C04/C01, DESIGN 9 #4): small files are backed up with a small `max_block_size`, so
//!    that a combined block is flushed in the middle of the run.  The write of that first combined block is made
//!    to fail without any hook: its hash is precomputed and a DIRECTORY is created at `d/<xxx>/<hash>` in the
//!    archive (the local write then fails with EISDIR; `list_blocks` ignores directories).  `backup()` counts the
//!    error and continues.  Expected (C04): every file recorded in the new version restores to exactly the bytes
//!    it has in the source ("never another file's bytes and never a dangling reference"); files may be missing
//!    only if an error was reported.
//! Input: `{"sizes": [n1, n2, ...], "max_block_size": m}`: files `/f00`, `/f01`, ... of those sizes, file i filled
//! with the byte `b'a' + i`.

use std::sync::Arc;

use conserve::monitor::void::VoidMonitor;
use conserve::{Archive, BackupOptions, BlockHash, RestoreOptions};
use serde_json::{json, Value};

pub fn dispatch(mode: &str, kind: &str, input: Option<&Value>) -> Option<Value> {
    Some(match (mode, kind) {
        ("search", "combiner_failed_flush") => search(),
        ("replay", "combiner_failed_flush") => replay(input?),
        _ => return None,
    })
}

fn content(i: usize, n: usize) -> Vec<u8> {
    vec![b'a' + (i % 26) as u8; n]
}

/// Ok(None): nothing wrong observed.  Ok(Some((real, expected, explain))): a recorded file restored wrongly.
fn scenario(sizes: &[usize], max_block_size: usize) -> Result<Option<(String, String, String)>, String> {
    let src = tempfile::tempdir().map_err(|e| e.to_string())?;
    let arch = tempfile::tempdir().map_err(|e| e.to_string())?;
    let dest = tempfile::tempdir().map_err(|e| e.to_string())?;
    let names: Vec<String> = (0..sizes.len()).map(|i| format!("f{i:02}")).collect();
    for (i, n) in sizes.iter().enumerate() {
        std::fs::write(src.path().join(&names[i]), content(i, *n)).map_err(|e| e.to_string())?;
    }
    // the first combined block: files in apath order until the buffer reaches max_block_size
    let mut first_block = Vec::new();
    let mut in_first = 0;
    for (i, n) in sizes.iter().enumerate() {
        first_block.extend_from_slice(&content(i, *n));
        in_first = i + 1;
        if first_block.len() >= max_block_size {
            break;
        }
    }
    let hex = BlockHash::hash_bytes(&first_block).to_string();
    let rt = tokio::runtime::Runtime::new().map_err(|e| e.to_string())?;
    rt.block_on(async {
        let apath = arch.path().join("a");
        let archive = Archive::create_path(&apath).await.map_err(|e| format!("create: {e}"))?;
        // make the write of exactly that block fail
        std::fs::create_dir_all(apath.join("d").join(&hex[..3]).join(&hex)).map_err(|e| e.to_string())?;
        let options = BackupOptions { max_block_size, ..BackupOptions::default() };
        let stats = match conserve::backup(&archive, src.path(), &options, Arc::new(VoidMonitor)).await {
            Ok(stats) => stats,
            Err(_) => return Ok(None), // the backup as a whole failed: nothing is claimed about it
        };
        let out = dest.path().join("out");
        let restore_result = conserve::restore(&archive, &out, RestoreOptions::default(), Arc::new(VoidMonitor)).await;
        for (i, n) in sizes.iter().enumerate() {
            let want = content(i, *n);
            match std::fs::read(out.join(&names[i])) {
                Ok(got) if got == want => {}
                Ok(got) => {
                    return Ok(Some((
                        format!("/{} restored as {:?}", names[i], String::from_utf8_lossy(&got)),
                        format!("/{} == {:?}, or absent with an error reported", names[i], String::from_utf8_lossy(&want)),
                        format!(
                            "the write of the first combined block (files 0..{in_first}) failed; backup() returned Ok with errors={}; \
                             the version records /{} with another file's bytes",
                            stats.errors, names[i]
                        ),
                    )));
                }
                Err(_) => {
                    if stats.errors == 0 {
                        return Ok(Some((
                            format!("/{} missing from the restored version, errors=0", names[i]),
                            "every source file present, or an error reported".into(),
                            "a file was skipped although the backup reported complete success".into(),
                        )));
                    }
                }
            }
        }
        if let Err(e) = restore_result {
            return Ok(Some((
                format!("restore failed: {e}"),
                "every recorded entry restores (no dangling reference)".into(),
                format!("backup() returned Ok with errors={}", stats.errors),
            )));
        }
        Ok(None)
    })
}

const CASES: &[(&[usize], usize)] = &[
    (&[10, 10, 10, 10], 15),
    (&[4, 4, 4, 4, 4, 4], 10),
    (&[10, 10, 3, 30], 15),
];

fn run(sizes: &[usize], max_block_size: usize) -> Value {
    let input = json!({"sizes": sizes, "max_block_size": max_block_size});
    match scenario(sizes, max_block_size) {
        Ok(None) => json!({"found": false, "kind": "combiner_failed_flush", "input": input}),
        Ok(Some((real, expected, explain))) => json!({
            "found": true, "kind": "combiner_failed_flush", "input": input,
            "real": real, "expected": expected, "explain": explain,
        }),
        Err(e) => json!({"found": false, "kind": "combiner_failed_flush", "input": input, "error": e}),
    }
}

fn search() -> Value {
    let mut last = json!({"found": false, "kind": "combiner_failed_flush", "tried": 0});
    for (sizes, m) in CASES {
        last = run(sizes, *m);
        if last.get("found").and_then(|f| f.as_bool()) == Some(true) {
            return last;
        }
    }
    last
}

fn replay(input: &Value) -> Value {
    let sizes: Vec<usize> = input
        .get("sizes")
        .and_then(|s| s.as_array())
        .map(|a| a.iter().filter_map(|x| x.as_u64()).map(|x| x as usize).collect())
        .unwrap_or_else(|| vec![10, 10, 10, 10]);
    let m = input.get("max_block_size").and_then(|m| m.as_u64()).unwrap_or(15) as usize;
    run(&sizes, m)
}
