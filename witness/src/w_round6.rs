//! Bounded stand-ins added after the sixth round of seeded defects (public API only; each is a bounded search that
//! proves nothing when it finds nothing).  Setup failures are errors, never findings.
//!  * `write_fault_sweep` (C04): the set of files one backup writes is learnt from a run on a twin archive (block
//!        names are content hashes, band / hunk names are deterministic).  Then, for EACH such file in turn (every
//!        new data block, every index hunk, BANDHEAD, BANDTAIL), that single write is made to fail by a DIRECTORY
//!        sitting at its path (blocks: created beforehand; files of the new band: created from the change callback,
//!        which runs after the band was created and before the first hunk is flushed; BANDHEAD: the band directory
//!        name is occupied beforehand).  REQUIRED: if `backup` returns Ok with zero errors (stats and monitor) then
//!        the new band is closed, restoring it reproduces the source exactly and full validation is silent; in
//!        every case the earlier version still restores exactly.  Input {"fault": "<archive-relative path>"|"none"}.
//!  * `gc_lock_is_not_stolen` (C07, C05): while GC_LOCK is held (by a guard of `GarbageCollectionLock::new`, or
//!        a lock file written by "another process") a second lock, a delete, a gc and a backup must all be
//!        refused and must leave every file of the archive, GC_LOCK included, in place with the same bytes (also
//!        after deferred clean-up had time to run); a dry-run delete changes nothing; after release / drop the
//!        file is gone and delete works again.  Input {"lock": "guard"|"file"|"dropped guard", "operation": ".."}.
//!  * `validate_sees_current_blocks` (C09): validation looks at the block directory as it IS: through ONE archive
//!        handle: backup, delete a referenced block file, validate (quick and full) must report it; a healthy archive
//!        changed through a second handle (delete + gc; another backup) validates silently through the first.
//!        Input {"scenario": "..", "block": ".."}.
//!  * `unchanged_backup_writes_nothing` (C14): >= 300 one-block files whose block directories cover all 16 hex
//!        digits (asserted); backup, REOPEN, backup of the unchanged tree: no new file under d/, written_blocks == 0,
//!        replaced_damaged_blocks == 0, no error, identical entries; the same for a resumed interrupted backup.
//!        Input {"case": "unchanged"|"resumed"}.
//!        Round 7, case "dated": files below and above the small-file cap whose mtimes lie before 1970 with a non-zero
//!        sub-second part (-1.5 s, -86400.25 s, 1901, 1960, -1 ns), on whole negative seconds, exactly at the epoch, and
//!        far in the future: the index records the source's mtime (floor seconds + non-negative nanoseconds); after a
//!        REOPEN the second and third backup of the untouched tree report every file unchanged (change callback),
//!        write nothing, record identical entries; restore puts the same mtimes back.
//!  * `odd_names_roundtrip` (C08, C01): file / directory / symlink names with TAB, newline, 0x01, 0x7f, leading '-',
//!        spaces, backslash, glob characters, quotes, 4-byte UTF-8, combining characters and 255 bytes: backup ->
//!        list (every source path exactly once, strictly increasing) -> restore (bytes equal) -> validate silent,
//!        under three option sets; then an interrupted second version cut after every hunk (one entry per hunk):
//!        the stitched listing is the version's own readable entries followed by the previous version's entries
//!        after the last of them.  Input {"options": n, "phase": ".."} | {"cut_after_hunks": k}.
//!        Round 7: files and directories whose names extend the name of a symlink beside them (`-rf ->`, `-rfx`, `-rf.d/`).
//!  Round 8, `odd_names_roundtrip`: phase "display": `to_string()` / Display of every listed apath is its raw text (C12, C01);
//!        all comparisons use the raw text.

use std::collections::{BTreeMap, BTreeSet};
use std::os::unix::fs::symlink;
use std::path::{Path, PathBuf};
use std::sync::{Arc, Mutex};
use std::time::Duration;

use conserve::monitor::test::TestMonitor;
use conserve::monitor::void::VoidMonitor;
use conserve::{Apath, Archive, BackupOptions, BandSelectionPolicy, DeleteOptions, GarbageCollectionLock, IndexEntry, RestoreOptions, ValidateOptions};
use serde_json::{json, Value};

use super::w_round5::{bid, block_set, content, copy_dir, entries, found, pin_all, put, skip, snapshot_diff, tree_snapshot, R};

macro_rules! su {
    ($e:expr) => {
        $e.map_err(|e| format!("setup failed at line {}: {e:?}", line!()))?
    };
}

pub fn dispatch(mode: &str, kind: &str, input: Option<&Value>) -> Option<Value> {
    let f: fn(Option<&Value>) -> R = match kind {
        "write_fault_sweep" => write_fault_sweep,
        "gc_lock_is_not_stolen" => gc_lock_is_not_stolen,
        "validate_sees_current_blocks" => validate_sees_current_blocks,
        "unchanged_backup_writes_nothing" => unchanged_backup_writes_nothing,
        "odd_names_roundtrip" => odd_names_roundtrip,
        _ => return None,
    };
    let only = match mode {
        "search" => None,
        "replay" => input,
        _ => return None,
    };
    let kind = kind.to_string();
    Some(match std::panic::catch_unwind(std::panic::AssertUnwindSafe(|| f(only))) {
        Ok(Ok(Some(v))) => v,
        Ok(Ok(None)) => json!({"found": false, "kind": kind}),
        Ok(Err(e)) => json!({"found": false, "kind": kind, "error": e}),
        Err(p) => {
            let msg = p.downcast_ref::<String>().cloned().or_else(|| p.downcast_ref::<&str>().map(|s| s.to_string())).unwrap_or_default();
            json!({"found": true, "kind": kind, "input": input.cloned().unwrap_or(json!({})), "real": format!("panic: {msg}"), "expected": "no panic",
                "explain": "a scenario built from public operations and single-file faults panicked"})
        }
    })
}

type Snapshot = BTreeMap<String, Option<Vec<u8>>>;

fn files_of(snap: &Snapshot) -> BTreeSet<String> {
    snap.iter().filter(|(_, v)| v.is_some()).map(|(k, _)| k[1..].to_string()).collect()
}

/// What changed between two snapshots of a directory: removed, altered, added (paths)
fn changes(before: &Snapshot, after: &Snapshot) -> Option<String> {
    let gone: Vec<&String> = before.keys().filter(|k| !after.contains_key(*k)).collect();
    let altered: Vec<&String> = before.keys().filter(|k| after.get(*k).map(|v| v != &before[*k]).unwrap_or(false)).collect();
    let added: Vec<&String> = after.keys().filter(|k| !before.contains_key(*k)).collect();
    if gone.is_empty() && altered.is_empty() && added.is_empty() {
        None
    } else {
        Some(format!("removed {gone:?}; altered {altered:?}; added {added:?}"))
    }
}

/// Restore one version into a fresh directory: Ok(None) when it restores exactly `want` without any error.
async fn restore_mismatch(archive: &Archive, policy: BandSelectionPolicy, dest: &Path, want: &Snapshot) -> Result<Option<String>, String> {
    let _ = std::fs::remove_dir_all(dest);
    let m = TestMonitor::arc();
    let r = conserve::restore(archive, dest, RestoreOptions { band_selection: policy, ..RestoreOptions::default() }, m.clone()).await;
    let errs = m.take_errors();
    if let Err(e) = r {
        return Ok(Some(format!("restore failed: {e}")));
    }
    if let Some(d) = snapshot_diff(&tree_snapshot(dest), want) {
        return Ok(Some(format!("restored tree differs from the source: {d}; {} restore error(s)", errs.len())));
    }
    if !errs.is_empty() {
        return Ok(Some(format!("restore reported {} error(s): {}", errs.len(), errs[0])));
    }
    Ok(None)
}

/// Errors reported by validation (Err of the call itself included)
async fn validation_errors(archive: &Archive, skip_block_hashes: bool) -> Vec<String> {
    let m = TestMonitor::arc();
    let r = archive.validate(&ValidateOptions { skip_block_hashes }, m.clone()).await;
    let mut out: Vec<String> = m.take_errors().iter().map(|e| e.to_string()).collect();
    if let Err(e) = r {
        out.push(format!("validate failed: {e}"));
    }
    out
}

// ------------------------------------------------------------------------------------------------------------ C04
fn write_fault_sweep(only: Option<&Value>) -> R {
    const K: &str = "write_fault_sweep";
    const HEAD_BY_FILE: &str = "b0001 (the name of the new band directory is occupied by a file)";
    let tmp = su!(tempfile::tempdir());
    let src = tmp.path().join("src");
    let opts = || BackupOptions { max_block_size: 4096, small_file_cap: 100, max_entries_per_hunk: 2, ..BackupOptions::default() };
    let rt = su!(tokio::runtime::Runtime::new());
    rt.block_on(async {
        // version 0
        put(&src, "aaa", &content("aaa", 20))?;
        put(&src, "big", &content("big", 5000))?;
        put(&src, "mmm/x", &content("x", 30))?;
        put(&src, "zzz", &content("zzz", 25))?;
        pin_all(&src, 1_600_000_000, 0)?;
        let base = tmp.path().join("base");
        let archive = su!(Archive::create_path(&base).await);
        let st = su!(conserve::backup(&archive, &src, &opts(), Arc::new(VoidMonitor)).await);
        if st.errors != 0 {
            return Err("setup: the first backup reported errors".into());
        }
        drop(archive);
        let tree0 = tree_snapshot(&src);
        // version 1: /aaa changed, /mmm/y and /nnn added (own blocks), /zzz deleted (an unclosed band would resurrect it)
        put(&src, "aaa", &content("aaa two", 33))?;
        put(&src, "mmm/y", &content("y", 6000))?;
        put(&src, "nnn", &content("nnn", 300))?;
        su!(std::fs::remove_file(src.join("zzz")));
        pin_all(&src, 1_600_000_100, 0)?;
        let tree1 = tree_snapshot(&src);
        // learn what the second backup writes, on a twin
        let twin = tmp.path().join("twin");
        su!(copy_dir(&base, &twin));
        let before = files_of(&tree_snapshot(&twin));
        {
            let a = su!(Archive::open_path(&twin).await);
            let m = TestMonitor::arc();
            let st = su!(conserve::backup(&a, &src, &opts(), m.clone()).await);
            if st.errors != 0 || !m.take_errors().is_empty() {
                return found(K, json!({"fault": "none", "archive": "twin"}), format!("backup reported {} error(s)", st.errors), "no error", "a fault-free backup reported errors");
            }
        }
        let written: Vec<String> = files_of(&tree_snapshot(&twin)).difference(&before).cloned().collect();
        let nblocks = written.iter().filter(|w| w.starts_with("d/")).count();
        let nhunks = written.iter().filter(|w| w.starts_with("b0001/i/")).count();
        if nblocks < 3 || nhunks < 3 || !written.contains(&"b0001/BANDHEAD".to_string()) || !written.contains(&"b0001/BANDTAIL".to_string()) || written.len() != nblocks + nhunks + 2 {
            return Err(format!("setup: unexpected set of files written by the second backup: {written:?}"));
        }
        let mut faults: Vec<String> = vec!["none".into()];
        faults.extend(written.iter().cloned());
        faults.push(HEAD_BY_FILE.into());
        // a second kind of write failure for new blocks: NOT-FOUND instead of already-exists (the block's sub-directory
        // is a dangling symlink: create_dir sees "exists", the write of the block then fails with ENOENT) -- a tolerance
        // of "file vanished during backup" must not swallow a failed STORAGE write (round 8, seed C04-6)
        const NF: &str = " (its sub-directory is a dangling symlink: the write fails with not-found)";
        for w in written.iter().filter(|w| w.starts_with("d/")) {
            let sub = Path::new(w).parent().map(|p| p.to_path_buf()).unwrap_or_default();
            if !base.join(&sub).exists() {
                faults.push(format!("{w}{NF}"));
            }
        }
        for fault in faults {
            if skip(only, "fault", &json!(fault)) {
                continue;
            }
            let input = json!({"fault": fault, "files_written_by_an_undisturbed_run": written});
            let work = tmp.path().join("work");
            let _ = std::fs::remove_dir_all(&work);
            let outside = tmp.path().join("outside_band");
            let _ = std::fs::remove_dir_all(&outside);
            su!(copy_dir(&base, &work));
            // what the change callback creates (a directory at the path of a file of the new band)
            let mut late: Option<PathBuf> = None;
            if fault == "none" {
            } else if fault == HEAD_BY_FILE {
                su!(std::fs::write(work.join("b0001"), b"not a directory"));
            } else if fault == "b0001/BANDHEAD" {
                // the head is written before the first callback and the band directory cannot exist beforehand (it would
                // count as a version): the band directory name is a symlink to a directory in which BANDHEAD is occupied
                su!(std::fs::create_dir_all(outside.join("BANDHEAD")));
                su!(symlink(&outside, work.join("b0001")));
            } else if fault.starts_with("d/") && fault.ends_with(NF) {
                let blk = fault.trim_end_matches(NF);
                let sub = Path::new(blk).parent().map(|p| p.to_path_buf()).unwrap_or_default();
                su!(symlink("/nonexistent-target-of-a-dangling-link/x", work.join(&sub)));
            } else if fault.starts_with("d/") {
                su!(std::fs::create_dir_all(work.join(&fault)));
            } else {
                late = Some(work.join(&fault));
            }
            let inject_error: Arc<Mutex<Option<String>>> = Arc::new(Mutex::new(None));
            let injected = Arc::new(std::sync::atomic::AtomicBool::new(late.is_none()));
            let (ie, inj, late2) = (inject_error.clone(), injected.clone(), late.clone());
            let mut o = opts();
            o.change_callback = Some(Box::new(move |_ch| {
                if let Some(p) = &late2 {
                    if !inj.swap(true, std::sync::atomic::Ordering::SeqCst) {
                        if let Err(e) = std::fs::create_dir_all(p) {
                            *ie.lock().unwrap() = Some(format!("cannot occupy {p:?} from the change callback: {e}"));
                        }
                    }
                }
                Ok(())
            }));
            let archive = su!(Archive::open_path(&work).await);
            let m = TestMonitor::arc();
            let res = conserve::backup(&archive, &src, &o, m.clone()).await;
            let merrs = m.take_errors();
            drop(archive);
            if let Some(e) = inject_error.lock().unwrap().clone() {
                return Err(format!("setup: {e}"));
            }
            if !injected.load(std::sync::atomic::Ordering::SeqCst) {
                return Err(format!("setup: the change callback never ran, the fault {fault} was not injected"));
            }
            if let Some(p) = &late {
                if !p.is_dir() {
                    return Err(format!("setup: {p:?} is no longer the directory that was put there"));
                }
            }
            let outcome = match &res {
                Ok(st) => format!("backup returned Ok with stats.errors = {} and {} error(s) sent to the monitor", st.errors, merrs.len()),
                Err(e) => format!("backup returned Err({e})"),
            };
            let clean = matches!(&res, Ok(st) if st.errors == 0) && merrs.is_empty();
            if std::env::var_os("WITNESS_DEBUG").is_some() {
                eprintln!("fault {}: {outcome}", &fault[..fault.len().min(40)]);
            }
            let archive = su!(Archive::open_path(&work).await);
            // whatever happened: the earlier version restores exactly
            if let Some(d) = restore_mismatch(&archive, BandSelectionPolicy::Specified(bid(0)), &tmp.path().join("r0"), &tree0).await? {
                return found(K, input, format!("{outcome}; afterwards b0000: {d}"), "the earlier version restores exactly as before", "a backup with one failing write harmed a version that was already complete");
            }
            if fault == "none" && !clean {
                return found(K, input, outcome, "Ok, no errors", "a fault-free backup did not report success");
            }
            if !clean {
                continue;
            }
            // complete success was reported: the version must be complete, restore exactly, validate silently
            let closed = archive.band_is_closed(bid(1)).await.map_err(|e| e.to_string());
            let lcb = archive.last_complete_band().await.map(|b| b.map(|b| b.id().to_string())).map_err(|e| e.to_string());
            if closed != Ok(true) || lcb != Ok(Some("b0001".to_string())) {
                return found(K, input, format!("{outcome}; band_is_closed(b0001) = {closed:?}; last_complete_band = {lcb:?}"), "a problem is reported (Err, or errors counted), or the new version b0001 is complete",
                    "a write failed during the backup, complete success was reported, and the version it made is not complete");
            }
            for (what, policy) in [("b0001", BandSelectionPolicy::Specified(bid(1))), ("the default (latest complete) version", BandSelectionPolicy::LatestClosed)] {
                if let Some(d) = restore_mismatch(&archive, policy, &tmp.path().join("r1"), &tree1).await? {
                    return found(K, input, format!("{outcome}; restoring {what}: {d}"), "a problem is reported, or the new version restores the source exactly",
                        "a write failed during the backup, complete success was reported, and the version it made does not restore to the source");
                }
            }
            let verrs = validation_errors(&archive, false).await;
            if !verrs.is_empty() {
                return found(K, input, format!("{outcome}; validate reports: {}", verrs.join("; ")), "a problem is reported by the backup, or the archive validates silently",
                    "a write failed during the backup, complete success was reported, and the archive does not validate");
            }
        }
        Ok(None)
    })
}

// ------------------------------------------------------------------------------------------------------ C07 / C05
fn gc_lock_is_not_stolen(only: Option<&Value>) -> R {
    const K: &str = "gc_lock_is_not_stolen";
    const FOREIGN: &[u8] = b"{\"held_by\":\"another process\",\"pid\":4242}\n";
    let tmp = su!(tempfile::tempdir());
    let src = tmp.path().join("src");
    let opts = || BackupOptions { small_file_cap: 10, ..BackupOptions::default() };
    let rt = su!(tokio::runtime::Runtime::new());
    rt.block_on(async {
        async fn settle() {
            // clean-up of a dropped guard is deferred to a spawned task: give it time to run
            for _ in 0..3 {
                tokio::task::yield_now().await;
                tokio::time::sleep(Duration::from_millis(50)).await;
            }
        }
        async fn gone_within(p: &Path, ms: u64) -> bool {
            for _ in 0..(ms / 20) {
                if !p.exists() {
                    return true;
                }
                tokio::time::sleep(Duration::from_millis(20)).await;
            }
            !p.exists()
        }
        for lockkind in ["guard", "file", "dropped guard"] {
            if skip(only, "lock", &json!(lockkind)) {
                continue;
            }
            let apath = tmp.path().join(format!("archive_{}", lockkind.replace(' ', "_")));
            let _ = std::fs::remove_dir_all(&src);
            let archive = su!(Archive::create_path(&apath).await);
            put(&src, "one", &content("one", 600))?;
            put(&src, "two", &content("two", 700))?;
            pin_all(&src, 1_600_000_000, 0)?;
            su!(conserve::backup(&archive, &src, &opts(), Arc::new(VoidMonitor)).await);
            su!(std::fs::remove_file(src.join("one")));
            put(&src, "three", &content("three", 800))?;
            pin_all(&src, 1_600_000_100, 0)?;
            su!(conserve::backup(&archive, &src, &opts(), Arc::new(VoidMonitor)).await);
            let tree1 = tree_snapshot(&src);
            // a garbage block, so that a gc has something to delete
            let garbage = conserve::BlockHash::hash_bytes(b"garbage").to_string();
            put(&apath, &format!("d/{}/{garbage}", &garbage[..3]), b"not even a block")?;
            let lock_path = apath.join("GC_LOCK");
            if lockkind == "dropped guard" {
                let input = json!({"lock": lockkind, "operation": "drop"});
                let guard = su!(GarbageCollectionLock::new(&archive).await);
                if !lock_path.is_file() {
                    return found(K, input, "GC_LOCK does not exist while the guard is alive".into(), "the lock file exists", "taking the gc lock did not create the lock file");
                }
                drop(guard);
                if !gone_within(&lock_path, 5000).await {
                    return found(K, input, "GC_LOCK still exists 5 s after the guard was dropped".into(), "the holder removes its own lock file", "a dropped gc lock guard leaves the archive locked");
                }
                let st = conserve::backup(&archive, &src, &opts(), Arc::new(VoidMonitor)).await;
                if let Err(e) = st {
                    return found(K, input, format!("backup after the lock was dropped failed: {e}"), "Ok", "the archive stays unusable after the gc lock was released");
                }
                continue;
            }
            let mut guard = None;
            if lockkind == "guard" {
                guard = Some(su!(GarbageCollectionLock::new(&archive).await));
            } else {
                su!(std::fs::write(&lock_path, FOREIGN));
            }
            if !lock_path.is_file() {
                return found(K, json!({"lock": lockkind, "operation": "take"}), "GC_LOCK does not exist while the guard is alive".into(), "the lock file exists", "taking the gc lock did not create the lock file");
            }
            let before = tree_snapshot(&apath);
            for op in ["second lock", "delete b0000", "gc", "delete b0000 (dry run)", "backup", "second handle: delete b0000"] {
                let input = json!({"lock": lockkind, "operation": op});
                if skip(only, "operation", &input["operation"]) {
                    continue;
                }
                let del = |dry_run: bool| DeleteOptions { dry_run, break_lock: false };
                let result: Result<String, String> = match op {
                    "second lock" => GarbageCollectionLock::new(&archive).await.map(|g| {
                        std::mem::forget(g);
                        "a second lock guard".to_string()
                    }).map_err(|e| e.to_string()),
                    "delete b0000" => archive.delete_bands(&[bid(0)], &del(false), Arc::new(VoidMonitor)).await.map(|s| format!("{} band(s), {} block(s) deleted", s.deleted_band_count, s.deleted_block_count)).map_err(|e| e.to_string()),
                    "gc" => archive.delete_bands(&[], &del(false), Arc::new(VoidMonitor)).await.map(|s| format!("{} block(s) deleted", s.deleted_block_count)).map_err(|e| e.to_string()),
                    "delete b0000 (dry run)" => archive.delete_bands(&[bid(0)], &del(true), Arc::new(VoidMonitor)).await.map(|_| "dry run done".to_string()).map_err(|e| e.to_string()),
                    "backup" => conserve::backup(&archive, &src, &opts(), Arc::new(VoidMonitor)).await.map(|_| "a new version".to_string()).map_err(|e| e.to_string()),
                    _ => {
                        let other = su!(Archive::open_path(&apath).await);
                        other.delete_bands(&[bid(0)], &del(false), Arc::new(VoidMonitor)).await.map(|s| format!("{} band(s), {} block(s) deleted", s.deleted_band_count, s.deleted_block_count)).map_err(|e| e.to_string())
                    }
                };
                settle().await;
                let after = tree_snapshot(&apath);
                if let Some(ch) = changes(&before, &after) {
                    return found(K, input, format!("{op} while GC_LOCK is held returned {result:?}; files of the archive: {ch}"),
                        "refused, and every file that was in the archive (the other holder's GC_LOCK included) is still there with the same bytes",
                        "an operation that was refused the gc lock (or must not run under it) removed or changed files that are not its own -- the lock of the other holder");
                }
                if op != "delete b0000 (dry run)" {
                    if let Ok(done) = result {
                        return found(K, input, format!("{op} while GC_LOCK is held succeeded: {done}"), "Err(GarbageCollectionLockHeld)", "an operation that must be excluded by the gc lock ran while the lock was held");
                    }
                }
            }
            // release: the holder's own lock file disappears, and delete works again
            let input = json!({"lock": lockkind, "operation": "release"});
            if skip(only, "operation", &input["operation"]) {
                continue;
            }
            match guard.take() {
                Some(g) => {
                    if let Err(e) = g.release().await {
                        return found(K, input, format!("release() failed: {e}"), "Ok", "the holder could not release its own gc lock (the file was removed by somebody else?)");
                    }
                }
                None => su!(std::fs::remove_file(&lock_path)),
            }
            if lock_path.exists() {
                return found(K, input, "GC_LOCK still exists after release".into(), "the lock file is gone", "releasing the gc lock leaves the lock file");
            }
            match archive.delete_bands(&[bid(0)], &DeleteOptions { dry_run: false, break_lock: false }, Arc::new(VoidMonitor)).await {
                Ok(s) if s.deleted_band_count == 1 && s.deleted_block_count >= 2 && s.deletion_errors == 0 => {}
                other => return found(K, input, format!("delete b0000 after the release: {:?}", other.map(|s| (s.deleted_band_count, s.deleted_block_count, s.deletion_errors)).map_err(|e| e.to_string())), "b0000, its block and the garbage block are deleted", "delete does not work after the gc lock was released"),
            }
            if !gone_within(&lock_path, 5000).await {
                return found(K, input, "GC_LOCK still exists 5 s after a completed delete".into(), "a delete removes its own lock file", "a completed delete leaves the archive locked");
            }
            let reopened = su!(Archive::open_path(&apath).await);
            if let Some(d) = restore_mismatch(&reopened, BandSelectionPolicy::LatestClosed, &tmp.path().join("dest"), &tree1).await? {
                return found(K, input, format!("after deleting b0000, b0001: {d}"), "the kept version restores exactly", "delete harmed the kept version");
            }
        }
        Ok(None)
    })
}

// ------------------------------------------------------------------------------------------------------------ C09
fn validate_sees_current_blocks(only: Option<&Value>) -> R {
    const K: &str = "validate_sees_current_blocks";
    let tmp = su!(tempfile::tempdir());
    let src = tmp.path().join("src");
    let opts = || BackupOptions { small_file_cap: 0, max_block_size: 4096, ..BackupOptions::default() };
    let rt = su!(tokio::runtime::Runtime::new());
    rt.block_on(async {
        put(&src, "alpha", &content("alpha", 400))?;
        put(&src, "beta", &content("beta", 9000))?;
        put(&src, "dir/gamma", &content("gamma", 50))?;
        pin_all(&src, 1_600_000_000, 0)?;
        // (1) damage seen through the SAME handle that made the backup (and that validated before)
        let base = tmp.path().join("base");
        {
            let a = su!(Archive::create_path(&base).await);
            su!(conserve::backup(&a, &src, &opts(), Arc::new(VoidMonitor)).await);
        }
        let blocks: Vec<String> = block_set(&base).into_iter().collect();
        if blocks.len() < 4 {
            return Err(format!("setup: expected at least 4 blocks, got {blocks:?}"));
        }
        for (warm, block) in [("backup", None), ("backup", Some(&blocks[0])), ("backup+validate", Some(&blocks[1])), ("validate", Some(&blocks[blocks.len() - 1])), ("backup+validate", Some(&blocks[2]))] {
            let scenario = format!("one handle ({warm}), then a referenced block file is deleted");
            let input = json!({"scenario": scenario, "block": block});
            if skip(only, "scenario", &input["scenario"]) || skip(only, "block", &input["block"]) {
                continue;
            }
            let work = tmp.path().join("work");
            let _ = std::fs::remove_dir_all(&work);
            let archive = if warm.starts_with("backup") {
                let a = su!(Archive::create_path(&work).await);
                su!(conserve::backup(&a, &src, &opts(), Arc::new(VoidMonitor)).await);
                a
            } else {
                su!(copy_dir(&base, &work));
                su!(Archive::open_path(&work).await)
            };
            if warm.ends_with("validate") || block.is_none() {
                for quick in [true, false] {
                    let errs = validation_errors(&archive, quick).await;
                    if !errs.is_empty() {
                        return found(K, input, format!("validate(skip_block_hashes: {quick}) of the undamaged archive reports: {}", errs.join("; ")), "silent", "a fault-free archive does not validate");
                    }
                }
            }
            let Some(block) = block else { continue };
            su!(std::fs::remove_file(work.join(block)));
            let hash = block.rsplit('/').next().unwrap_or_default().to_string();
            for quick in [true, false] {
                let errs = validation_errors(&archive, quick).await;
                if !errs.iter().any(|e| e.contains(&hash)) {
                    return found(K, input, format!("validate(skip_block_hashes: {quick}) through the handle that was already open reports {errs:?}"), &format!("an error that names the missing block {hash}"),
                        "a referenced block file was deleted and validation does not report it (it looked at a remembered list of blocks, not at the archive)");
                }
            }
        }
        // (2) a healthy archive changed through ANOTHER handle validates silently through the first
        for (scenario, validate_first) in [("handle A validates, handle B deletes b0000 and collects its blocks, A validates", true), ("handle A backs up twice, handle B deletes b0000 and collects its blocks, A validates", false),
            ("handle A validates, handle B backs up new content, A validates", true)] {
            let input = json!({"scenario": scenario, "block": null});
            if skip(only, "scenario", &input["scenario"]) {
                continue;
            }
            let work = tmp.path().join("work2");
            let _ = std::fs::remove_dir_all(&work);
            let src2 = tmp.path().join("src2");
            let _ = std::fs::remove_dir_all(&src2);
            put(&src2, "old", &content("old", 500))?;
            put(&src2, "keep", &content("keep", 600))?;
            pin_all(&src2, 1_600_000_000, 0)?;
            let a = su!(Archive::create_path(&work).await);
            su!(conserve::backup(&a, &src2, &opts(), Arc::new(VoidMonitor)).await);
            su!(std::fs::remove_file(src2.join("old")));
            pin_all(&src2, 1_600_000_100, 0)?;
            su!(conserve::backup(&a, &src2, &opts(), Arc::new(VoidMonitor)).await);
            if validate_first {
                for quick in [true, false] {
                    let errs = validation_errors(&a, quick).await;
                    if !errs.is_empty() {
                        return found(K, input, format!("first validate(skip_block_hashes: {quick}) reports: {}", errs.join("; ")), "silent", "a fault-free archive does not validate");
                    }
                }
            }
            let b = su!(Archive::open_path(&work).await);
            if scenario.contains("deletes") {
                let st = su!(b.delete_bands(&[bid(0)], &DeleteOptions { dry_run: false, break_lock: false }, Arc::new(VoidMonitor)).await);
                if st.deleted_block_count != 1 {
                    return Err(format!("setup: expected one block to be collected, got {}", st.deleted_block_count));
                }
            } else {
                put(&src2, "fresh", &content("fresh", 7000))?;
                pin_all(&src2, 1_600_000_200, 0)?;
                let st = su!(conserve::backup(&b, &src2, &opts(), Arc::new(VoidMonitor)).await);
                if st.written_blocks < 2 {
                    return Err("setup: the backup through handle B wrote no new blocks".into());
                }
            }
            drop(b);
            for quick in [true, false] {
                let errs = validation_errors(&a, quick).await;
                if !errs.is_empty() {
                    return found(K, input, format!("validate(skip_block_hashes: {quick}) through handle A reports: {}", errs.join("; ")), "silent: only fault-free operations were applied",
                        "a healthy archive does not validate through a handle that was opened before another handle changed the archive (a remembered list of blocks)");
                }
            }
            if let Some(d) = restore_mismatch(&a, BandSelectionPolicy::LatestClosed, &tmp.path().join("dest2"), &tree_snapshot(&src2)).await? {
                return found(K, input, format!("restore through handle A: {d}"), "the latest version restores exactly", "a healthy archive does not restore through a handle opened before the archive changed");
            }
        }
        Ok(None)
    })
}

// ------------------------------------------------------------------------------------------------------------ C14
fn unchanged_backup_writes_nothing(only: Option<&Value>) -> R {
    const K: &str = "unchanged_backup_writes_nothing";
    const N: usize = 320;
    let tmp = su!(tempfile::tempdir());
    let src = tmp.path().join("src");
    // every file above the small-file cap: one block per file, N distinct blocks
    let opts = || BackupOptions { small_file_cap: 0, max_entries_per_hunk: 50, ..BackupOptions::default() };
    for i in 0..N {
        put(&src, &format!("dir{:02}/file{i:03}", i % 7), format!("distinct content of file number {i}\n").as_bytes())?;
    }
    pin_all(&src, 1_600_000_000, 0)?;
    let rt = su!(tokio::runtime::Runtime::new());
    rt.block_on(async {
        let apath = tmp.path().join("archive");
        let archive = su!(Archive::create_path(&apath).await);
        let st = su!(conserve::backup(&archive, &src, &opts(), Arc::new(VoidMonitor)).await);
        if st.errors != 0 || st.written_blocks != N {
            return Err(format!("setup: first backup: {} errors, {} blocks written (expected {N})", st.errors, st.written_blocks));
        }
        drop(archive);
        let blocks = block_set(&apath);
        // the scenario must exercise every hex digit in the names of the block directories
        let dirs: BTreeSet<String> = blocks.iter().filter_map(|b| b.split('/').nth(1).map(|s| s.to_string())).collect();
        let digits: BTreeSet<char> = dirs.iter().flat_map(|d| d.chars()).collect();
        if blocks.len() != N || digits.len() != 16 || !"0123456789abcdef".chars().all(|c| digits.contains(&c)) || dirs.iter().any(|d| d.len() != 3) {
            return Err(format!("setup: {} blocks; the block directory names do not cover all hex digits: {digits:?}", blocks.len()));
        }
        let e0 = entries(&su!(Archive::open_path(&apath).await), BandSelectionPolicy::Specified(bid(0)), Apath::root(), TestMonitor::arc()).await?;
        if e0.len() != N + 8 {
            return Err(format!("setup: the first version lists {} entries", e0.len()));
        }
        for case in ["unchanged", "resumed"] {
            let input = json!({"case": case, "files": N, "block_directories": dirs.len()});
            if skip(only, "case", &input["case"]) {
                continue;
            }
            let work = tmp.path().join(format!("work_{case}"));
            su!(copy_dir(&apath, &work));
            if case == "resumed" {
                // the first backup was killed after its third hunk: later hunks and the tail never written; blocks all there
                su!(std::fs::remove_file(work.join("b0000/BANDTAIL")));
                let hd = work.join("b0000/i/00000");
                let n = su!(std::fs::read_dir(&hd)).count();
                if n < 5 {
                    return Err(format!("setup: only {n} hunks"));
                }
                for k in 3..n {
                    su!(std::fs::remove_file(hd.join(format!("{k:09}"))));
                }
            }
            // a later run of the program: the archive is opened afresh
            let archive = su!(Archive::open_path(&work).await);
            let m = TestMonitor::arc();
            let res = conserve::backup(&archive, &src, &opts(), m.clone()).await;
            let merrs = m.take_errors();
            let now = block_set(&work);
            let new_files: Vec<&String> = now.difference(&blocks).collect();
            let offending_dirs: BTreeSet<&str> = new_files.iter().filter_map(|b| b.split('/').nth(1)).collect();
            let what = if case == "unchanged" { "the second backup of the unchanged tree (archive reopened)" } else { "the backup resumed after an interruption (archive reopened)" };
            let st = match res {
                Ok(st) => st,
                Err(e) => return found(K, input, format!("{what} failed: {e}; {} error(s) reported{}", merrs.len(), merrs.first().map(|e| format!(", first: {e}")).unwrap_or_default()), "Ok, nothing written", "backing up a tree whose content is already stored fails"),
            };
            if st.written_blocks != 0 || st.replaced_damaged_blocks != 0 || st.errors != 0 || !merrs.is_empty() || now != blocks {
                return found(K, input, format!("{what}: written_blocks = {}, replaced_damaged_blocks = {}, errors = {} (+{} sent to the monitor{}), {} new file(s) under d/ (directories {offending_dirs:?})",
                    st.written_blocks, st.replaced_damaged_blocks, st.errors, merrs.len(), merrs.first().map(|e| format!(", first: {e}")).unwrap_or_default(), new_files.len()),
                    "written_blocks = 0, replaced_damaged_blocks = 0, no error, no new file under d/", "content that is already stored in the archive was stored (or attempted to be stored) again");
            }
            if case == "unchanged" && st.unmodified_files != N {
                return found(K, input, format!("{what}: unmodified_files = {}", st.unmodified_files), &format!("{N}"), "files of an unchanged tree are not recognised as unmodified");
            }
            let e1 = entries(&archive, BandSelectionPolicy::Specified(bid(1)), Apath::root(), TestMonitor::arc()).await?;
            if e1 != e0 {
                let differ: Vec<String> = e0.iter().zip(e1.iter()).filter(|(a, b)| a != b).take(3).map(|(a, _)| a.apath.to_string()).collect();
                return found(K, input, format!("{what}: {} entries against {}; first entries that differ: {differ:?}", e1.len(), e0.len()), "both versions record identical entries and addresses",
                    "a backup of an unchanged tree does not record the addresses of the earlier version");
            }
        }
        dated_unchanged(only, tmp.path()).await
    })
}

fn lmtime(p: &Path) -> Result<(i64, u32), String> {
    let md = su!(std::fs::symlink_metadata(p));
    let t = filetime::FileTime::from_last_modification_time(&md);
    Ok((t.unix_seconds(), t.nanoseconds()))
}

/// Case "dated" of `unchanged_backup_writes_nothing`: an untouched tree whose files carry unusual modification times.
async fn dated_unchanged(only: Option<&Value>, tmp: &Path) -> R {
    const K: &str = "unchanged_backup_writes_nothing";
    if skip(only, "case", &json!("dated")) {
        return Ok(None);
    }
    let y1901 = -2_147_400_000i64; // 1901-12-14, just above the 32-bit minimum
    let dates: Vec<(&str, i64, u32)> = vec![
        ("minus_1_5_s", -2, 500_000_000),
        ("minus_86400_25_s", -86_401, 750_000_000),
        ("minus_10_h_fraction", -36_000, 123_456_789),
        ("minus_1_ns", -1, 999_999_999),
        ("minus_1_s_plus_1_ns", -1, 1),
        ("y1901_fraction", y1901, 999_999_999),
        ("y1960_fraction", -315_619_200, 250_000_000),
        ("epoch", 0, 0),
        ("epoch_plus_1_ns", 0, 1),
        ("minus_1_s_whole", -1, 0),
        ("minus_10_h_whole", -36_000, 0),
        ("y1901_whole", y1901, 0),
        ("recent_fraction", 1_600_000_000, 123_456_789),
        ("y2100_whole", 4_102_444_800, 0),
        ("y2200_fraction", 7_258_118_400, 123),
    ];
    let src = tmp.join("dated_src");
    let opts = || BackupOptions { small_file_cap: 100, max_entries_per_hunk: 7, ..BackupOptions::default() };
    let mut want: BTreeMap<String, (i64, u32)> = BTreeMap::new();
    for (name, _, _) in &dates {
        put(&src, &format!("small_{name}"), &content(name, 20 + name.len()))?; // below the cap: combined blocks
        put(&src, &format!("big_{name}"), &content(name, 300 + name.len()))?; // above the cap: a block of its own
        put(&src, &format!("dir_{name}/inner"), &content(name, 150))?;
    }
    pin_all(&src, 1_600_000_000, 0)?;
    for (name, secs, nanos) in &dates {
        for rel in [format!("small_{name}"), format!("big_{name}"), format!("dir_{name}/inner"), format!("dir_{name}")] {
            su!(filetime::set_file_mtime(src.join(&rel), filetime::FileTime::from_unix_time(*secs, *nanos)));
            if lmtime(&src.join(&rel))? != (*secs, *nanos) {
                return Err(format!("setup: the filesystem does not keep mtime {secs}.{nanos:09} of {rel} (reads back {:?})", lmtime(&src.join(&rel))?));
            }
            want.insert(format!("/{rel}"), (*secs, *nanos));
        }
    }
    let nfiles = dates.len() * 3;
    let input = |path: Option<&String>, phase: &str| json!({"case": "dated", "phase": phase, "path": path, "source_mtime": path.and_then(|p| want.get(p)).map(|w| json!([w.0, w.1]))});
    let apath = tmp.join("dated_archive");
    {
        let archive = su!(Archive::create_path(&apath).await);
        let m = TestMonitor::arc();
        match conserve::backup(&archive, &src, &opts(), m.clone()).await {
            Ok(st) if st.errors == 0 && m.take_errors().is_empty() => {}
            other => return found(K, input(None, "first backup"), format!("{:?}", other.map(|s| s.errors).map_err(|e| e.to_string())), "Ok, no error", "backing up files with unusual (but legal) modification times failed or reported errors"),
        }
    }
    let blocks = block_set(&apath);
    let e0 = entries(&su!(Archive::open_path(&apath).await), BandSelectionPolicy::Specified(bid(0)), Apath::root(), TestMonitor::arc()).await?;
    for e in &e0 {
        let p = e.apath.to_string();
        if let Some(w) = want.get(&p) {
            if (e.mtime, e.mtime_nanos) != *w {
                return found(K, input(Some(&p), "index"), format!("recorded mtime of {p}: ({}, {})", e.mtime, e.mtime_nanos), &format!("{w:?} (seconds rounded down, nanoseconds 0..1e9)"), "the modification time recorded for an entry is not the source's");
            }
        }
    }
    for round in 1..=2u32 {
        // a later run of the program: the archive is opened afresh; nothing in the tree was touched
        let archive = su!(Archive::open_path(&apath).await);
        let changed: Arc<Mutex<Vec<String>>> = Arc::new(Mutex::new(Vec::new()));
        let c2 = changed.clone();
        let mut o = opts();
        o.change_callback = Some(Box::new(move |ch| {
            if !ch.change.is_unchanged() {
                c2.lock().unwrap().push(ch.to_string());
            }
            Ok(())
        }));
        let m = TestMonitor::arc();
        let res = conserve::backup(&archive, &src, &o, m.clone()).await;
        let merrs = m.take_errors();
        let changed = changed.lock().unwrap().clone();
        let now = block_set(&apath);
        let new_files: Vec<&String> = now.difference(&blocks).collect();
        let first_changed: Option<String> = changed.first().map(|c| c[2..].to_string());
        let phase = format!("backup {} of the untouched tree (archive reopened)", round + 1);
        let st = match res {
            Ok(st) => st,
            Err(e) => return found(K, input(None, &phase), format!("{phase} failed: {e}"), "Ok, nothing written", "backing up an untouched tree fails"),
        };
        if !changed.is_empty() || st.written_blocks != 0 || st.errors != 0 || !merrs.is_empty() || !new_files.is_empty() || st.unmodified_files != nfiles {
            return found(K, input(first_changed.as_ref(), &phase), format!("{phase}: reported as changed {changed:?}; written_blocks = {}, unmodified_files = {} of {nfiles}, errors = {} (+{}), {} new file(s) under d/", st.written_blocks, st.unmodified_files, st.errors, merrs.len(), new_files.len()),
                "every file reported unchanged, written_blocks = 0, no new file under d/", "a file whose modification time lies before 1970 with a fraction of a second (or at another unusual date) is taken for modified by every later backup and stored again");
        }
        let e1 = entries(&archive, BandSelectionPolicy::Specified(bid(round)), Apath::root(), TestMonitor::arc()).await?;
        if e1 != e0 {
            let differ: Vec<String> = e0.iter().zip(e1.iter()).filter(|(a, b)| a != b).take(3).map(|(a, _)| a.apath.to_string()).collect();
            return found(K, input(differ.first(), &phase), format!("{phase}: {} entries against {}; first entries that differ: {differ:?}", e1.len(), e0.len()), "identical entries and addresses", "a backup of an untouched tree does not record the entries of the earlier version");
        }
    }
    // restore puts the same times back
    let archive = su!(Archive::open_path(&apath).await);
    let dest = tmp.join("dated_dest");
    if let Some(d) = restore_mismatch(&archive, BandSelectionPolicy::LatestClosed, &dest, &tree_snapshot(&src)).await? {
        return found(K, input(None, "restore"), d, "the source tree", "a tree with unusual modification times does not restore exactly");
    }
    for (p, w) in &want {
        let g = lmtime(&dest.join(&p[1..]))?;
        if g != *w {
            return found(K, input(Some(p), "restore"), format!("restored mtime of {p}: {g:?}"), &format!("{w:?}"), "restore does not put back the modification time the source had");
        }
    }
    Ok(None)
}

// ------------------------------------------------------------------------------------------------------ C08 / C01
fn odd_source(root: &Path, version: u32) -> Result<(), String> {
    let long_file = "L".repeat(255);
    let long_dir = "D".repeat(255);
    let names: Vec<String> = vec![
        "a1".into(), "a2".into(), "a3".into(), "b1".into(), "b\t2".into(), "b3".into(), "new\nline".into(), "\u{1}ctl".into(), "del\u{7f}".into(), "esc\u{1b}[31m".into(), "-leading".into(), "--".into(), "sp ace".into(),
        " lead".into(), "trail ".into(), "back\\slash".into(), "st*r".into(), "qu?stion".into(), "[bracket]".into(), "{brace}".into(), "quote'\"".into(), "four\u{1F600}byte".into(), "combin\u{0301}ing".into(),
        "e\u{301}".into(), "\u{e9}".into(), "~tilde".into(), "#hash".into(), "$dollar".into(), "per%cent".into(), "z\u{85}nel".into(), long_file, "c1".into(), "c2".into(), "z2".into(), "z3".into(),
        // round 7: siblings whose names extend the name of one of the symlinks made below (they are not below the link)
        "ln\tk.x".into(), "-rfx".into(), "l \u{1F600}x".into(),
    ];
    let body = |n: &str| -> Vec<u8> {
        let mut b = content(n, 10 + n.len() % 40);
        if version > 0 {
            b.extend_from_slice(b" -- second version, longer");
        }
        b
    };
    for n in &names {
        put(root, n, &body(n))?;
    }
    for (d, f) in [("dir\twith tab", "in\nner"), ("dir\twith tab", "plain"), ("dir\nnl", "x"), (" ", " "), ("-d", "-f"), (long_dir.as_str(), "inside"), ("link\nnl.d", "in"), ("-rf.d", "deep")] {
        put(root, &format!("{d}/{f}"), &body(f))?;
    }
    su!(std::fs::create_dir_all(root.join("empty\u{1}dir")));
    if version == 0 {
        for (l, t) in [("ln\tk", "b\t2"), ("-rf", "target with\nnewline and \\ and *"), ("link\nnl", "dir\twith tab/in\nner"), ("l \u{1F600}", "four\u{1F600}byte")] {
            su!(symlink(t, root.join(l)));
        }
    } else {
        put(root, "z\t1", &body("z1"))?;
        put(root, "\u{2}early", &body("early"))?;
        su!(std::fs::remove_file(root.join("c1")));
    }
    pin_all(root, 1_600_000_000 + 100 * version as i64, 0)
}

fn sorted_paths(root: &Path) -> Vec<String> {
    let mut v: Vec<Apath> = tree_snapshot(root).into_keys().map(|p| Apath::from(p.as_str())).collect();
    v.push(Apath::root());
    v.sort();
    v.into_iter().map(String::from).collect() // the raw text of each apath
}

fn esize(e: &IndexEntry) -> u64 {
    e.addrs.iter().map(|a| a.len).sum()
}

fn odd_names_roundtrip(only: Option<&Value>) -> R {
    const K: &str = "odd_names_roundtrip";
    let tmp = su!(tempfile::tempdir());
    let src = tmp.path().join("src");
    odd_source(&src, 0)?;
    let tree0 = tree_snapshot(&src);
    let want0 = sorted_paths(&src);
    let sizes0: BTreeMap<String, u64> = tree0.iter().map(|(p, v)| (p.clone(), if matches!(v, Some(b) if !b.starts_with(b"-> ")) { v.as_ref().unwrap().len() as u64 } else { 0 })).collect();
    let options = |i: usize| match i {
        0 => BackupOptions::default(),
        1 => BackupOptions { max_entries_per_hunk: 1, ..BackupOptions::default() },
        _ => BackupOptions { max_entries_per_hunk: 3, small_file_cap: 0, ..BackupOptions::default() },
    };
    let rt = su!(tokio::runtime::Runtime::new());
    rt.block_on(async {
        for oi in 0..3usize {
            if only.map(|o| o.get("cut_after_hunks").is_some() || o.get("options").map(|v| v != &json!(oi)).unwrap_or(false)).unwrap_or(false) {
                continue;
            }
            let input = |phase: &str| json!({"options": oi, "phase": phase});
            let apath = tmp.path().join(format!("archive{oi}"));
            let archive = su!(Archive::create_path(&apath).await);
            let m = TestMonitor::arc();
            match conserve::backup(&archive, &src, &options(oi), m.clone()).await {
                Ok(st) if st.errors == 0 && m.take_errors().is_empty() => {}
                Ok(st) => return found(K, input("backup"), format!("backup reported {} error(s)", st.errors), "no error", "backing up a tree with unusual (but legal) file names reported errors"),
                Err(e) => return found(K, input("backup"), format!("backup failed: {e}"), "Ok", "backing up a tree with unusual (but legal) file names failed"),
            }
            let archive = su!(Archive::open_path(&apath).await);
            let m = TestMonitor::arc();
            let es = match entries(&archive, BandSelectionPolicy::Specified(bid(0)), Apath::root(), m.clone()).await {
                Ok(es) => es,
                Err(e) => return found(K, input("list"), format!("listing failed: {e}"), "a listing", "a version with unusual file names cannot be listed"),
            };
            // round 8: an apath prints as its raw text, control characters included (sets keyed on `to_string()` are looked
            // up with raw slices by the restore guard); everything below compares the RAW text
            if let Some(bad) = es.iter().find(|e| e.apath.to_string() != AsRef::<str>::as_ref(&e.apath) || format!("{}", e.apath) != String::from(e.apath.clone())) {
                return found(K, input("display"), format!("the apath whose text is {:?} prints as {:?}", AsRef::<str>::as_ref(&bad.apath), bad.apath.to_string()), "Display / to_string() of an apath is its raw text",
                    "the textual form of an apath with control characters differs from the path itself");
            }
            let got: Vec<String> = es.iter().map(|e| String::from(e.apath.clone())).collect();
            if got != want0 {
                let short = |p: &String| if p.len() > 60 { format!("{}.. ({} bytes)", p.chars().take(40).collect::<String>(), p.len()) } else { p.clone() };
                let missing: Vec<String> = want0.iter().filter(|p| !got.contains(p)).map(short).collect();
                let extra: Vec<&String> = got.iter().filter(|p| !want0.contains(p)).collect();
                let twice: Vec<&String> = got.iter().enumerate().filter(|(i, p)| got[..*i].contains(p)).map(|(_, p)| p).collect();
                return found(K, input("list"), format!("listing of the complete version: {} entries; missing {missing:?}; not in the source {extra:?}; listed twice {twice:?}", got.len()),
                    &format!("the {} source paths, each exactly once, in apath order", want0.len()), "listing a version does not yield all of its own entries (names with control or other unusual characters are lost, with their neighbours)");
            }
            if let Some(w) = es.windows(2).find(|w| w[0].apath >= w[1].apath) {
                return found(K, input("list"), format!("{:?} is listed before {:?}", w[0].apath.to_string(), w[1].apath.to_string()), "strictly increasing apaths", "a listing is not strictly ordered");
            }
            let lerrs = m.take_errors();
            if !lerrs.is_empty() {
                return found(K, input("list"), format!("listing reported: {}", lerrs[0]), "no error", "listing a fault-free version reported errors");
            }
            if let Some(bad) = es.iter().find(|e| esize(e) != sizes0.get(AsRef::<str>::as_ref(&e.apath)).copied().unwrap_or(0)) {
                return found(K, input("list"), format!("{:?} is recorded with {} bytes", bad.apath.to_string(), esize(bad)), "the size of the source file", "an entry with an unusual name records the wrong size");
            }
            if let Some(d) = restore_mismatch(&archive, BandSelectionPolicy::LatestClosed, &tmp.path().join("dest"), &tree0).await? {
                return found(K, input("restore"), d, "names, bytes and symlink targets as in the source", "a tree with unusual file names does not restore exactly");
            }
            for quick in [true, false] {
                let verrs = validation_errors(&archive, quick).await;
                if !verrs.is_empty() {
                    return found(K, input("validate"), format!("validate(skip_block_hashes: {quick}) reports: {}", verrs.join("; ")), "silent", "an archive made by fault-free backups of unusual file names does not validate");
                }
            }
        }
        // an interrupted second version (one entry per hunk), cut after every hunk
        if only.map(|o| o.get("options").is_some()).unwrap_or(false) {
            return Ok(None);
        }
        let apath = tmp.path().join("archive1");
        if !apath.exists() {
            let a = su!(Archive::create_path(&apath).await);
            su!(conserve::backup(&a, &src, &options(1), Arc::new(VoidMonitor)).await);
        }
        let v0: Vec<(String, u64)> = want0.iter().map(|p| (p.clone(), sizes0.get(p).copied().unwrap_or(0))).collect();
        odd_source(&src, 1)?;
        let tree1 = tree_snapshot(&src);
        let want1 = sorted_paths(&src);
        let v1: Vec<(String, u64)> = want1.iter().map(|p| (p.clone(), match tree1.get(p) { Some(Some(b)) if !b.starts_with(b"-> ") => b.len() as u64, _ => 0 })).collect();
        let archive = su!(Archive::open_path(&apath).await);
        let m = TestMonitor::arc();
        match conserve::backup(&archive, &src, &options(1), m.clone()).await {
            Ok(st) if st.errors == 0 && m.take_errors().is_empty() => {}
            other => return found(K, json!({"options": 1, "phase": "second backup"}), format!("{:?}", other.map(|s| s.errors).map_err(|e| e.to_string())), "Ok, no error", "the second backup of a tree with unusual file names failed or reported errors"),
        }
        drop(archive);
        let hd = apath.join("b0001/i/00000");
        let n = su!(std::fs::read_dir(&hd)).count();
        if n != v1.len() {
            return Err(format!("setup: {n} hunks for {} entries (expected one entry per hunk)", v1.len()));
        }
        su!(std::fs::remove_file(apath.join("b0001/BANDTAIL")));
        for k in (0..=n).rev() {
            if k < n {
                su!(std::fs::remove_file(hd.join(format!("{k:09}"))));
            }
            let input = json!({"cut_after_hunks": k, "hunks_of_the_complete_version": n});
            if skip(only, "cut_after_hunks", &input["cut_after_hunks"]) {
                continue;
            }
            let mut want: Vec<(String, u64)> = v1[..k].to_vec();
            let last: Option<Apath> = want.last().map(|p| Apath::from(p.0.as_str()));
            want.extend(v0.iter().filter(|p| last.as_ref().map(|l| Apath::from(p.0.as_str()) > *l).unwrap_or(true)).cloned());
            let archive = su!(Archive::open_path(&apath).await);
            let es = match entries(&archive, BandSelectionPolicy::Specified(bid(1)), Apath::root(), TestMonitor::arc()).await {
                Ok(es) => es,
                Err(e) => return found(K, input, format!("listing the interrupted version failed: {e}"), "a listing", "an interrupted version cannot be listed"),
            };
            let got: Vec<(String, u64)> = es.iter().map(|e| (String::from(e.apath.clone()), esize(e))).collect();
            if got != want {
                let first = got.iter().zip(want.iter()).position(|(a, b)| a != b).unwrap_or(got.len().min(want.len()));
                return found(K, input, format!("{} entries; first deviation at position {first}: listed {:?}, expected {:?}", got.len(), got.get(first), want.get(first)),
                    &format!("{} entries (path, size): the {k} entries of the interrupted version's own hunks, then the previous version's entries after the last of them", want.len()),
                    "the listing of an interrupted version is not: its own readable entries, then the previous version only for later paths (entries dropped, or stale entries of the previous version for paths the new one covers)");
            }
        }
        Ok(None)
    })
}
