//! Bounded stand-ins added after the eighth round of seeded defects (public API only; a bounded search proves nothing
//! when it finds nothing).  Setup failures are errors, never findings.
//!  * `stitch_after_root_only` (C03, C08): one entry per index hunk; version 0 complete; the ROOT directory's mode and
//!        mtime change (and a file's content); version 1 stops right after its FIRST hunk, which holds only `/`
//!        ("stop" = an error from the change callback, which runs between storage operations; or = the later hunks and
//!        the tail removed from a complete version).  Listing version 1 must hold every path exactly once: `/` as
//!        version 1 recorded it (new mode, new mtime), every other entry exactly as version 0 holds it; restoring version 1
//!        gives version 0's tree below a root directory with the NEW mode and mtime.  The same with the stop after the
//!        second hunk (`/`, `/a`).  Input {"stop": "..", "hunks": k}.
//!  * `kind_change_between_versions` (C13, C02): version 0 holds a non-empty file, a directory with a child, a symlink,
//!        an empty file, ...; in version 1 every one of them has another kind (file -> directory with a child, directory
//!        -> file, symlink -> directory, file -> symlink, empty file -> directory, symlink -> file, directory -> symlink,
//!        file -> empty file).  Through the index API: an entry that is not a File carries NO block address, a Symlink
//!        carries its target and nothing else does, the addresses of a File add up to its size, kinds are those of the
//!        source.  The same on the RAW hunk files (Snappy raw format decoded by hand + serde_json: `addrs` absent or empty
//!        and `target` absent unless the kind allows them; format.md: "addrs: for files only").  Both versions restore
//!        exactly; validate is silent; no block is unreferenced... is NOT required (not part of the property).
//!        Input {"options": i, "phase": ".."}.

use std::collections::BTreeMap;
use std::os::unix::fs::{symlink, MetadataExt, PermissionsExt};
use std::path::Path;
use std::sync::Arc;

use conserve::monitor::test::TestMonitor;
use conserve::monitor::void::VoidMonitor;
use conserve::{Apath, Archive, BackupOptions, BandSelectionPolicy, IndexEntry, Kind, RestoreOptions, UnixMode, ValidateOptions};
use filetime::FileTime;
use serde_json::{json, Value};

use super::w_round5::{bid, content, entries, found, pin_all, put, skip, snapshot_diff, tree_snapshot, R};

macro_rules! su {
    ($e:expr) => {
        $e.map_err(|e| format!("setup failed at line {}: {e:?}", line!()))?
    };
}

pub fn dispatch(mode: &str, kind: &str, input: Option<&Value>) -> Option<Value> {
    let f: fn(Option<&Value>) -> R = match (mode, kind) {
        ("search" | "replay", "stitch_after_root_only") => stitch_after_root_only,
        ("search" | "replay", "kind_change_between_versions") => kind_change_between_versions,
        _ => return None,
    };
    let only = if mode == "search" { None } else { input };
    let kind = kind.to_string();
    Some(match std::panic::catch_unwind(std::panic::AssertUnwindSafe(|| f(only))) {
        Ok(Ok(Some(v))) => v,
        Ok(Ok(None)) => json!({"found": false, "kind": kind}),
        Ok(Err(e)) => json!({"found": false, "kind": kind, "error": e}),
        Err(p) => {
            let msg = p.downcast_ref::<String>().cloned().or_else(|| p.downcast_ref::<&str>().map(|s| s.to_string())).unwrap_or_default();
            json!({"found": true, "kind": kind, "input": input.cloned().unwrap_or(json!({})), "real": format!("panic: {msg}"), "expected": "no panic",
                "explain": "a scenario built from public operations panicked"})
        }
    })
}

type Snapshot = BTreeMap<String, Option<Vec<u8>>>;

/// Restore one version into a fresh directory: Ok(None) when it restores exactly `want` without any error.
async fn restore_mismatch(archive: &Archive, policy: BandSelectionPolicy, dest: &Path, want: &Snapshot) -> Result<Option<String>, String> {
    let _ = std::fs::remove_dir_all(dest);
    let m = TestMonitor::arc();
    let r = conserve::restore(archive, dest, RestoreOptions { band_selection: policy, ..RestoreOptions::default() }, m.clone()).await;
    let errs = m.take_errors();
    if let Err(e) = r {
        return Ok(Some(format!("restore failed: {e}")));
    }
    if let Some(d) = snapshot_diff(&tree_snapshot(dest), want) {
        return Ok(Some(format!("restored tree differs: {d}; {} restore error(s){}", errs.len(), errs.first().map(|e| format!(" (first: {e})")).unwrap_or_default())));
    }
    if !errs.is_empty() {
        return Ok(Some(format!("restore reported {} error(s): {}", errs.len(), errs[0])));
    }
    Ok(None)
}

fn raw(a: &Apath) -> String {
    String::from(a.clone())
}

fn show(e: &IndexEntry) -> String {
    format!("{:?} {:?} mode {} mtime {}.{:09} {} addr(s) target {:?}", raw(&e.apath), e.kind, e.unix_mode, e.mtime, e.mtime_nanos, e.addrs.len(), e.target)
}

// ------------------------------------------------------------------------------------------------------ C03 / C08
fn stitch_after_root_only(only: Option<&Value>) -> R {
    const K: &str = "stitch_after_root_only";
    const T0: i64 = 1_600_000_000;
    const T1: i64 = 1_700_000_000;
    let tmp = su!(tempfile::tempdir());
    let rt = su!(tokio::runtime::Runtime::new());
    rt.block_on(async {
        let opts = || BackupOptions { max_entries_per_hunk: 1, ..BackupOptions::default() };
        for (ci, (stop, hunks)) in [("error from the change callback", 1usize), ("later hunks and tail removed", 1), ("later hunks and tail removed", 2)].into_iter().enumerate() {
            let input = json!({"stop": stop, "hunks": hunks});
            if skip(only, "stop", &input["stop"]) || skip(only, "hunks", &input["hunks"]) {
                continue;
            }
            let root = tmp.path().join(format!("case{ci}"));
            let src = root.join("src");
            put(&src, "a", b"old a")?;
            put(&src, "b", b"old b")?;
            put(&src, "d/e", b"old e, below a directory")?;
            put(&src, "z", b"old z")?;
            pin_all(&src, T0, 0)?;
            su!(std::fs::set_permissions(&src, std::fs::Permissions::from_mode(0o755)));
            su!(filetime::set_file_mtime(&src, FileTime::from_unix_time(T0, 0)));
            let apath = root.join("archive");
            let archive = su!(Archive::create_path(&apath).await);
            su!(conserve::backup(&archive, &src, &opts(), Arc::new(VoidMonitor)).await);
            let tree0 = tree_snapshot(&src);
            let e0 = entries(&archive, BandSelectionPolicy::Specified(bid(0)), Apath::root(), TestMonitor::arc()).await?;
            if e0.iter().map(|e| raw(&e.apath)).collect::<Vec<_>>() != ["/", "/a", "/b", "/d", "/z", "/d/e"] || e0[0].mtime != T0 || e0[0].unix_mode != UnixMode::from(0o755) {
                return Err(format!("setup failed: version 0 lists as {:?}", e0.iter().map(show).collect::<Vec<_>>()));
            }
            // the source changes: new content in /a, and the root directory gets another mode and mtime
            put(&src, "a", b"new content of a, longer than before")?;
            su!(filetime::set_file_mtime(src.join("a"), FileTime::from_unix_time(T1, 0)));
            su!(std::fs::set_permissions(&src, std::fs::Permissions::from_mode(0o750)));
            su!(filetime::set_file_mtime(&src, FileTime::from_unix_time(T1, 0)));
            let hd = apath.join("b0001/i/00000");
            let mut new_a: Option<IndexEntry> = None;
            if stop == "error from the change callback" {
                let o = BackupOptions { change_callback: Some(Box::new(|_c| Err(conserve::Error::NotAnArchive))), ..opts() };
                if conserve::backup(&archive, &src, &o, Arc::new(VoidMonitor)).await.is_ok() {
                    return Err("setup failed: the backup was meant to stop at the first change callback".into());
                }
            } else {
                su!(conserve::backup(&archive, &src, &opts(), Arc::new(VoidMonitor)).await);
                let e1 = entries(&archive, BandSelectionPolicy::Specified(bid(1)), Apath::root(), TestMonitor::arc()).await?;
                new_a = e1.iter().find(|e| e.apath == "/a").cloned();
                let n = su!(std::fs::read_dir(&hd)).count();
                if n != e1.len() || n != 6 {
                    return Err(format!("setup failed: {n} hunks for {} entries (expected one entry per hunk)", e1.len()));
                }
                for k in hunks..n {
                    su!(std::fs::remove_file(hd.join(format!("{k:09}"))));
                }
                su!(std::fs::remove_file(apath.join("b0001/BANDTAIL")));
            }
            drop(archive);
            let mut present: Vec<String> = su!(std::fs::read_dir(&hd)).flatten().map(|e| e.file_name().to_string_lossy().into_owned()).collect();
            present.sort();
            if present != (0..hunks).map(|k| format!("{k:09}")).collect::<Vec<_>>() || apath.join("b0001/BANDTAIL").exists() || !apath.join("b0001/BANDHEAD").exists() {
                return Err(format!("setup failed: the interrupted version holds the hunks {present:?} (expected the first {hunks}), tail present: {}", apath.join("b0001/BANDTAIL").exists()));
            }
            let archive = su!(Archive::open_path(&apath).await);
            let m = TestMonitor::arc();
            let got = match entries(&archive, BandSelectionPolicy::Specified(bid(1)), Apath::root(), m.clone()).await {
                Ok(es) => es,
                Err(e) => return found(K, input, format!("listing the interrupted version failed: {e}"), "a listing", "an interrupted version cannot be listed"),
            };
            // expected: `/` as version 1 recorded it; (`/a` of version 1 when two hunks were written); the rest from version 0
            let mut want: Vec<IndexEntry> = vec![IndexEntry { mtime: T1, unix_mode: UnixMode::from(0o750), ..e0[0].clone() }];
            if hunks == 2 {
                want.push(new_a.clone().ok_or("setup failed: /a is not in the complete second version")?);
            }
            want.extend(e0.iter().skip(hunks).cloned());
            if got != want {
                let twice: Vec<String> = got.iter().enumerate().filter(|(i, e)| got[..*i].iter().any(|f| f.apath == e.apath)).map(|(_, e)| raw(&e.apath)).collect();
                return found(K, input, format!("listing of the interrupted version: {:?}; listed twice: {twice:?}", got.iter().map(show).collect::<Vec<_>>()), &format!("{:?}", want.iter().map(show).collect::<Vec<_>>()),
                    "the listing of a version that stopped after its first hunk(s) is not: what it recorded itself (the root directory with its NEW metadata), then the previous version only for LATER paths, every path exactly once");
            }
            let errs = m.take_errors();
            if !errs.is_empty() {
                return found(K, input, format!("listing reported: {}", errs[0]), "no error", "listing an interrupted version of an undamaged archive reported errors");
            }
            // restore: version 0's tree (with the new /a when it was recorded) below a root with the new mode and mtime
            let mut want_tree = tree0.clone();
            if hunks == 2 {
                want_tree.insert("/a".into(), Some(b"new content of a, longer than before".to_vec()));
            }
            let dest = root.join("dest");
            if let Some(d) = restore_mismatch(&archive, BandSelectionPolicy::Specified(bid(1)), &dest, &want_tree).await? {
                return found(K, input, d, "the recorded entries of the interrupted version, the previous version's for later paths", "an interrupted version does not restore as it lists");
            }
            let md = su!(std::fs::metadata(&dest));
            let (mode, mtime) = (md.mode() & 0o7777, (md.mtime(), md.mtime_nsec()));
            if mode != 0o750 || mtime != (T1, 0) {
                return found(K, input, format!("restored root directory: mode {mode:o}, mtime {mtime:?}"), &format!("mode 750, mtime ({T1}, 0): what the interrupted version recorded for `/` (the previous version had mode 755, mtime {T0})"),
                    "the root directory of an interrupted version is restored with the PREVIOUS version's metadata (its entry is applied a second time from the older band)");
            }
            // the latest complete version is still version 0
            let dest0 = root.join("dest0");
            if let Some(d) = restore_mismatch(&archive, BandSelectionPolicy::LatestClosed, &dest0, &tree0).await? {
                return found(K, input, d, "version 0", "the latest complete version does not restore as version 0");
            }
            let md0 = su!(std::fs::metadata(&dest0));
            if md0.mode() & 0o7777 != 0o755 || md0.mtime() != T0 {
                return found(K, input, format!("root directory of the restored version 0: mode {:o}, mtime {}", md0.mode() & 0o7777, md0.mtime()), &format!("mode 755, mtime {T0}"), "the root directory of the complete version is restored with other metadata");
            }
        }
        Ok(None)
    })
}

// ------------------------------------------------------------------------------------------------------ C13 / C02
/// Decoder for the Snappy RAW format (google/snappy format_description.txt), written by hand: varint(uncompressed
/// length), then elements: literal (tag 00), copy with 1-byte offset (01), 2-byte offset (10), 4-byte offset (11).
fn unsnap(input: &[u8]) -> Result<Vec<u8>, String> {
    let mut i = 0usize;
    let (mut want, mut shift) = (0u64, 0u32);
    loop {
        let b = *input.get(i).ok_or("truncated length")?;
        i += 1;
        want |= u64::from(b & 0x7f) << shift;
        if b & 0x80 == 0 {
            break;
        }
        shift += 7;
        if shift > 35 {
            return Err("length varint too long".into());
        }
    }
    let mut out: Vec<u8> = Vec::with_capacity(want as usize);
    let le = |bytes: &[u8]| bytes.iter().rev().fold(0usize, |a, b| (a << 8) | *b as usize);
    while i < input.len() {
        let tag = input[i];
        i += 1;
        match tag & 3 {
            0 => {
                let mut len = (tag >> 2) as usize;
                if len >= 60 {
                    let nb = len - 59;
                    len = le(input.get(i..i + nb).ok_or("truncated literal length")?);
                    i += nb;
                }
                len += 1;
                out.extend_from_slice(input.get(i..i + len).ok_or("truncated literal")?);
                i += len;
            }
            t => {
                let (len, off) = match t {
                    1 => {
                        let o = ((tag as usize >> 5) << 8) | *input.get(i).ok_or("truncated copy")? as usize;
                        i += 1;
                        ((((tag >> 2) & 7) as usize) + 4, o)
                    }
                    2 => {
                        let o = le(input.get(i..i + 2).ok_or("truncated copy")?);
                        i += 2;
                        ((tag >> 2) as usize + 1, o)
                    }
                    _ => {
                        let o = le(input.get(i..i + 4).ok_or("truncated copy")?);
                        i += 4;
                        ((tag >> 2) as usize + 1, o)
                    }
                };
                if off == 0 || off > out.len() {
                    return Err(format!("copy offset {off} outside the {} bytes produced so far", out.len()));
                }
                for _ in 0..len {
                    out.push(out[out.len() - off]);
                }
            }
        }
    }
    if out.len() as u64 != want {
        return Err(format!("decoded {} bytes, header says {want}", out.len()));
    }
    Ok(out)
}

/// The JSON objects of every index hunk of one band, in hunk order, read from the raw files.
fn raw_index(apath: &Path, band: u32) -> Result<Vec<Value>, String> {
    let idir = apath.join(format!("b{band:04}/i"));
    let mut files = Vec::new();
    for d in su!(std::fs::read_dir(&idir)).flatten() {
        for f in su!(std::fs::read_dir(d.path())).flatten() {
            files.push(f.path());
        }
    }
    files.sort();
    let mut out = Vec::new();
    for f in files {
        let bytes = unsnap(&su!(std::fs::read(&f))).map_err(|e| format!("setup failed: {f:?} is not a raw Snappy stream this decoder understands: {e}"))?;
        let v: Value = su!(serde_json::from_slice(&bytes));
        out.extend(v.as_array().ok_or_else(|| format!("setup failed: {f:?} does not hold a JSON array"))?.iter().cloned());
    }
    Ok(out)
}

fn kind_change_between_versions(only: Option<&Value>) -> R {
    const K: &str = "kind_change_between_versions";
    let tmp = su!(tempfile::tempdir());
    let rt = su!(tokio::runtime::Runtime::new());
    rt.block_on(async {
        for oi in 0..3usize {
            if skip(only, "options", &json!(oi)) {
                continue;
            }
            let opts = || match oi {
                0 => BackupOptions::default(),
                1 => BackupOptions { max_entries_per_hunk: 1, ..BackupOptions::default() },
                _ => BackupOptions { max_entries_per_hunk: 3, small_file_cap: 0, max_block_size: 1024, ..BackupOptions::default() },
            };
            let input = |phase: &str| json!({"options": oi, "phase": phase});
            let root = tmp.path().join(format!("o{oi}"));
            let src = root.join("src");
            // ---- version 0
            put(&src, "notes", &content("notes", 46))?;                 // file -> directory with a child
            put(&src, "d1/child", &content("d1/child", 30))?;           // directory -> file
            su!(symlink("notes", src.join("l1")));                      // symlink -> directory with a child
            put(&src, "f2", &content("f2", 70))?;                       // file -> symlink
            put(&src, "empty", b"")?;                                   // empty file -> directory
            su!(symlink("d1", src.join("l2")));                         // symlink -> file
            put(&src, "d2/inner/deep", &content("deep", 12))?;          // directory -> symlink
            put(&src, "f3", &content("f3", 90))?;                       // file -> empty file
            put(&src, "big", &content("big", 5_000))?;              // several blocks; -> directory
            put(&src, "keep", &content("keep", 20))?;                   // unchanged
            put(&src, "keepdir/x", &content("x", 20))?;                 // unchanged
            pin_all(&src, 1_600_000_000, 0)?;
            let tree0 = tree_snapshot(&src);
            let apath = root.join("archive");
            let archive = su!(Archive::create_path(&apath).await);
            let m = TestMonitor::arc();
            let st = su!(conserve::backup(&archive, &src, &opts(), m.clone()).await);
            if st.errors != 0 || !m.take_errors().is_empty() {
                return Err("setup failed: the first backup reported errors".into());
            }
            // ---- version 1: every one of them changes its kind
            su!(std::fs::remove_file(src.join("notes")));
            put(&src, "notes/child", &content("notes/child", 25))?;
            su!(std::fs::remove_dir_all(src.join("d1")));
            put(&src, "d1", &content("d1 as a file", 33))?;
            su!(std::fs::remove_file(src.join("l1")));
            put(&src, "l1/inside", &content("l1/inside", 17))?;
            su!(std::fs::remove_file(src.join("f2")));
            su!(symlink("keep", src.join("f2")));
            su!(std::fs::remove_file(src.join("empty")));
            su!(std::fs::create_dir(src.join("empty")));
            su!(std::fs::remove_file(src.join("l2")));
            put(&src, "l2", &content("l2 as a file", 41))?;
            su!(std::fs::remove_dir_all(src.join("d2")));
            su!(symlink("keepdir", src.join("d2")));
            put(&src, "f3", b"")?;
            su!(std::fs::remove_file(src.join("big")));
            put(&src, "big/part", &content("big/part", 10))?;
            pin_all(&src, 1_600_000_100, 0)?;
            let tree1 = tree_snapshot(&src);
            let m = TestMonitor::arc();
            match conserve::backup(&archive, &src, &opts(), m.clone()).await {
                Ok(st) if st.errors == 0 && m.take_errors().is_empty() => {}
                other => return found(K, input("second backup"), format!("{:?}", other.map(|s| s.errors).map_err(|e| e.to_string())), "Ok, no error", "backing up a tree in which entries changed their kind failed or reported errors"),
            }
            drop(archive);
            let archive = su!(Archive::open_path(&apath).await);
            for (band, tree) in [(0u32, &tree0), (1, &tree1)] {
                let ph = |p: &str| input(&format!("b{band:04}: {p}"));
                // ---- through the index API
                let es = entries(&archive, BandSelectionPolicy::Specified(bid(band)), Apath::root(), TestMonitor::arc()).await?;
                let mut seen: Vec<String> = es.iter().map(|e| raw(&e.apath)).filter(|p| p != "/").collect();
                seen.sort();
                if seen != tree.keys().cloned().collect::<Vec<_>>() {
                    return found(K, ph("list"), format!("listed {seen:?}"), &format!("{:?}", tree.keys().collect::<Vec<_>>()), "a version does not list exactly the entries of its source");
                }
                for e in &es {
                    let p = raw(&e.apath);
                    let want_kind = match tree.get(&p) {
                        None | Some(None) => Kind::Dir,
                        Some(Some(b)) if b.starts_with(b"-> ") => Kind::Symlink,
                        Some(Some(_)) => Kind::File,
                    };
                    if e.kind != want_kind {
                        return found(K, ph("list"), show(e), &format!("kind {want_kind:?}"), "an entry is recorded with a kind the source entry does not have");
                    }
                    let total: u64 = e.addrs.iter().map(|a| a.len).sum();
                    match e.kind {
                        Kind::File => {
                            let size = tree[&p].as_ref().map(|b| b.len() as u64).unwrap_or(0);
                            if total != size || e.target.is_some() || e.addrs.iter().any(|a| a.len == 0) {
                                return found(K, ph("list"), format!("{}; the addresses add up to {total} bytes", show(e)), &format!("addresses adding up to the {size} bytes of the file, none empty, no target"),
                                    "a file entry does not carry exactly the addresses of its content");
                            }
                        }
                        Kind::Symlink => {
                            let want_target = String::from_utf8_lossy(&tree[&p].as_ref().unwrap()[3..]).into_owned();
                            if !e.addrs.is_empty() || e.target.as_deref() != Some(want_target.as_str()) {
                                return found(K, ph("list"), show(e), &format!("no address, target {want_target:?}"), "a symlink entry carries block addresses or not its target (format: addresses for files only)");
                            }
                        }
                        _ => {
                            if !e.addrs.is_empty() || e.target.is_some() {
                                return found(K, ph("list"), format!("{} ({} bytes addressed: {:?})", show(e), total, e.addrs.iter().map(|a| (a.hash.to_string(), a.start, a.len)).collect::<Vec<_>>()), "no address and no target",
                                    "a directory entry carries block addresses or a target: the index format allows addresses for files only (a path that was a file in the previous version keeps that version's addresses)");
                            }
                        }
                    }
                }
                // ---- the raw hunk files
                let objs = raw_index(&apath, band)?;
                if objs.len() != es.len() {
                    return Err(format!("setup failed: the raw hunks of b{band:04} hold {} objects, the listing {} entries", objs.len(), es.len()));
                }
                for o in &objs {
                    let kind = o["kind"].as_str().unwrap_or("?");
                    let has_addrs = o.get("addrs").map(|a| a.as_array().map(|v| !v.is_empty()).unwrap_or(true)).unwrap_or(false);
                    let has_target = o.get("target").map(|t| !t.is_null()).unwrap_or(false);
                    let bad = match kind {
                        "File" => has_target,
                        "Symlink" => has_addrs || !has_target,
                        "Dir" => has_addrs || has_target,
                        _ => true,
                    };
                    if bad {
                        return found(K, ph("raw hunk files"), o.to_string(), "kind File (addrs, no target), Dir (neither), Symlink (target, no addrs)",
                            "an index hunk on disk holds an entry whose fields do not fit its kind (format.md: addrs for files only, target for symlinks only)");
                    }
                }
                // ---- restore
                if let Some(d) = restore_mismatch(&archive, BandSelectionPolicy::Specified(bid(band)), &root.join(format!("dest{band}")), tree).await? {
                    return found(K, ph("restore"), d, "the source tree of that version", "a version of a history in which entries change their kind does not restore exactly");
                }
            }
            for skip_block_hashes in [true, false] {
                let m = TestMonitor::arc();
                let r = archive.validate(&ValidateOptions { skip_block_hashes }, m.clone()).await;
                let mut errs: Vec<String> = m.take_errors().iter().map(|e| e.to_string()).collect();
                if let Err(e) = r {
                    errs.push(format!("validate failed: {e}"));
                }
                if !errs.is_empty() {
                    return found(K, input("validate"), format!("validate(skip_block_hashes: {skip_block_hashes}) reports: {}", errs.join("; ")), "silent", "an archive made by fault-free backups does not validate");
                }
            }
        }
        Ok(None)
    })
}
