//! Replay for unit `blockdir`: `BlockDir::read_address` computes `start + len` on `usize` values decoded from an
//! index hunk.  The spec (blockdir.vu, C01.read_address_slice / C10 no-panic) says: an address with
//! `start + len > block length` (integer arithmetic) yields `Error::BlockTooShort`, never a crash.
//!
//! Public API only: make a one-file archive with `conserve::backup`, replace its only index hunk by one whose
//! file entry carries the chosen `(start, len)` (a valid Snappy stream made of literals, valid JSON), then run
//! `conserve::restore` and observe whether it panics.

use std::fs;
use std::panic::{catch_unwind, AssertUnwindSafe};
use std::path::{Path, PathBuf};
use std::sync::{Arc, Mutex};

use conserve::monitor::test::TestMonitor;
use conserve::{backup, restore, Archive, BackupOptions, RestoreOptions};
use serde_json::{json, Value};

const KIND: &str = "blockdir_read_address_overflow";
const CONTENT: &[u8] = b"hello world";

pub fn dispatch(mode: &str, kind: &str, input: Option<&Value>) -> Option<Value> {
    Some(match (mode, kind) {
        ("search", KIND) => search(),
        ("replay", KIND) => {
            let i = input?;
            run(i["start"].as_u64()?, i["len"].as_u64()?)
        }
        _ => return None,
    })
}

/// Executable transcription of the contract of `read_address` for a block of `blen` bytes.
fn expected(start: u64, len: u64, blen: usize) -> &'static str {
    if (start as u128) + (len as u128) > blen as u128 {
        "Err(BlockTooShort) reported for the file; no panic"
    } else {
        "Ok(slice)"
    }
}

fn search() -> Value {
    // candidates: sums that exceed usize::MAX, and controls that do not
    let cands: &[(u64, u64)] = &[
        (0, 5),
        (3, 100),
        (u64::MAX, 1),
        (u64::MAX - 5, 10),
        (1, u64::MAX),
        (1 << 63, 1 << 63),
    ];
    let mut tried = Vec::new();
    for &(s, l) in cands {
        let r = run(s, l);
        if r["found"].as_bool() == Some(true) {
            return r;
        }
        tried.push(json!({"start": s, "len": l, "real": r["real"]}));
    }
    json!({"found": false, "kind": KIND, "tried": tried})
}

/// Unframed Snappy stream consisting only of literal elements.
fn snappy_literals(data: &[u8]) -> Vec<u8> {
    let mut out = Vec::new();
    let mut n = data.len();
    loop {
        let b = (n & 0x7f) as u8;
        n >>= 7;
        if n == 0 {
            out.push(b);
            break;
        }
        out.push(b | 0x80);
    }
    for chunk in data.chunks(60) {
        out.push(((chunk.len() - 1) as u8) << 2);
        out.extend_from_slice(chunk);
    }
    out
}

fn first_file_under(dir: &Path) -> Option<PathBuf> {
    let mut ents: Vec<_> = fs::read_dir(dir).ok()?.flatten().collect();
    ents.sort_by_key(|e| e.file_name());
    for e in ents {
        let p = e.path();
        if p.is_dir() {
            if let Some(f) = first_file_under(&p) {
                return Some(f);
            }
        } else {
            return Some(p);
        }
    }
    None
}

fn run(start: u64, len: u64) -> Value {
    let tmp = tempfile::tempdir().expect("tempdir");
    let src = tmp.path().join("src");
    let arch = tmp.path().join("archive");
    let dest = tmp.path().join("dest");
    fs::create_dir(&src).unwrap();
    fs::write(src.join("f"), CONTENT).unwrap();
    let rt = tokio::runtime::Runtime::new().unwrap();
    rt.block_on(async {
        let archive = Archive::create_path(&arch).await.expect("create archive");
        backup(&archive, &src, &BackupOptions::default(), TestMonitor::arc())
            .await
            .expect("backup");
    });
    let block = first_file_under(&arch.join("d")).expect("a block file");
    let hash = block.file_name().unwrap().to_string_lossy().to_string();
    let hunk = arch.join("b0000").join("i").join("00000").join("000000000");
    assert!(hunk.is_file(), "index hunk not found at {hunk:?}");
    let entries = json!([
        {"apath": "/", "kind": "Dir", "mtime": 0, "unix_mode": 493},
        {"apath": "/f", "kind": "File", "mtime": 0, "unix_mode": 420,
         "addrs": [{"hash": hash, "start": start, "len": len}]}
    ]);
    fs::write(&hunk, snappy_literals(entries.to_string().as_bytes())).unwrap();

    let msg: Arc<Mutex<Option<String>>> = Arc::new(Mutex::new(None));
    let m2 = msg.clone();
    let old_hook = std::panic::take_hook();
    std::panic::set_hook(Box::new(move |info| {
        *m2.lock().unwrap() = Some(info.to_string());
    }));
    let monitor = TestMonitor::arc();
    let mon2 = monitor.clone();
    let outcome = catch_unwind(AssertUnwindSafe(|| {
        rt.block_on(async {
            let archive = Archive::open_path(&arch).await.expect("open archive");
            restore(&archive, &dest, RestoreOptions::default(), mon2).await
        })
    }));
    std::panic::set_hook(old_hook);
    let exp = expected(start, len, CONTENT.len());
    let (found, real) = match outcome {
        Err(_) => (
            true,
            format!("PANIC: {}", msg.lock().unwrap().clone().unwrap_or_default()),
        ),
        Ok(res) => {
            let errs: Vec<String> = monitor.take_errors().iter().map(|e| e.to_string()).collect();
            let restored = fs::read(dest.join("f")).ok();
            let real = format!(
                "restore returned {:?}; monitor errors {:?}; restored bytes {:?}",
                res.map_err(|e| e.to_string()),
                errs,
                restored.as_ref().map(|b| String::from_utf8_lossy(b).to_string())
            );
            // disagreement without a panic: spec says Ok(slice) but an error was reported, or the reverse
            let too_short = errs.iter().any(|e| e.contains("too short")) || real.contains("too short");
            let found = if exp.starts_with("Ok") { too_short } else { !too_short };
            (found, real)
        }
    };
    json!({
        "found": found,
        "kind": KIND,
        "input": {"start": start, "len": len},
        "real": real,
        "expected": exp,
        "explain": "index entry /f -> Address{hash: <the stored block of 11 bytes>, start, len}; \
                    restore() -> BlockDir::read_address computes `start + len` on usize"
    })
}
