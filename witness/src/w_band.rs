//! Native replay for unit band, through the PUBLIC API of the real crate only.
//!  * `band_version_string`: a real one-file backup is made (so `b0000/BANDHEAD` is what conserve wrote), then the
//!    `band_format_version` string inside BANDHEAD is replaced by the candidate (as a bit flip or other damage to that
//!    one file would) and `Band::open` is called.  Expected (C10): `Band::open` returns Ok or Err - it never panics.
//! Input: `{"version": "<string>"}`.

use std::sync::Arc;

use conserve::monitor::void::VoidMonitor;
use conserve::{Archive, BackupOptions, Band, BandId};
use serde_json::{json, Value};

pub fn dispatch(mode: &str, kind: &str, input: Option<&Value>) -> Option<Value> {
    Some(match (mode, kind) {
        ("search", "band_version_string") => search(),
        ("replay", "band_version_string") => replay(input?),
        _ => return None,
    })
}

/// "0.6.3" is what conserve writes; the others are single-bit flips of it and other plausible damage.
const VERSIONS: &[&str] = &["0.6.3", "23.2.0", "999.0.0", "0.6.s", "0.6/3", "0.6.3 ", "0.6", "", "0>6.3", "x"];

fn panic_text(e: Box<dyn std::any::Any + Send>) -> String {
    e.downcast_ref::<String>()
        .cloned()
        .or_else(|| e.downcast_ref::<&str>().map(|s| s.to_string()))
        .unwrap_or_else(|| "panic".to_string())
}

/// Ok("Ok") / Ok("Err: ..") when open returned, Err("PANIC: ..") when it panicked.
fn open_with_version(version: &str) -> Result<String, String> {
    let version = version.to_string();
    let h = std::thread::spawn(move || -> Result<String, String> {
        let src = tempfile::tempdir().map_err(|e| e.to_string())?;
        let arch = tempfile::tempdir().map_err(|e| e.to_string())?;
        std::fs::write(src.path().join("f"), b"content").map_err(|e| e.to_string())?;
        let rt = tokio::runtime::Runtime::new().map_err(|e| e.to_string())?;
        rt.block_on(async {
            let apath = arch.path().join("a");
            let archive = Archive::create_path(&apath).await.map_err(|e| format!("SKIP create: {e}"))?;
            conserve::backup(&archive, src.path(), &BackupOptions::default(), Arc::new(VoidMonitor))
                .await
                .map_err(|e| format!("SKIP backup: {e}"))?;
            let head_path = apath.join("b0000").join("BANDHEAD");
            let text = std::fs::read_to_string(&head_path).map_err(|e| format!("SKIP read head: {e}"))?;
            let mut head: Value = serde_json::from_str(&text).map_err(|e| format!("SKIP decode head: {e}"))?;
            head["band_format_version"] = json!(version);
            std::fs::write(&head_path, serde_json::to_string(&head).unwrap() + "\n").map_err(|e| e.to_string())?;
            Ok(match Band::open(&archive, BandId::zero()).await {
                Ok(_) => "Ok".to_string(),
                Err(e) => format!("Err: {e}"),
            })
        })
    });
    match h.join() {
        Ok(r) => r,
        Err(e) => Err(format!("PANIC: {}", panic_text(e))),
    }
}

fn report(version: &str) -> Value {
    match open_with_version(version) {
        Ok(outcome) => json!({"found": false, "kind": "band_version_string", "input": {"version": version}, "real": outcome}),
        Err(e) if e.starts_with("SKIP") => json!({"found": false, "kind": "band_version_string", "input": {"version": version}, "error": e}),
        Err(e) => json!({
            "found": true, "kind": "band_version_string", "input": {"version": version},
            "real": e, "expected": "Band::open returns Ok or Err(UnsupportedBandVersion), never panics",
            "explain": "BANDHEAD whose band_format_version is not a semantic version makes band_version_supported unwrap a parse error",
        }),
    }
}

fn search() -> Value {
    let mut last = json!({"found": false, "kind": "band_version_string"});
    for v in VERSIONS {
        let r = report(v);
        if r["found"] == json!(true) {
            return r;
        }
        last = r;
    }
    last
}

fn replay(input: &Value) -> Value {
    report(input["version"].as_str().unwrap_or(""))
}
