// Collects every src/w_*.rs module into one dispatch table so that units can add witness code
// without editing main.rs.
use std::{env, fs, path::Path};

fn main() {
    let src = Path::new(&env::var("CARGO_MANIFEST_DIR").unwrap()).join("src");
    let mut mods: Vec<String> = fs::read_dir(&src)
        .unwrap()
        .filter_map(|e| e.ok())
        .map(|e| e.file_name().to_string_lossy().into_owned())
        .filter(|n| n.starts_with("w_") && n.ends_with(".rs"))
        .map(|n| n.trim_end_matches(".rs").to_string())
        .collect();
    mods.sort();
    let mut out = String::new();
    for m in &mods {
        out.push_str(&format!("#[path = {:?}]\npub mod {m};\n", src.join(format!("{m}.rs"))));
    }
    out.push_str("pub fn dispatch(mode: &str, kind: &str, input: Option<&serde_json::Value>) -> Option<serde_json::Value> {\n");
    for m in &mods {
        out.push_str(&format!("    if let Some(v) = {m}::dispatch(mode, kind, input) {{ return Some(v); }}\n"));
    }
    out.push_str("    None\n}\n");
    fs::write(Path::new(&env::var("OUT_DIR").unwrap()).join("mods.rs"), out).unwrap();
    println!("cargo:rerun-if-changed=src");
}
