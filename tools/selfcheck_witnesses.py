#!/usr/bin/env python3
"""Every registered witness kind / driver command must report found:false on the UNCHANGED tree (a witness that
finds a 'counterexample' there is itself wrong and would raise false alarms).  Exit 0 iff all are clean."""
import glob, json, os, subprocess, sys, time
V = os.path.dirname(os.path.dirname(os.path.abspath(__file__)))
kinds, cmds = [], []
for p in sorted(glob.glob(os.path.join(V, 'units', '*.witness.json'))):
    for e in json.load(open(p)):
        if 'kind' in e and e['kind'] not in kinds: kinds.append(e['kind'])
        if 'cmd' in e and e['cmd'] not in cmds: cmds.append(e['cmd'])
sup = json.load(open(os.path.join(V, 'units', 'zz_supplement.json')))
for k, v in sup.items():
    if isinstance(v, dict):
        for t in ('quick', 'thorough'):
            for kk in v.get(t, []):
                if kk not in kinds: kinds.append(kk)
bad = 0
env = dict(os.environ, CARGO_NET_OFFLINE='true')
subprocess.run(['cargo', 'build', '--offline', '--quiet'], cwd=os.path.join(V, 'witness'), env=env)
for k in kinds:
    t0 = time.time()
    p = subprocess.run([os.path.join(V, 'witness', 'target', 'debug', 'witness'), 'search', k], stdout=subprocess.PIPE, stderr=subprocess.PIPE, timeout=1200)
    out = p.stdout.decode().strip().split('\n')[-1]
    try:
        r = json.loads(out)
    except ValueError:
        r = {'found': None, 'error': out[:200]}
    flag = 'OK ' if r.get('found') is False and not r.get('error') else ('ERR' if r.get('found') is False else 'BAD')
    if flag != 'OK ': bad += 1
    print('%s %-32s %5.1fs %s' % (flag, k, time.time() - t0, (r.get('error') or r.get('explain') or '')[:110] if flag != 'OK ' else ''))
for c in cmds:
    t0 = time.time()
    p = subprocess.run(c, stdout=subprocess.PIPE, stderr=subprocess.PIPE, timeout=1200, cwd=V)
    out = [l for l in p.stdout.decode().strip().split('\n') if l.startswith('{')]
    r = json.loads(out[-1]) if out else {'found': None}
    flag = 'OK ' if r.get('found') is False and not r.get('error') else 'BAD'
    if flag != 'OK ': bad += 1
    print('%s %-60s %5.1fs %s' % (flag, ' '.join(c[-2:]), time.time() - t0, r.get('status', r.get('error', ''))))
print('%d kinds, %d commands, %d not clean' % (len(kinds), len(cmds), bad))
sys.exit(1 if bad else 0)
