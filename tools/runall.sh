#!/bin/bash
# run every claimed check (quick) in parallel batches; print exit codes
cd /verif
ids=$(python3 -c "import json;print(' '.join(c['property_id'] for c in json.load(open('MANIFEST.json'))['checks']))")
mkdir -p /tmp/runall; : > /tmp/runall/summary
for p in $ids; do
  ( ./check $p --tier ${1:-quick} > /tmp/runall/$p.log 2>&1; echo "$p exit=$?" >> /tmp/runall/summary ) &
  while [ $(jobs -r | wc -l) -ge 4 ]; do sleep 1; done
done
wait
sort /tmp/runall/summary
