#!/bin/bash
# usage: try_seed_scratch.sh <seed id> [property ids...]
# Fully isolated trial of a seeded change: a scratch copy of the repository at HEAD with the patch applied
# (VERIF_REPO) and a private copy of the witness crate built against it (VERIF_WITNESS_DIR).  /repo is never touched,
# so several trials, benign batches and unit builders can run side by side.  Evidence/replays go to gen/scratch_*.
id=$1; shift
S=$(mktemp -d /tmp/ts_${id}.XXXX)
mkdir -p $S/repo && git -C /repo archive HEAD | tar -x -C $S/repo
( cd $S/repo && patch -p1 -s < /verif/seeded/$id/patch.diff ) || { echo "PATCH DOES NOT APPLY"; rm -rf $S; exit 3; }
rsync -a /verif/witness/ $S/witness/
sed -i "s#path = \"/repo\"#path = \"$S/repo\"#" $S/witness/Cargo.toml
find $S/repo/src -name '*.rs' -exec touch {} +
export VERIF_REPO=$S/repo VERIF_WITNESS_DIR=$S/witness CARGO_NET_OFFLINE=true
cd /verif
for p in "$@"; do
  ./check $p > $S/try_$p.log 2>&1; rc=$?
  echo "== $id $p exit=$rc"; grep -E '^(VIOLATION|FAILED OBLIGATION|UNDECIDED|KNOWN)' $S/try_$p.log | cut -c1-300 | head -8
done
rm -rf $S
