#!/bin/bash
# usage: reconfirm_seed.sh <seed id>  -- on a worktree of /repo HEAD: demo must FAIL with the patch and PASS without it
S=/verif/seeded/$1
W=/tmp/seedhead
if [ ! -d $W ]; then git -C /repo worktree add -q --detach $W HEAD || exit 2; fi
cd $W && git reset -q --hard && git checkout -q --detach $(git -C /repo rev-parse HEAD) && git clean -qfd tests/ 
export CARGO_NET_OFFLINE=true
cp $S/demo.rs tests/seed_demo.rs
cargo test --offline --test seed_demo > /tmp/reconf_without.log 2>&1; a=$?
git apply --3way $S/patch.diff 2>/dev/null || git apply $S/patch.diff || { echo "patch does not apply on HEAD"; exit 3; }
cargo test --offline --test seed_demo > /tmp/reconf_with.log 2>&1; b=$?
git reset -q --hard; rm -f tests/seed_demo.rs
echo "$1: demo_without_rc=$a demo_with_rc=$b  (want 0 / non-zero)"
grep -E '^test result' /tmp/reconf_without.log /tmp/reconf_with.log
