#!/usr/bin/env python3
"""usage: seed2mutant.py <seed id> <unit> <expect regex> [name]
Turns a single-file seeded patch into an entry of units/<unit>.mutants.json (from/to = the smallest differing region,
widened to whole lines and made unique), so that the mutation self-test keeps exercising it."""
import sys, os, json, subprocess, tempfile, shutil, re
seed, unit, expect = sys.argv[1:4]
name = sys.argv[4] if len(sys.argv) > 4 else 'seed_' + seed.replace('-', '_')
patch = '/verif/seeded/%s/patch.diff' % seed
files = re.findall(r'^\+\+\+ b/(\S+)', open(patch).read(), re.M)
assert len(files) == 1, files
f = files[0]
d = tempfile.mkdtemp(prefix='s2m_')
try:
    os.makedirs(os.path.join(d, os.path.dirname(f)))
    shutil.copy(os.path.join('/repo', f), os.path.join(d, f))
    subprocess.check_call(['patch', '-p1', '-s', '-d', d, '-i', patch])
    old = open(os.path.join('/repo', f)).read().split('\n')
    new = open(os.path.join(d, f)).read().split('\n')
finally:
    shutil.rmtree(d)
a = 0
while a < len(old) and a < len(new) and old[a] == new[a]:
    a += 1
b = 0
while b < len(old) - a and b < len(new) - a and old[len(old) - 1 - b] == new[len(new) - 1 - b]:
    b += 1
whole = '\n'.join(old)
while True:
    frm = '\n'.join(old[a:len(old) - b])
    to = '\n'.join(new[a:len(new) - b])
    if frm and whole.count(frm) == 1:
        break
    if a > 0:
        a -= 1
    elif b > 0:
        b -= 1
    else:
        raise SystemExit('cannot make the region unique')
p = '/verif/units/%s.mutants.json' % unit
ms = json.load(open(p)) if os.path.exists(p) else []
ms = [m for m in ms if m['name'] != name]
ms.append({'name': name, 'file': f, 'from': frm, 'to': to, 'expect': expect, 'origin': 'seeded/' + seed, 'props': [seed.split('-')[0]]})
json.dump(ms, open(p, 'w'), indent=1)
print('added', name, 'to', p, '(%d -> %d chars)' % (len(frm), len(to)))
