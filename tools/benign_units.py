#!/usr/bin/env python3
"""benign_units.py <dir under seeded/> [patch names..]  -- false-alarm test, unit level: every behaviour-preserving patch is applied
to a scratch copy of /repo HEAD and EVERY enabled unit is verified once against it (VERIF_REPO).  A labelled or built-in
failing obligation on such a tree would be a VIOLATION line of some check = a false alarm.  'error' (not posable) and
'undecided' are exit 2 territory and only counted."""
import glob, json, os, subprocess, sys, tempfile, shutil, concurrent.futures
V = '/verif'
d = sys.argv[1]
only = sys.argv[2:]
units = [l.strip() for l in open(V + '/units/ENABLED') if l.strip() and not l.startswith('#')]
known = [k['label'] for k in json.load(open(V + '/known_findings.json'))['findings'] if k.get('status') == 'known']
alarms = 0
for pf in sorted(glob.glob('%s/seeded/%s/p*.diff' % (V, d))):
    name = os.path.basename(pf)[:-5]
    if only and name not in only:
        continue
    S = tempfile.mkdtemp(prefix='bu_%s_' % name)
    try:
        os.makedirs(S + '/repo')
        subprocess.check_call('git -C /repo archive HEAD | tar -x -C %s/repo' % S, shell=True)
        if subprocess.call('patch -p1 -s -d %s/repo < %s' % (S, pf), shell=True) != 0:
            print('%s: does not apply' % name); continue
        env = dict(os.environ, VERIF_REPO=S + '/repo')
        def one(u):
            p = subprocess.run([sys.executable, V + '/check', '--unit-json', u, '--tag', '_bu'], stdout=subprocess.PIPE, stderr=subprocess.PIPE, env=env, timeout=1800)
            try:
                return u, json.loads(p.stdout.decode().strip().split('\n')[-1])
            except Exception as e:
                return u, {'status': 'crash', 'message': p.stderr.decode()[-300:], 'failures': []}
        with concurrent.futures.ThreadPoolExecutor(max_workers=8) as ex:
            res = list(ex.map(one, units))
        st = {}
        for u, r in res:
            st[r['status']] = st.get(r['status'], 0) + 1
            for f in r['failures']:
                if f['class'] in ('labelled', 'builtin') and not any(k in f.get('labels', []) for k in known):
                    alarms += 1
                    print('  FALSE ALARM %s: unit %s %s (%s)' % (name, u, f['obligation'], f['message'][:80]))
            if r['status'] not in ('ok', 'failed'):
                print('  %s: unit %s %s: %s' % (name, u, r['status'], r['message'][:160]))
        print('== %s: %s' % (name, st))
        sys.stdout.flush()
    finally:
        shutil.rmtree(S, ignore_errors=True)
        for g in glob.glob(V + '/gen/scratch_*'):
            pass
print('alarms: %d' % alarms)
sys.exit(1 if alarms else 0)
