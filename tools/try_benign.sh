#!/bin/bash
# Apply each benign (behaviour-preserving) patch to a SCRATCH copy of /repo/src (VERIF_REPO), run all checks,
# expect exit 0 or 2 (never 1: a VIOLATION on behaviour-preserving code would be a false alarm).
S=$(mktemp -d /tmp/benign_scratch.XXXX)
for d in /verif/seeded/${BENIGN_DIR:-benign}/p*.diff; do
  n=$(basename $d .diff)
  rm -rf $S/src; cp -r /repo/src $S/src
  (cd $S && patch -p1 -s < $d) || { echo "$n: does not apply"; continue; }
  rm -f /tmp/runall/summary
  VERIF_REPO=$S /verif/tools/runall.sh quick > /tmp/benign_$n.out 2>&1
  echo "== $n: $(sort /tmp/runall/summary | awk '{print $2}' | sort | uniq -c | tr '\n' ' ')"
  grep 'exit=1' /tmp/runall/summary
  for f in /tmp/runall/C*.log; do grep -h '^VIOLATION\|^UNDECIDED\|^FAILED' $f | cut -c1-240; done | sort | uniq | head -10
done
rm -rf $S
