#!/bin/bash
# usage: try_seed.sh <seed dir under /verif/seeded> [property ids...]   -- apply patch to /repo, run checks, undo
S=/verif/seeded/$1; shift
cd /repo || exit 2
git diff --quiet || { echo "repo dirty"; exit 2; }
git apply --3way "$S/patch.diff" 2>/tmp/apply.err || git apply "$S/patch.diff" || { echo "PATCH DOES NOT APPLY"; cat /tmp/apply.err; git checkout -- .; exit 3; }
cd /verif
# evidence written while a seed is applied must never be committed: keep the clean-tree files aside
EV=$(mktemp -d /tmp/ev_keep.XXXX); cp -a /verif/evidence/. $EV/
for p in "$@"; do
  ./check $p > /tmp/try_$p.log 2>&1; rc=$?
  echo "== $p exit=$rc"; grep -E '^(VIOLATION|FAILED OBLIGATION|UNDECIDED|KNOWN)' /tmp/try_$p.log | cut -c1-300 | head -8
done
cp -a $EV/. /verif/evidence/; rm -rf $EV
git -C /repo reset -q --hard HEAD; git -C /repo status --short | head -3
