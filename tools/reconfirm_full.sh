#!/bin/bash
# usage: reconfirm_full.sh <seed id>...  -- on a scratch worktree of /repo HEAD: demo passes without the patch, fails with it,
# and the existing suite (demo moved aside) still passes with it (only the known root failure backup::test::source_unreadable).
W=/tmp/seedhead
if [ ! -d $W ]; then git -C /repo worktree add -q --detach $W HEAD || exit 2; fi
export CARGO_NET_OFFLINE=true
for id in "$@"; do
  S=/verif/seeded/$id
  cd $W && git reset -q --hard && git checkout -q --detach $(git -C /repo rev-parse HEAD) && git clean -qfd tests/
  cp $S/demo.rs tests/seed_demo.rs
  timeout 1800 cargo test --offline --test seed_demo > /tmp/reconf_without.log 2>&1; a=$?
  git apply $S/patch.diff || { echo "$id: patch does not apply on HEAD"; continue; }
  timeout 1800 cargo test --offline --test seed_demo > /tmp/reconf_with.log 2>&1; b=$?
  rm -f tests/seed_demo.rs
  timeout 3000 cargo test --offline --workspace --no-fail-fast > /tmp/reconf_suite.log 2>&1
  fails=$(grep -E '^test .* FAILED$' /tmp/reconf_suite.log | grep -v 'backup::test::source_unreadable' | tr '\n' ' ')
  npass=$(grep -E '^test result' /tmp/reconf_suite.log | awk '{s+=$4} END {print s}')
  echo "$id: demo_without_rc=$a demo_with_rc=$b suite_passed=$npass other_failures=[${fails}]"
  git reset -q --hard
done
