#!/usr/bin/env python3
"""mkpins.py [--write]  -- text pins for conserve functions whose contract the units only ASSUME and which are not
extracted (so no verified text changes when they change).  units/pins.json records, per function, the sha256 of its
comment-free, white-space-normalised text on the tree the assumed contract was written for, and which units rely on it.
vfw/run.py compares on every run: when the text differs, every function block of those units that calls it is "not posable"
(exit 2 + bounded fallback), instead of being reported as proved against a contract nobody re-examined.
--write regenerates the hashes from /repo's current tree (do this only after re-reading the changed function against its shim)."""
import hashlib, json, os, re, sys
sys.path.insert(0, os.path.dirname(os.path.dirname(os.path.abspath(__file__))))
from vfw import extract, rustlex

T = ['band', 'blockdir', 'gc', 'hunkiter', 'indexwriter', 'jsonio', 'select', 'validate', 'bandinfo', 'readhunk', 'stitch', 'backupwriter']
TR = 'impl Transport'
LP = 'impl super::Protocol for Protocol'
PINS = [
    # (file, scope, fn, units, call regex inside the generated fn blocks, why)
    # The functions that used to be pinned here (entry_from_fs_metadata, subdirs, BlockDir::open, Archive::block_dir,
    # Compressor/Decompressor, SourceTree::{iter_entries, open_file}, Apath::below, the Transport dispatchers and the local
    # back end's read/list_dir/metadata/remove_*/chdir) are now EXTRACTED and proved in units sourcemeta, blockopen and
    # localread, with LINK wrappers to the callers' shims: a change there is judged by their own labelled clauses.
    ('src/excludes.rs', 'impl Exclude', 'from_strings', ['exclude'], r'fn from_patterns_and_files', 'a one-line delegation to from_patterns_and_files that hands the caller\'s patterns over UNCHANGED (C15; seed C15-5 trimmed them there)'),
    ('src/owner/unix.rs', 'impl From<&fs::Metadata> for Owner', 'from', ['sourcemeta'], r'Owner::from\(', 'the owner of an entry is (user_name(uid), group_name(gid)) looked up for THAT entry, no state carried from the previous one (C01, C18; seeds C01-5/C18-5 memoised by uid only)'),
    ('src/excludes.rs', '-', 'add_patterns_from_file', ['exclude'], r'add_patterns_from_file\(', 'every non-blank, non-comment line of an exclude file becomes a pattern through add_pattern (C15)'),
    ('src/blockdir.rs', 'impl BlockDir', 'validate', ['validate'], r'block_dir\b[^;]*\.validate\(|\.validate\(monitor', 'full validation reads and hashes every stored block and returns their lengths (C09)'),
    ('src/blockdir.rs', 'impl BlockDir', 'compressed_size', ['validate', 'gc'], r'compressed_size\(', 'stat of the block file (C09: present-but-unread blocks in quick validation)'),
    ('src/archive.rs', 'impl Archive', 'validate_archive_dir', ['validate'], r'validate_archive_dir\(', 'reports unexpected entries of the archive root (C09)'),
    # Archive::iter_entries is extracted and proved in unit bandinfo (archive_listing_* clauses): pin retired.
    ('src/diff.rs', '-', 'diff', ['merge'], r'fn next', 'builds the merge of the stored tree (Specified/LatestClosed policy) and the source walk with the caller\'s exclusions (C18)'),
    ('src/gc_lock.rs', 'impl Drop for GarbageCollectionLock', 'drop', ['gc'], r'GarbageCollectionLock|\block\b', 'the lock file is removed only by the lock that created it (C07, C05)'),
]


def fn_text_hash(relfile, scope, fn):
    sf = extract.SourceFile.get(relfile)
    item = sf.find_fn(scope, fn)
    txt = item['sig'] + item['body']
    mask = rustlex.code_mask(txt)
    code = ''.join(c if m else ' ' for c, m in zip(txt, mask)) if any(not m for m in mask) else txt
    # code_mask masks comments AND string contents; keep strings (they matter), drop only comments
    out, i, n = [], 0, len(txt)
    while i < n:
        if txt.startswith('//', i) and mask_is_comment(txt, mask, i):
            j = txt.find('\n', i)
            i = n if j < 0 else j
        else:
            out.append(txt[i]); i += 1
    norm = re.sub(r'\s+', ' ', ''.join(out)).strip()
    return hashlib.sha256(norm.encode()).hexdigest()[:20], norm


def mask_is_comment(txt, mask, i):
    # `//` inside a string literal is masked too, but then the preceding quote is on the same line before it
    line_start = txt.rfind('\n', 0, i) + 1
    return txt[line_start:i].count('"') % 2 == 0


def current():
    out = []
    for (f, scope, fn, units, call_re, why) in PINS:
        try:
            h, _ = fn_text_hash(f, scope, fn)
        except Exception as e:
            h = 'LOST: %s' % e
        out.append({'file': f, 'scope': scope, 'fn': fn, 'sha': h, 'units': units, 'call_re': call_re, 'why': why})
    return out


if __name__ == '__main__':
    cur = current()
    p = os.path.join(extract.VERIF, 'units', 'pins.json')
    if '--write' in sys.argv:
        json.dump({'comment': __doc__.split('\n\n')[0] if False else 'text pins of assumed, unextracted functions (tools/mkpins.py)', 'pins': cur}, open(p, 'w'), indent=1)
        print('wrote %d pins' % len(cur))
    else:
        old = {(e['file'], e['scope'], e['fn']): e['sha'] for e in json.load(open(p))['pins']} if os.path.exists(p) else {}
        for e in cur:
            k = (e['file'], e['scope'], e['fn'])
            print('%-28s %-40s %-24s %s %s' % (e['file'], e['scope'], e['fn'], e['sha'], '' if old.get(k) == e['sha'] else '  <-- differs from pins.json'))
