#!/usr/bin/env python3
"""Regenerates /verif/MANIFEST.json from the table below (kept in one place so it is always valid)."""
import json
import os

VERIF = os.path.dirname(os.path.dirname(os.path.abspath(__file__)))
TABLE = json.load(open(os.path.join(VERIF, 'tools', 'claims.json')))

checks = []
for c in TABLE['claims']:
    pid = c['id']
    checks.append({
        'property_id': pid,
        'quick_cmd': './check %s --tier quick' % pid,
        'thorough_cmd': './check %s --tier thorough' % pid,
        'evidence_file': '/verif/evidence/%s.json' % pid,
        'replay_cmd_template': './check --replay {path}',
        'engine': 'verus-contracts',
        'level_claimed': {'category': 'proof', 'text': c['text'], 'design_ref': c.get('design_ref', 'DESIGN.md section 7 ' + pid)},
        'level_note': c['note'],
        'technique': c.get('technique', 'contract-based deductive verification (Verus/Z3) of the real functions, extracted mechanically from /repo on every run; decided by every tagged obligation being discharged. Bounded native witness searches on the real crate run alongside as labelled stand-ins (they can only add a violation with a concrete input, never count as proof)'),
    })
m = {
    'version': 1,
    'setup_cmd': './setup.sh',
    'hooks': {
        'guard': 'conserve_verif',
        'enable': 'none needed: contracts are spliced onto source text extracted from /repo/src at run time; witness replay uses the public API',
        'baseline_off_cmd': 'cd /repo && cargo test --workspace --no-fail-fast --offline',
        'source_commits': [],
        'add_only': True,
    },
    'engines': [
        {'name': 'verus-contracts', 'path': '/verif/check',
         'serves_properties': [c['id'] for c in TABLE['claims']],
         'kind_free_text': 'Verus 0.2026.09.13 on functions cut out of /repo/src each run (extractor vfw/extract.py, templates units/*.vu); Kani loop-free harnesses for integer kernels; native witness crate (public API of the real crate) for replay, fallback and bounded supplements; mutation self-test in the thorough tier'},
    ],
    'checks': checks,
    'notes': TABLE.get('notes', ''),
    'not_applicable': TABLE['not_applicable'],
}
json.dump(m, open(os.path.join(VERIF, 'MANIFEST.json'), 'w'), indent=1)
print('wrote MANIFEST.json with %d checks, %d not_applicable' % (len(checks), len(m['not_applicable'])))
