#!/bin/bash
# usage: confirm_seed.sh <worktree>   -- re-confirms a seeded change: suite passes with it, demo fails with it, demo passes without it
set -u
W="$1"; cd "$W" || exit 2
L="$W/_seed/confirm.log"; : > "$L"
export CARGO_NET_OFFLINE=true
git apply --check -R _seed/patch.diff 2>/dev/null || { echo "patch not applied in worktree; applying" >> "$L"; git apply _seed/patch.diff || exit 2; }
[ -f tests/seed_demo.rs ] || cp _seed/demo.rs tests/seed_demo.rs
echo "== demo WITH change" >> "$L"
cargo test --offline --test seed_demo >> "$L" 2>&1; echo "demo_with_rc=$?" >> "$L"
echo "== suite WITH change (demo moved aside)" >> "$L"
mv tests/seed_demo.rs /tmp/seed_demo_$$.rs
cargo test --offline --workspace --no-fail-fast 2>&1 | grep -E '^test result|FAILED|failed|panicked' >> "$L"; 
mv /tmp/seed_demo_$$.rs tests/seed_demo.rs
echo "== demo WITHOUT change" >> "$L"
git apply -R _seed/patch.diff
cargo test --offline --test seed_demo >> "$L" 2>&1; echo "demo_without_rc=$?" >> "$L"
git apply _seed/patch.diff
grep -E 'demo_with_rc|demo_without_rc|^test result' "$L"
