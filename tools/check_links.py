#!/usr/bin/env python3
"""check_links.py -- keep the hand-restated cross-unit shims and the machine-checked LINK wrappers in step.

A unit A that calls a function proved in unit B through a HAND-RESTATED shim (`#[verifier::external_body] fn f(..)
ensures <assumed>` in A's prelude) assumes those clauses.  For every such shim, B's template carries a wrapper
`link_<A>_<f>` whose `ensures` is the assumed text and whose body only calls the real f: Verus checks it against
f's PROVED header when `./check --unit B` runs ("proved contract ==> assumed contract").

This tool closes the remaining hole: it compares, for every entry of units/links.json,

  kind "wrapper":  the requires/ensures CLAUSES of the shim (prelude file of the caller) with the clauses of the
                   wrapper (unit file of the callee).  Clauses are compared as multisets after removing comments,
                   labels and white space, and after applying the explicit textual substitutions of the entry
                   (`subst`: applied to the SHIM text; only type/name renames that the two type universes force).
                   ensures: must be equal.
                   requires: wrapper.requires == shim.requires + entry["extra_requires"] + entry["bridge_requires"]
                   (extra_requires: preconditions of the callee's PROVED header that the caller's shim does NOT state;
                   bridge_requires: a representation invariant the bridge definitions need; each is a documented gap).
                   unchecked_ensures: assumed clauses of the shim that the wrapper does NOT carry (not provable from
                   the callee's header; listed in doc/UNCHECKED_LINKS.md): shim.ensures == wrapper.ensures + these.
  kind "textcopy": spec-level items (spec fn / proof fn / uninterp) that were copied from one file to another
                   (bridges, "copied from X (text unchanged)"): the whole item text must be equal (after `subst`).
  kind "header":   a hand-restated shim header against a header that is PROVED in a `//@@ fn` block of another unit:
                   every shim clause must occur textually among the proved clauses (after `subst`), requires must be equal
                   or listed in extra_requires.  (Textual implication: assumed subset-of proved.)
  status "unchecked": printed, never compared (see doc/UNCHECKED_LINKS.md).

It also checks that every wrapper carries a `//# LINK.<caller>.<fn>` label and that the link's callee unit file
really contains a call of the real function in the wrapper body.

Exit 0 iff every comparison agrees.   Usage: tools/check_links.py [-v] [--only ID-substring]
                                             tools/check_links.py --verify [unit ..]    (Verus on the callee units: all link_*/bridge_* fns verified?)
                                             tools/check_links.py --vacuity [unit ..]   (`ensures false` added to every wrapper must be refuted)
"""
import json
import os
import re
import sys

VERIF = os.path.dirname(os.path.dirname(os.path.abspath(__file__)))

OPERATOR_TAILS = ('==>', '&&', '||', '==', '=', '<==', '<==>', '!', '(', '+', '-', '*', '&&&', '|||', '=>', '!=',
                  '<=', '>=', 'implies')


class LinkError(Exception):
    pass


def strip_comments(text):
    """Remove // comments (incl. //# labels) and /* */ comments; keep string literals."""
    out = []
    i, n = 0, len(text)
    while i < n:
        c = text[i]
        if c == '"':
            j = i + 1
            while j < n and text[j] != '"' and text[j] != '\n':      # a literal never spans lines in these files
                j += 2 if text[j] == '\\' else 1
            if j < n and text[j] == '\n':
                out.append(text[i:j])
                i = j
                continue
            out.append(text[i:j + 1])
            i = j + 1
        elif text.startswith('//', i):
            j = text.find('\n', i)
            if j < 0:
                j = n
            i = j
        elif text.startswith('/*', i):
            j = text.find('*/', i + 2)
            i = n if j < 0 else j + 2
            out.append(' ')
        else:
            out.append(c)
            i += 1
    return ''.join(out)


def norm(s):
    s = re.sub(r'\s+', ' ', s).strip()
    s = re.sub(r'\s*([(){}\[\],;:|<>=!&+\-*/.@#])\s*', r'\1', s)
    return s.rstrip(',')


def find_item(text, fn, occ=1, after=None):
    """Start offset of the occ-th `fn <fn>` (word-exact) after the first line containing `after`."""
    base = 0
    if after:
        base = text.find(after)
        if base < 0:
            raise LinkError('anchor `%s` not found' % after)
    k = 0
    kw, name = (fn.split(' ', 1) if ' ' in fn else ('fn', fn))     # "enum DocKind", "trait JsonDoc", "const X"
    for m in re.finditer(r'\b%s\s+%s\b' % (re.escape(kw), re.escape(name)), text[base:]):
        # skip matches inside comments
        ls = text.rfind('\n', 0, base + m.start()) + 1
        if '//' in text[ls:base + m.start()]:
            continue
        k += 1
        if k == occ:
            return base + m.start()
    raise LinkError('fn %s (occurrence %d) not found' % (fn, occ))


def scan_header(text, start):
    """text: comment-free.  Returns (header_text, body_text or None, end).  The header ends at the body-opening
    brace, at `;` (uninterp / trait decl) or at the end of the text (a `//@ header` section)."""
    depth = 0
    pending = 0      # `if` / `match` / `else` seen at depth 0 whose block has not been opened yet
    i, n = start, len(text)
    angle = 0
    while i < n:
        c = text[i]
        if c == '"':
            j = i + 1
            while j < n and text[j] != '"':
                j += 2 if text[j] == '\\' else 1
            i = j + 1
            continue
        if depth == 0:
            m = re.match(r'\b(if|match|else)\b', text[i:i + 6]) if (i == 0 or not (text[i - 1].isalnum() or text[i - 1] == '_')) else None
            if m:
                if m.group(1) == 'else':
                    # `else {` opens a block; `else if` is counted by the `if`
                    rest = text[i + 4:].lstrip()
                    if rest.startswith('{'):
                        pending += 1
                else:
                    pending += 1
                i += len(m.group(1))
                continue
        if c in '([':
            depth += 1
        elif c in ')]':
            depth -= 1
        elif c == '{':
            if depth == 0:
                prev = text[start:i].rstrip()
                if prev.endswith(OPERATOR_TAILS) and not prev.endswith(('->', ')', '-> !')):
                    is_body = False
                elif pending > 0:
                    pending -= 1
                    is_body = False
                else:
                    is_body = True
                if is_body:
                    # body: balanced braces
                    d, j = 0, i
                    while j < n:
                        if text[j] == '"':
                            k = j + 1
                            while k < n and text[k] != '"':
                                k += 2 if text[k] == '\\' else 1
                            j = k + 1
                            continue
                        if text[j] == '{':
                            d += 1
                        elif text[j] == '}':
                            d -= 1
                            if d == 0:
                                return text[start:i], text[i:j + 1], j + 1
                        j += 1
                    raise LinkError('unbalanced body')
            depth += 1
        elif c == '}':
            depth -= 1
            if depth < 0:
                return text[start:i], None, i
        elif c == ';' and depth == 0:
            return text[start:i], None, i + 1
        i += 1
    return text[start:], None, n


def split_sections(header):
    """signature, {'requires': [...], 'ensures': [...], 'decreases': [...], 'recommends': [...]} (normalised clauses)."""
    keys = ('requires', 'ensures', 'decreases', 'recommends')
    depth = 0
    marks = []
    i, n = 0, len(header)
    while i < n:
        c = header[i]
        if c in '([{':
            depth += 1
        elif c in ')]}':
            depth -= 1
        elif depth == 0 and (c.isalpha()) and (i == 0 or not (header[i - 1].isalnum() or header[i - 1] == '_')):
            m = re.match(r'(requires|ensures|decreases|recommends)\b', header[i:])
            if m:
                marks.append((i, m.group(1)))
                i += len(m.group(1))
                continue
        i += 1
    sig = header[:marks[0][0]] if marks else header
    secs = {k: [] for k in keys}
    for idx, (pos, key) in enumerate(marks):
        end = marks[idx + 1][0] if idx + 1 < len(marks) else n
        secs[key].extend(split_clauses(header[pos + len(key):end]))
    return norm(sig), secs


def split_clauses(text):
    out = []
    depth = 0
    cur = []
    i, n = 0, len(text)
    while i < n:
        c = text[i]
        m = re.match(r'(forall|exists|choose)\s*\|', text[i:]) if (i == 0 or not (text[i - 1].isalnum() or text[i - 1] == '_')) else None
        if m:
            j = text.find('|', i + len(m.group(0)))
            cur.append(text[i:j + 1])
            i = j + 1
            continue
        if text.startswith('::<', i):
            d, j = 0, i + 2
            while j < n:
                if text[j] == '<':
                    d += 1
                elif text[j] == '>' and text[j - 1] != '-' and text[j - 1] != '=':
                    d -= 1
                    if d == 0:
                        break
                j += 1
            cur.append(text[i:j + 1])
            i = j + 1
            continue
        if c in '([{':
            depth += 1
        elif c in ')]}':
            depth -= 1
        if c == ',' and depth == 0:
            s = norm(''.join(cur))
            if s:
                out.append(s)
            cur = []
        else:
            cur.append(c)
        i += 1
    s = norm(''.join(cur))
    if s:
        out.append(s)
    return out


def load(rel):
    p = os.path.join(VERIF, rel)
    if not os.path.exists(p):
        raise LinkError('no such file: %s' % rel)
    return open(p, encoding='utf-8').read()


def item_of(spec):
    """spec: {"file":..., "fn":..., "occ":1, "after": "<anchor text>"} -> (sig, sections, body, raw_has_label)."""
    raw = load(spec['file'])
    if spec.get('block'):
        # header of a `//@@ fn ... | <fn>` block (a PROVED header) of a unit template
        pat = re.compile(r'^//@@ fn [^\n]*\|\s*%s\b[^\n]*\n' % re.escape(spec['fn']), re.M)
        ms = list(pat.finditer(raw))
        if spec.get('after'):
            a = raw.find(spec['after'])
            ms = [m for m in ms if m.start() >= a]
        occ = spec.get('occ', 1)
        if len(ms) < occ:
            raise LinkError('%s: no `//@@ fn .. | %s` block' % (spec['file'], spec['fn']))
        m = ms[occ - 1]
        h = raw.find('//@ header', m.end())
        e = raw.find('\n//@', h + 5)
        htxt = raw[raw.find('\n', h) + 1:e]
        text = strip_comments(htxt)
        s = re.search(r'\bfn\s+%s\b' % re.escape(spec['fn']), text)
        header, body, _ = scan_header(text, s.start())
        sig, secs = split_sections(header)
        return sig, secs, None, htxt
    text = strip_comments(raw)
    after = spec.get('after')
    start = find_item(text, spec['fn'], spec.get('occ', 1), after)
    header, body, end = scan_header(text, start)
    sig, secs = split_sections(header)
    # raw text of the item (for the label check): locate by counting `fn name` occurrences in the raw text
    return sig, secs, body, None


def whole_item(spec):
    """Normalised full text (signature + clauses + body) of a spec-level item, for textcopy."""
    raw = load(spec['file'])
    text = strip_comments(raw)
    start = find_item(text, spec['fn'], spec.get('occ', 1), spec.get('after'))
    header, body, end = scan_header(text, start)
    # include `uninterp spec` / `spec` / `proof` / `open` words before `fn` on the same line
    ls = text.rfind('\n', 0, start) + 1
    prefix = text[ls:start]
    prefix = re.sub(r'\b(pub|open|closed)\b', '', prefix)
    return norm(prefix + header + (body or ';'))


def apply_subst(s, subst):
    for a, b in subst or []:
        s = s.replace(norm(a), norm(b))
    return s


def multiset(xs):
    d = {}
    for x in xs:
        d[x] = d.get(x, 0) + 1
    return d


def diff(a, b):
    """(only in a, only in b) as lists"""
    da, db = multiset(a), multiset(b)
    oa = [x for x in da for _ in range(max(0, da[x] - db.get(x, 0)))]
    ob = [x for x in db for _ in range(max(0, db[x] - da.get(x, 0)))]
    return oa, ob


def label_present(link):
    raw = load(link['wrapper']['file'])
    start = find_item(raw, link['wrapper']['fn'], 1, None)
    seg = raw[start:start + 6000]
    # up to the body: look for the label anywhere before the first line starting with `{` after the header
    want = link.get('label') or 'LINK.%s.%s' % (link['caller'], link['shim']['fn'])
    m = re.search(r'^\s*\{', seg, re.M)
    head = seg[:m.start()] if m else seg
    return want in head, want


def check_wrapper(link, verbose):
    msgs = []
    ssig, ssecs, _, _ = item_of(link['shim'])
    wsig, wsecs, wbody, _ = item_of(link['wrapper'])
    subst = link.get('subst')
    s_ens = [apply_subst(c, subst) for c in ssecs['ensures']]
    s_req = [apply_subst(c, subst) for c in ssecs['requires']]
    w_ens, w_req = wsecs['ensures'], wsecs['requires']
    unchecked = [norm(x) for x in link.get('unchecked_ensures', [])]
    only_s, only_w = diff(s_ens, w_ens + unchecked)
    ok = True
    if only_s or only_w:
        ok = False
        for c in only_s:
            msgs.append('ensures only in SHIM   : %s' % c)
        for c in only_w:
            msgs.append('ensures only in WRAPPER(+unchecked_ensures): %s' % c)
    extra = [norm(x) for x in link.get('extra_requires', [])]
    breq = [norm(x) for x in link.get('bridge_requires', [])]
    only_s, only_w = diff(s_req + extra + breq, w_req)
    if only_s or only_w:
        ok = False
        for c in only_s:
            msgs.append('requires only in SHIM(+extra_requires+bridge_requires): %s' % c)
        for c in only_w:
            msgs.append('requires only in WRAPPER               : %s' % c)
    has, want = label_present(link)
    if not has:
        ok = False
        msgs.append('wrapper has no label //# %s' % want)
    real = link.get('calls', link['shim']['fn'])      # "" = a lemma that holds by definition (empty body allowed)
    if wbody is None or (real and not re.search(r'\b%s\b' % re.escape(real), wbody)):
        ok = False
        msgs.append('wrapper body does not call %s' % real)
    if wbody is not None and re.search(r'\b(assume|admit)\s*\(', wbody):
        ok = False
        msgs.append('wrapper body contains assume/admit')
    n = '%d ens, %d req' % (len(w_ens), len(w_req))
    if extra:
        n += ' (+%d callee-only precondition%s: GAP)' % (len(extra), '' if len(extra) == 1 else 's')
    if breq:
        n += ' (+%d bridge invariant%s the shim does not state)' % (len(breq), '' if len(breq) == 1 else 's')
    if unchecked:
        n += ' (%d assumed clause%s NOT carried: see UNCHECKED_LINKS.md)' % (len(unchecked), '' if len(unchecked) == 1 else 's')
    if verbose:
        for c in w_ens:
            msgs.append('  ens: %s' % c)
        for c in w_req:
            msgs.append('  req: %s' % c)
    return ok, n, msgs


def check_header(link, verbose):
    """assumed (hand shim) clauses must occur textually among the PROVED clauses of the `//@@ fn` block."""
    msgs = []
    ssig, ssecs, _, _ = item_of(link['shim'])
    psig, psecs, _, _ = item_of(dict(link['proved'], block=True))
    subst = link.get('subst')
    s_ens = [apply_subst(c, subst) for c in ssecs['ensures']]
    s_req = [apply_subst(c, subst) for c in ssecs['requires']]
    ok = True
    only_s, _ = diff(s_ens, psecs['ensures'])
    for c in only_s:
        ok = False
        msgs.append('assumed clause not among the proved clauses: %s' % c)
    extra = [norm(x) for x in link.get('extra_requires', [])]
    only_s, only_p = diff(s_req + extra, psecs['requires'])
    for c in only_p:
        ok = False
        msgs.append('proved header requires what the shim does not: %s' % c)
    for c in only_s:
        if c in extra:
            ok = False
            msgs.append('extra_requires entry not in proved header: %s' % c)
    n = '%d of %d proved ens assumed' % (len(s_ens), len(psecs['ensures']))
    if extra:
        n += ' (+%d callee-only precondition%s: GAP)' % (len(extra), '' if len(extra) == 1 else 's')
    return ok, n, msgs


def check_textcopy(link, verbose):
    msgs = []
    ok = True
    subst = link.get('subst')
    for it in link['items']:
        name = it if isinstance(it, str) else it['fn']
        a = dict(link['from'], fn=name)
        b = dict(link['to'], fn=name)
        if isinstance(it, dict):
            a.update(it.get('from', {}))
            b.update(it.get('to', {}))
        try:
            ta = apply_subst(whole_item(a), subst)
            tb = whole_item(b)
        except LinkError as e:
            ok = False
            msgs.append('%s: %s' % (name, e))
            continue
        if ta != tb:
            ok = False
            msgs.append('%s differs:\n      %s: %s\n      %s: %s' % (name, a['file'], ta[:400], b['file'], tb[:400]))
    return ok, '%d items' % len(link['items']), msgs


def wrapper_vacuity(units):
    """--vacuity [unit ..]: every `fn link_*` wrapper of the unit gets `ensures false` added (all at once: no wrapper
    calls another); Verus must REFUTE each one.  A wrapper in which `false` verifies has contradictory preconditions
    or rests on an inconsistent bridge axiom."""
    sys.path.insert(0, VERIF)
    from vfw import extract, run
    bad = 0
    for unit in units:
        text, meta = extract.generate(unit)
        out, names, inlink = [], [], None
        for l in text.split('\n'):
            out.append(l)
            m = re.search(r'\bfn (link_\w+)', l)
            if m and not l.lstrip().startswith('//'):
                inlink = m.group(1)
            if inlink and re.match(r'^\s*\{', l):
                out[-1:-1] = ['        ensures false, //# LINKVAC %s' % inlink]
                names.append(inlink)
                inlink = None
            if inlink and re.match(r'^\s*ensures\b', l):
                mm = re.match(r'^(\s*ensures)\b(.*)$', l)
                out[-1] = mm.group(1)
                out.append('        false, //# LINKVAC %s' % inlink)
                if mm.group(2).strip():
                    out.append('        ' + mm.group(2))
                names.append(inlink)
                inlink = None
        path = os.path.join(VERIF, 'gen', 'lv_%s.rs' % unit)
        with open(path, 'w') as f:
            f.write('\n'.join(out))
        cmd, o, err, rc, wall = run.run_verus(path, None, None, multiple_errors=100)
        diags, raw = run.parse_diags(err)
        hit = set()
        for d in diags:
            for sp in d.get('spans', []):
                ln = sp.get('line_start')
                if ln and ln <= len(out) and 'LINKVAC' in out[ln - 1]:
                    hit.add(out[ln - 1].split('LINKVAC')[1].strip())
        os.unlink(path)
        missing = [n for n in names if n not in hit]
        print('%-12s wrappers=%d refuted=%d %s' % (unit, len(names), len(hit), ('VACUOUS: %s' % missing) if missing else 'ok'))
        if missing:
            bad += 1
    return 1 if bad else 0


def verify_wrappers(units):
    """--verify [unit ..]: run Verus on each callee unit (as `./check --unit U --no-vacuity` does) and report whether every
    `link_*` / `bridge_*` function verified.  Other failures of the unit (e.g. a known finding) are not this tool's business."""
    sys.path.insert(0, VERIF)
    from vfw import run
    bad = 0
    for unit in units:
        r = run.verify_unit(unit, vacuity=False, tag='_links')
        mine = [f for f in r.functions if re.search(r'(^|::)(link_|bridge_)', f['function'])]
        failed = [f['function'].split('::')[-1] for f in mine if f.get('success') is False]
        linkfail = [f['obligation'] for f in r.failures if any(l.startswith('LINK') for l in f.get('labels', []))]
        smt = sum(f['time_ms'] or 0 for f in mine)
        ok = r.status != 'error' and mine and not failed and not linkfail
        print('%-13s unit=%-7s link/bridge functions=%2d verified=%2d smt=%4d ms %s' % (
            unit, r.status, len(mine), len(mine) - len(failed), smt, '' if ok else 'FAILED: %s %s %s' % (failed, linkfail, r.message[:200])))
        if not ok:
            bad += 1
    return 1 if bad else 0


def load_links():
    # units/links.json plus every units/links_<unit>.json (tables delivered with later units)
    import glob
    out = []
    for f in [os.path.join(VERIF, 'units', 'links.json')] + sorted(glob.glob(os.path.join(VERIF, 'units', 'links_*.json'))):
        out.extend(json.load(open(f))['links'])
    return out


def main():
    args = sys.argv[1:]
    if '--verify' in args:
        units = [a for a in args if not a.startswith('-')]
        if not units:
            links = load_links()
            units = sorted(set(os.path.basename(l['wrapper']['file'])[:-3] for l in links if l.get('wrapper')))
        return verify_wrappers(units)
    if '--vacuity' in args:
        units = [a for a in args if not a.startswith('-')]
        if not units:
            links = load_links()
            units = sorted(set(os.path.basename(l['wrapper']['file'])[:-3] for l in links if l.get('wrapper')))
        return wrapper_vacuity(units)
    verbose = '-v' in args
    only = None
    if '--only' in args:
        only = args[args.index('--only') + 1]
    links = load_links()
    rows = []
    bad = 0
    for link in links:
        lid = link['id']
        if only and only not in lid:
            continue
        kind = link.get('kind', 'wrapper')
        status = link.get('status', 'checked')
        if status == 'unchecked':
            rows.append((lid, link.get('callee', '-'), kind, 'UNCHECKED', link.get('why', '')[:90], []))
            continue
        if kind == 'stub':
            # mechanical: the caller takes the callee's header text through `//@@ stub`; only check the directive exists
            found = False
            for rel in link['files']:
                if re.search(r'^//@@ stub %s\b.*\|\s*%s\s*$' % (re.escape(link['callee']), re.escape(link['fn'])), load(rel), re.M):
                    found = True
            if not found:
                bad += 1
            rows.append((lid, link['callee'], kind, 'stub' if found else 'DIFFER', 'mechanical copy of the proved header (//@@ stub)' if found else 'no //@@ stub directive found', []))
            continue
        try:
            if kind == 'wrapper':
                ok, note, msgs = check_wrapper(link, verbose)
            elif kind == 'header':
                ok, note, msgs = check_header(link, verbose)
            elif kind == 'textcopy':
                ok, note, msgs = check_textcopy(link, verbose)
            else:
                raise LinkError('unknown kind %s' % kind)
        except LinkError as e:
            ok, note, msgs = False, 'ERROR', [str(e)]
        if link.get('bridge'):
            note += '; bridge'
        if not ok:
            bad += 1
        rows.append((lid, link.get('callee', '-'), kind, 'agree' if ok else 'DIFFER', note, msgs))
    w0 = max([len(r[0]) for r in rows] + [4])
    w1 = max([len(r[1]) for r in rows] + [6])
    print('%-*s  %-*s  %-8s  %-9s  %s' % (w0, 'link', w1, 'callee', 'kind', 'texts', 'note'))
    print('-' * (w0 + w1 + 60))
    for lid, callee, kind, st, note, msgs in rows:
        print('%-*s  %-*s  %-8s  %-9s  %s' % (w0, lid, w1, callee, kind, st, note))
        for m in msgs:
            print('      ' + m)
    nchk = len([r for r in rows if r[3] != 'UNCHECKED'])
    print('-' * (w0 + w1 + 60))
    print('%d links compared, %d differ, %d listed as unchecked' % (nchk, bad, len(rows) - nchk))
    return 1 if bad else 0


if __name__ == '__main__':
    sys.exit(main())
