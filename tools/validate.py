#!/usr/bin/env python3-vt
import json, glob, sys
import jsonschema
ok = True
try:
    jsonschema.validate(json.load(open('/verif/MANIFEST.json')), json.load(open('/root/.vp/MANIFEST.schema.json')))
    print('MANIFEST ok')
except Exception as e:
    ok = False; print('MANIFEST INVALID', str(e)[:500])
es = json.load(open('/root/.vp/EVIDENCE.schema.json'))
for p in sorted(glob.glob('/verif/evidence/*.json')):
    try:
        jsonschema.validate(json.load(open(p)), es)
    except Exception as e:
        ok = False; print('EVIDENCE INVALID', p, str(e)[:300])
print('evidence files:', len(glob.glob('/verif/evidence/*.json')))
sys.exit(0 if ok else 1)
