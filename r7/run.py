#!/usr/bin/env python3
"""R7 bounded check (DESIGN.md section 3, rule R7): lifted snippet == assumed contract.

Every `r7_*` / `lifted_*` helper of /verif/prelude is an `external_body` function whose contract Verus ASSUMES
in place of an iterator-adapter expression of the real source.  This driver

  1. cuts, at run time, the REAL text of each such expression out of the current tree ($VERIF_REPO or /repo) at the
     place the unit's rewrite lines pin it, and compares it (whitespace-insensitively) with the pinned text;
  2. writes the text, unchanged, into src/snippets.rs (one function per helper, parameters named as the text names
     them) next to the constants it mentions (`BLOCK_DIR`, `flags::SUPPORTED`, `BlockDir::blocks/contains`), which
     are also cut from the tree;
  3. builds the crate against the real `conserve` crate (path /repo; offline) and runs it: src/main.rs enumerates
     ALL inputs up to the stated bound (vectors up to length 4 over small alphabets) and evaluates an executable
     transcription of the assumed contract on each.

Output: one JSON line per helper
  {"helper":.., "unit":.., "fn":.., "status": "ok|failed|snippet changed|skipped", "inputs": N, "bound": "...",
   "counterexample": null | {"input":.., "real":.., "expected":.., "explain":..}, "snippet":.., "site":.., ...}
status  ok               the contract holds on every enumerated input
        failed           some input refutes the contract (counterexample given)  -- the assumption is WRONG
        snippet changed  the text at the pinned place is not the pinned text (the unit is then exit 2 anyway); if the
                         new text could still be cut and compiled it is decided too: a refuted contract is reported
                         as `failed` with "snippet_changed": true, a surviving one stays `snippet changed`
        skipped          not runnable / not applicable (reason in "note")

usage: run.py [--helpers h1,h2] [--units u1,u2]
       run.py --replay <helper> '<json input>'     -> one JSON line {"found": bool, ...} (found = contract fails)
       run.py --list
Exit status: 0 (results are in the JSON lines), 2 on usage errors.
"""
import fcntl
import hashlib
import json
import os
import re
import shutil
import subprocess
import sys
import time

HERE = os.path.dirname(os.path.abspath(__file__))
VERIF = os.path.dirname(HERE)
REPO = os.environ.get('VERIF_REPO', '/repo')
LINK_REPO = '/repo'            # the crate the harness links (as /verif/witness does); $VERIF_REPO supplies the TEXT
WITNESS_TARGET = os.path.join(VERIF, 'witness', 'target')
OWN_TARGET = os.path.join(HERE, 'target')


class Lost(Exception):
    pass


# ------------------------------------------------------------------------------------------------
# cutting text out of the tree

def read_src(rel):
    p = os.path.join(REPO, rel)
    if not os.path.exists(p):
        raise Lost('%s not found' % rel)
    return open(p, encoding='utf-8').read()


def match_brace(text, i):
    """text[i] == '{' -> index of the matching '}' (string literals skipped)."""
    depth = 0
    j = i
    while j < len(text):
        c = text[j]
        if c == '"':
            j = skip_string(text, j)
            continue
        if c == '/' and text[j:j + 2] == '//':
            j = text.find('\n', j)
            if j < 0:
                break
            continue
        if c == '{':
            depth += 1
        elif c == '}':
            depth -= 1
            if depth == 0:
                return j
        j += 1
    raise Lost('unbalanced braces')


def skip_string(text, i):
    j = i + 1
    while j < len(text):
        if text[j] == '\\':
            j += 2
            continue
        if text[j] == '"':
            return j + 1
        j += 1
    return j


def fn_span(text, scope_re, name):
    """(start, end) offsets of the `{..}` body of fn `name` inside the first item whose header matches scope_re."""
    start = 0
    if scope_re:
        m = re.search(scope_re, text)
        if not m:
            raise Lost('scope %s not found' % scope_re)
        start = m.end()
    m2 = re.compile(r'\bfn\s+%s\b[^{;]*\{' % re.escape(name)).search(text, start)
    if not m2:
        raise Lost('fn %s not found' % name)
    i = m2.end() - 1
    return i, match_brace(text, i) + 1


def fn_item(text, header_re):
    """Whole text (signature + body) of the first fn whose header matches header_re."""
    m = re.search(header_re + r'[^{;]*\{', text)
    if not m:
        raise Lost('%s not found' % header_re)
    return text[m.start():match_brace(text, m.end() - 1) + 1]


def chain_from(text, i, end):
    """The expression text starting at offset i, up to (not including) the first `;` `,` `{` or unbalanced closing
    bracket at bracket depth 0."""
    depth = 0
    j = i
    while j < end:
        c = text[j]
        if c == '"':
            j = skip_string(text, j)
            continue
        if c in '([':
            depth += 1
        elif c in ')]':
            if depth == 0:
                break
            depth -= 1
        elif c == '{':
            if depth == 0:
                break
            depth += 1
        elif c == '}':
            if depth == 0:
                break
            depth -= 1
        elif c in ';,' and depth == 0:
            break
        j += 1
    return text[i:j].rstrip(), j


def norm(s):
    s = re.sub(r'//[^\n]*', '', s)
    return re.sub(r'\s+', '', s)


def line_of(text, off):
    return text.count('\n', 0, off) + 1


# ------------------------------------------------------------------------------------------------
# the helpers

# mode 'chain': snippet = expression text following `prefix` inside fn `fn`
# mode 'regex': snippet = group `group` of the unit's own redirection regex (no pinned text: the regex IS the pin)
# mode 'block': snippet = statements from `prefix` to the end of the block opened by `block_open`
HELPERS = [
    dict(helper='r7_band_ids_of_listing', unit='select', prelude='select_types.rs', file='src/archive.rs',
         scope=r'\nimpl\s+Archive\s*\{', fn='list_band_ids', mode='chain', prefix=r'\.list_dir\(""\)\s*\.await\?',
         pinned='.into_iter().filter(|entry| entry.name != BLOCK_DIR && entry.kind == Kind::Dir)'
                '.filter_map(|entry| entry.name.parse().ok()).sorted().collect()',
         modules=['band_ids_of_listing']),
    dict(helper='r7_max_band_id', unit='select', prelude='select_types.rs', file='src/archive.rs',
         scope=r'\nimpl\s+Archive\s*\{', fn='last_band_id', mode='chain', prefix=r'self\.list_band_ids\(\)\s*\.await\?',
         pinned='.into_iter().max()', modules=['max_band_id']),
    dict(helper='r7_sorted_dir_names', unit='hunkiter', prelude='hunkiter_types.rs', file='src/index/mod.rs',
         scope=r'\nimpl\s+IndexRead\s*\{', fn='hunks_available', mode='chain',
         prefix=r'let\s+subdirs\s*=\s*self\s*\.transport\s*\.list_dir\(""\)\s*\.await\?',
         pinned='.into_iter().filter(|entry| entry.is_dir()).map(|entry| entry.name).sorted().collect_vec()',
         modules=['sorted_dir_names']),
    dict(helper='r7_sorted_hunk_numbers', unit='hunkiter', prelude='hunkiter_types.rs', file='src/index/mod.rs',
         scope=r'\nimpl\s+IndexRead\s*\{', fn='hunks_available', mode='chain', prefix=r'hunks\.extend\(\s*entries\b',
         pinned='.into_iter().filter(|entry| entry.is_file()).filter_map(|entry| entry.name.parse::<u32>().ok()).sorted()',
         modules=['sorted_hunk_numbers']),
    dict(helper='r7_flat_addrs', unit='gc', prelude='gc_shims.rs', file='src/archive.rs',
         scope=r'\nimpl\s+Archive\s*\{', fn='referenced_blocks', mode='chain', prefix=r'for\s+addr\s+in\s+hunk\b',
         pinned='.into_iter().flat_map(|entry| entry.addrs)', modules=['flat_addrs']),
    dict(helper='r7_present_set', unit='gc', prelude='gc_shims.rs', file='src/archive.rs',
         scope=r'\nimpl\s+Archive\s*\{', fn='delete_bands', mode='chain', prefix=r'\bblock_dir(?=\s*\.blocks\(\))',
         pinned='.blocks().iter().cloned().collect()', modules=['present_set']),
    dict(helper='r7_all_blocks_present', unit='backupwriter', prelude='backupwriter_types.rs', file='src/backup.rs',
         scope=r'\nimpl\s+BackupWriter\s*\{', fn='copy_file', mode='chain', prefix=r'\bif\s+(?=basis_entry\s*\.addrs\b)',
         pinned='basis_entry.addrs.iter().all(|addr| self.block_dir.contains(&addr.hash))',
         modules=['all_blocks_present']),
    dict(helper='r7_unsupported_flags', unit='band', prelude='band_shims.rs', file='src/band.rs',
         scope=r'\nimpl\s+Band\s*\{', fn='open', mode='chain', prefix=r'let\s+unsupported_flags\s*=\s*head\b',
         pinned='.format_flags.iter().filter(|f| !flags::SUPPORTED.contains(&f.as_ref())).cloned().collect_vec()',
         modules=['unsupported_flags_real', 'unsupported_flags_alt']),
    dict(helper='r7_assert_flags_supported', unit='band', prelude='band_shims.rs', file='src/band.rs',
         scope=r'\nimpl\s+Band\s*\{', fn='create_with_flags', mode='chain', prefix=r'(?m)^\s*(?=format_flags\s*\.iter\(\))',
         pinned='format_flags.iter().for_each(|f| assert!(flags::SUPPORTED.contains(&f.as_ref()), "unknown flag {f:?}"))',
         modules=['assert_flags_supported_real', 'assert_flags_supported_alt']),
    dict(helper='lifted_sum_addr_lens', unit='timeconv', prelude='timeconv_types.rs', file='src/index/entry.rs',
         scope=r'\nimpl\s+EntryTrait\s+for\s+IndexEntry\s*\{', fn='size', mode='regex',
         regex=r'\b(\w+(?:\.\w+)*)(\.iter\(\)\.map\(\|a\| a\.len\)\.sum\(\))', group=2, alternative='lifted_saturating_sum_addr_lens',
         modules=['sum_addr_lens'],
         also='Kani harness /verif/kani/timeconv (run.py entry_size): the body of `size` for symbolic lengths, vectors up to length 3'),
    dict(helper='lifted_saturating_sum_addr_lens', unit='timeconv', prelude='timeconv_types.rs', file='src/index/entry.rs',
         scope=r'\nimpl\s+EntryTrait\s+for\s+IndexEntry\s*\{', fn='size', mode='regex',
         regex=r'\b(\w+(?:\.\w+)*)(\.iter\(\)\.fold\(0u64, \|s, a\| s\.saturating_add\(a\.len\)\))', group=2, alternative='lifted_sum_addr_lens',
         modules=['saturating_sum_addr_lens'],
         also='Kani harness /verif/kani/timeconv (run.py entry_size): the body of `size` for symbolic lengths, vectors up to length 3'),
    dict(helper='r7_any_name_eq', unit='validate', prelude='validate_model.rs', file='src/band.rs',
         scope=r'\nimpl\s+Band\s*\{', fn='validate', mode='regex',
         regex=r'(\w+)\.iter\(\)\.any\(\|entry\| entry\.name == (\w+)\)', group=0, params=(1, 2), modules=['any_name_eq']),
    dict(helper='r7_blocks_cloned_collect', unit='validate', prelude='validate_model.rs', file='src/archive.rs',
         scope=r'\nimpl\s+Archive\s*\{', fn='validate', mode='chain', prefix=r'\bblock_dir(?=\s*\.blocks\(\))',
         pinned='.blocks().iter().cloned().collect()', modules=['blocks_cloned_collect']),
    dict(helper='r7_spawn_subdir_listings', unit='blockdir', prelude='blockdir_list.rs', file='src/blockdir.rs',
         scope=None, fn='list_blocks', mode='block', prefix=r'let\s+mut\s+subdir_tasks\s*=\s*JoinSet::new\(\);',
         block_open=r'for\s+subdir_name\s+in\s+subdirs\s*\{',
         pinned='let mut subdir_tasks = JoinSet::new(); let job_limit = Arc::new(Semaphore::new(30));'
                'for subdir_name in subdirs { let transport = transport.clone(); let job_limit = job_limit.clone();'
                'subdir_tasks.spawn(async move { let _permit = job_limit.acquire().await.unwrap();'
                '(subdir_name.clone(), transport.list_dir(&subdir_name).await) }); }',
         modules=['spawn_subdir_listings']),
    # (`subdirs()` used to be pinned here: it is now extracted and proved in unit blockopen, LINK blockdir.subdirs)
]
# Not covered, on purpose: stitch_types.rs `lifted_last_apath` has a VERIFIED body (closure with a written-out
# contract), not an assumed one -- there is nothing to check.

BY_NAME = {h['helper']: h for h in HELPERS}


def cut(h):
    """-> dict(snippet=, changed=bool, site=(file, line), params=..) or raises Lost."""
    text = read_src(h['file'])
    b0, b1 = fn_span(text, h['scope'], h['fn'])
    if h['mode'] == 'chain':
        m = re.compile(h['prefix']).search(text, b0, b1)
        if not m:
            raise Lost('anchor `%s` not found in fn %s' % (h['prefix'], h['fn']))
        snip, _ = chain_from(text, m.end(), b1)
        snip = snip.strip()
        if not snip:
            raise Lost('no expression follows the anchor in fn %s' % h['fn'])
        return dict(snippet=snip, changed=norm(snip) != norm(h['pinned']), site=(h['file'], line_of(text, m.end())))
    if h['mode'] == 'regex':
        m = re.compile(h['regex']).search(text, b0, b1)
        if not m:
            raise Lost('the unit\'s redirection regex does not match in fn %s' % h['fn'])
        res = dict(snippet=m.group(h['group']), changed=False, site=(h['file'], line_of(text, m.start())))
        if h.get('params'):
            res['params'] = [m.group(k) for k in h['params']]
        return res
    if h['mode'] == 'block':
        m = re.compile(h['prefix']).search(text, b0, b1)
        if not m:
            raise Lost('anchor `%s` not found in fn %s' % (h['prefix'], h['fn']))
        m2 = re.compile(h['block_open']).search(text, m.end(), b1)
        if not m2:
            raise Lost('anchor `%s` not found in fn %s' % (h['block_open'], h['fn']))
        e = match_brace(text, m2.end() - 1) + 1
        snip = text[m.start():e]
        return dict(snippet=snip, changed=norm(snip) != norm(h['pinned']), site=(h['file'], line_of(text, m.start())))
    raise Lost('unknown mode')


def constants():
    """Declarations the snippets mention, cut from the tree (with fallbacks that are reported)."""
    c, notes = {}, []
    try:
        m = re.search(r'(?m)^\s*(?:pub(?:\([a-z]+\))?\s+)?((?:static|const)\s+BLOCK_DIR\s*:\s*&(?:\'static\s+)?str\s*=\s*"[^"]*"\s*;)', read_src('src/archive.rs'))
        if not m:
            raise Lost('declaration of BLOCK_DIR not found in src/archive.rs')
        c['BLOCK_DIR'] = m.group(1)
    except Lost as e:
        c['BLOCK_DIR'] = 'static BLOCK_DIR: &str = "d";'
        notes.append('%s: fallback `%s`' % (e, c['BLOCK_DIR']))
    try:
        m = re.search(r'pub\s+static\s+SUPPORTED\s*:\s*&\[&str\]\s*=\s*&\[[^\]]*\]\s*;', read_src('src/band.rs'))
        if not m:
            raise Lost('declaration of flags::SUPPORTED not found in src/band.rs')
        c['SUPPORTED_REAL'] = m.group(0)
    except Lost as e:
        c['SUPPORTED_REAL'] = 'pub static SUPPORTED: &[&str] = &[];'
        notes.append('%s: fallback `%s`' % (e, c['SUPPORTED_REAL']))
    c['SUPPORTED_ALT'] = 'pub static SUPPORTED: &[&str] = &["alpha", "beta"];'
    for key, hdr, fb in (
            ('BLOCKS_FN', r'pub(?:\([a-z]+\))?\s+fn\s+blocks\b',
             "pub fn blocks(&'_ self) -> RwLockReadGuard<'_, HashSet<BlockHash>> { self.exists.read().unwrap() }"),
            ('CONTAINS_FN', r'pub(?:\([a-z]+\))?\s+fn\s+contains\b',
             'pub(crate) fn contains(&self, hash: &BlockHash) -> bool { self.exists.read().unwrap().contains(hash) }')):
        try:
            c[key] = fn_item(read_src('src/blockdir.rs'), hdr)
        except Lost as e:
            c[key] = fb
            notes.append('BlockDir stand-in: %s in src/blockdir.rs: fallback text' % e)
    return c, notes


# module templates: @@S@@ = the cut text.  `body` is replaced by unimplemented!() when the text is not available.
MODULES = {
    'band_ids_of_listing': dict(pre='@@BLOCK_DIR@@', sig='pub fn snippet(listing: Vec<DirEntry>) -> Vec<BandId>', body='listing\n@@S@@'),
    'max_band_id': dict(sig='pub fn snippet(v: Vec<BandId>) -> Option<BandId>', body='v\n@@S@@'),
    'sorted_dir_names': dict(sig='pub fn snippet(listing: Vec<DirEntry>) -> Vec<String>', body='listing\n@@S@@'),
    'sorted_hunk_numbers': dict(sig='pub fn snippet(entries: Vec<DirEntry>) -> Vec<u32>',
                                body='let mut hunks = Vec::new();\nhunks.extend(\nentries\n@@S@@\n);\nhunks'),
    'flat_addrs': dict(sig='pub fn snippet(hunk: Vec<IndexEntry>) -> Vec<Address>',
                       body='let mut out = Vec::new();\nfor addr in hunk\n@@S@@\n{ out.push(addr); }\nout'),
    'present_set': dict(pre='use super::blockdir_standin::BlockDir;', sig='pub fn snippet(block_dir: &BlockDir) -> HashSet<BlockHash>',
                        body='let present: HashSet<BlockHash> = block_dir\n@@S@@\n;\npresent'),
    'blocks_cloned_collect': dict(pre='use super::blockdir_standin::BlockDir;', sig='pub fn snippet(block_dir: &BlockDir) -> HashSet<BlockHash>',
                                  body='let present_blocks: HashSet<BlockHash> = block_dir\n@@S@@\n;\npresent_blocks'),
    'all_blocks_present': dict(pre='use super::blockdir_standin::BlockDir;\npub struct Writer { pub block_dir: Arc<BlockDir> }\nimpl Writer {',
                               sig='pub fn snippet(&self, basis_entry: &IndexEntry) -> bool', body='@@S@@', post='}'),
    'unsupported_flags_real': dict(pre="pub mod flags { @@SUPPORTED_REAL@@ }\npub struct Head { pub format_flags: Vec<Cow<'static, str>> }",
                                   sig="pub fn snippet(head: &Head) -> Vec<Cow<'static, str>>", body='let unsupported_flags = head\n@@S@@\n;\nunsupported_flags'),
    'unsupported_flags_alt': dict(pre="pub mod flags { @@SUPPORTED_ALT@@ }\npub struct Head { pub format_flags: Vec<Cow<'static, str>> }",
                                  sig="pub fn snippet(head: &Head) -> Vec<Cow<'static, str>>", body='let unsupported_flags = head\n@@S@@\n;\nunsupported_flags'),
    'assert_flags_supported_real': dict(pre='pub mod flags { @@SUPPORTED_REAL@@ }', sig="pub fn snippet(format_flags: &[Cow<'static, str>])", body='@@S@@\n;'),
    'assert_flags_supported_alt': dict(pre='pub mod flags { @@SUPPORTED_ALT@@ }', sig="pub fn snippet(format_flags: &[Cow<'static, str>])", body='@@S@@\n;'),
    'sum_addr_lens': dict(sig='pub fn snippet(addrs: &Vec<Address>) -> u64', body='addrs\n@@S@@'),
    'saturating_sum_addr_lens': dict(sig='pub fn snippet(addrs: &Vec<Address>) -> u64', body='addrs\n@@S@@'),
    'any_name_eq': dict(sig='pub fn snippet(@@P1@@: &Vec<DirEntry>, @@P2@@: &str) -> bool', body='@@S@@', defaults=('entries', 'name')),
    'spawn_subdir_listings': dict(sig='pub async fn snippet(transport: &Transport, subdirs: Vec<String>) -> JoinSet<(String, Result<Vec<DirEntry>, conserve::transport::Error>)>',
                                  body='@@S@@\nsubdir_tasks'),
}


def render(cuts, consts, disabled):
    """Text of src/snippets.rs and, per helper, the line range its modules occupy."""
    out = ['// GENERATED by /verif/r7/run.py from the tree at %s -- do not edit.' % REPO,
           '// Text between `// <<< real` and `// >>> real` is cut verbatim from that tree.',
           '#![allow(unused, non_snake_case, non_upper_case_globals, clippy::all)]', '',
           'pub mod blockdir_standin {', '    use crate::support::*;',
           '    pub struct BlockDir { pub exists: RwLock<HashSet<BlockHash>> }', '    impl BlockDir {',
           '// <<< real (src/blockdir.rs)', consts['BLOCKS_FN'], consts['CONTAINS_FN'], '// >>> real', '    }', '}', '']
    ranges = {}
    avail = []
    for h in HELPERS:
        name = h['helper']
        c = cuts.get(name)
        live = c is not None and name not in disabled
        start = len('\n'.join(out).split('\n')) + 1
        for mod in h['modules']:
            t = MODULES[mod]
            sig = t['sig']
            params = (c or {}).get('params') or t.get('defaults') or ()
            for k, p in enumerate(params, 1):
                sig = sig.replace('@@P%d@@' % k, p)
            pre = t.get('pre', '')
            for k, v in consts.items():
                pre = pre.replace('@@%s@@' % k, v)
            out.append('pub mod %s {' % mod)
            out.append('    use crate::support::*;')
            if pre:
                out.append(pre)
            out.append('    %s {' % sig)
            if live:
                body = t['body'].replace('@@S@@', '// <<< real (%s:%d)\n%s\n// >>> real' % (c['site'][0], c['site'][1], c['snippet']))
                out.append(body)
            else:
                out.append('        unimplemented!()')
            out.append('    }')
            if t.get('post'):
                out.append(t['post'])
            out.append('}')
            out.append('')
        ranges[name] = (start, len('\n'.join(out).split('\n')))
        if live:
            avail.append(name)
    out.append('pub fn available(helper: &str) -> bool {')
    out.append('    matches!(helper, %s)' % (' | '.join('"%s"' % a for a in avail) or '""'))
    out.append('}')
    return '\n'.join(out) + '\n', ranges


# ------------------------------------------------------------------------------------------------
# build + run

def target_dir():
    if os.environ.get('R7_TARGET_DIR'):
        return os.environ['R7_TARGET_DIR']
    if os.path.isdir(os.path.join(WITNESS_TARGET, 'debug', 'deps')):
        return WITNESS_TARGET         # shares the build of the real crate with /verif/witness
    return OWN_TARGET


def cargo_build(tdir, timeout=2400):
    env = dict(os.environ)
    env['CARGO_NET_OFFLINE'] = 'true'
    env['CARGO_TARGET_DIR'] = tdir
    lock = os.path.join(HERE, 'Cargo.lock')
    if not os.path.exists(lock):
        for cand in (os.path.join(VERIF, 'witness', 'Cargo.lock'), os.path.join(LINK_REPO, 'Cargo.lock')):
            if os.path.exists(cand):
                shutil.copy(cand, lock)
                break
    try:
        p = subprocess.run(['cargo', 'build', '--offline', '--message-format=json'], cwd=HERE, env=env,
                           stdout=subprocess.PIPE, stderr=subprocess.PIPE, timeout=timeout)
    except subprocess.TimeoutExpired:
        return False, [], 'cargo build timed out after %ds' % timeout
    except OSError as e:
        return False, [], 'cargo cannot be run: %s' % e
    errs = []
    for ln in p.stdout.decode('utf-8', 'replace').split('\n'):
        if not ln.startswith('{'):
            continue
        try:
            d = json.loads(ln)
        except ValueError:
            continue
        msg = d.get('message') or {}
        if d.get('reason') == 'compiler-message' and msg.get('level') == 'error':
            spans = [(os.path.basename(s.get('file_name', '')), s.get('line_start')) for s in msg.get('spans', [])]
            for s in msg.get('spans', []):
                exp = s.get('expansion')
                while exp:
                    sp = exp.get('span') or {}
                    spans.append((os.path.basename(sp.get('file_name', '')), sp.get('line_start')))
                    exp = sp.get('expansion')
            errs.append({'message': msg.get('message', ''), 'spans': spans, 'rendered': (msg.get('rendered') or '')[:600]})
    return p.returncode == 0, errs, p.stderr.decode('utf-8', 'replace')[-1500:]


def build_and_run(cuts, consts, args):
    """-> (lines from the binary or None, disabled: {helper: reason}, log)"""
    tdir = target_dir()
    os.makedirs(OWN_TARGET, exist_ok=True)
    disabled = {}
    with open(os.path.join(OWN_TARGET, '.lock'), 'w') as lk:
        fcntl.flock(lk, fcntl.LOCK_EX)
        log = ''
        for attempt in range(3):
            text, ranges = render(cuts, consts, disabled)
            path = os.path.join(HERE, 'src', 'snippets.rs')
            old = open(path, encoding='utf-8').read() if os.path.exists(path) else None
            if old != text:
                with open(path, 'w', encoding='utf-8') as f:
                    f.write(text)
            ok, errs, log = cargo_build(tdir)
            if ok:
                break
            # attribute the errors to helpers by the line ranges of src/snippets.rs
            hit = {}
            foreign = []
            for e in errs:
                owner = None
                for (fname, ln) in e['spans']:
                    if fname == 'snippets.rs' and ln:
                        for name, (a, b) in ranges.items():
                            if a <= ln <= b:
                                owner = name
                if owner and owner not in disabled:
                    hit.setdefault(owner, e['message'][:300])
                elif not owner:
                    foreign.append(e['rendered'] or e['message'])
            if not hit:
                return None, disabled, 'the harness crate does not build against %s: %s' % (LINK_REPO, (' | '.join(foreign)[:1200] or log))
            for name, msg in hit.items():
                disabled[name] = 'the text does not compile in the harness: ' + msg
        else:
            return None, disabled, 'the harness crate does not build: ' + log
        binp = os.path.join(tdir, 'debug', 'r7check')
        try:
            p = subprocess.run([binp] + args, stdout=subprocess.PIPE, stderr=subprocess.PIPE, timeout=1200)
        except subprocess.TimeoutExpired:
            return None, disabled, 'r7check timed out'
        except OSError as e:
            return None, disabled, 'r7check cannot be run: %s' % e
        lines = []
        for ln in p.stdout.decode('utf-8', 'replace').split('\n'):
            if ln.startswith('{'):
                try:
                    lines.append(json.loads(ln))
                except ValueError:
                    pass
        if p.returncode != 0 and not lines:
            return None, disabled, 'r7check rc=%s: %s' % (p.returncode, p.stderr.decode('utf-8', 'replace')[-600:])
        return lines, disabled, ''


def unit_uses(h):
    """Is the lift still in use?  (the unit's template or the prelude file it includes names the helper)"""
    try:
        vu = open(os.path.join(VERIF, 'units', h['unit'] + '.vu'), encoding='utf-8').read()
    except OSError:
        return False
    return h['helper'] in vu


def check(selected):
    """The crate always contains every helper whose text can be cut (so that it is rebuilt only when the tree or the
    harness changes); only the selected helpers are run and reported."""
    t0 = time.time()
    cuts, res, lost = {}, {}, {}
    consts, cnotes = constants()
    for h in HELPERS:
        if h.get('pin_only'):
            continue
        try:
            cuts[h['helper']] = cut(h)
        except Lost as e:
            lost[h['helper']] = str(e)
    wanted = []
    for h in selected:
        name = h['helper']
        if h.get('pin_only'):
            # no harness: only the text is pinned (the quick tier degrades the caller when it differs)
            try:
                c = cut(h)
                st = 'snippet changed' if c['changed'] else 'pinned text unchanged (no bounded harness for this snippet)'
            except Lost as e:
                st = 'snippet changed'
            res[name] = {'helper': name, 'unit': h['unit'], 'fn': '%s::%s' % (h['file'], h['fn']), 'prelude': h['prelude'],
                         'status': st, 'inputs': 0, 'bound': '', 'counterexample': None, 'repo': REPO}
            continue
        base = {'helper': name, 'unit': h['unit'], 'fn': '%s::%s' % (h['file'], h['fn']), 'prelude': h['prelude'],
                'status': None, 'inputs': 0, 'bound': '', 'counterexample': None, 'repo': REPO}
        if h.get('also'):
            base['see_also'] = h['also']
        res[name] = base
        if not unit_uses(h):
            base.update(status='skipped', note='unit %s does not name this helper' % h['unit'])
            continue
        if name in lost:
            alt = h.get('alternative')
            if alt and alt in cuts:
                base.update(status='skipped', note='this form of the expression is not in the tree (the tree has the form lifted into %s); the helper is unused on this tree' % alt)
            else:
                base.update(status='snippet changed', note='%s (nothing to compile; the unit cannot be generated either)' % lost[name])
            continue
        c = cuts[name]
        wanted.append(name)
        base.update(snippet=c['snippet'], site='%s:%d' % c['site'], snippet_sha256=hashlib.sha256(c['snippet'].encode()).hexdigest()[:16],
                    snippet_changed=c['changed'])
        if c['changed']:
            base['pinned'] = h['pinned']
    if wanted:
        lines, disabled, log = build_and_run(cuts, consts, ['some', ','.join(wanted)])
    else:
        lines, disabled, log = [], {}, ''
    by = {l.get('helper'): l for l in (lines or [])}
    for name in wanted:
        c = cuts[name]
        base = res[name]
        if name in disabled:
            if c['changed']:
                base.update(status='snippet changed', note=disabled[name])
            else:
                base.update(status='skipped', note='un-runnable: ' + disabled[name])
            continue
        if lines is None:
            base.update(status='snippet changed' if c['changed'] else 'skipped', note='un-runnable: ' + log[:1500])
            continue
        l = by.get(name)
        if not l:
            base.update(status='skipped', note='un-runnable: the harness printed nothing for this helper')
            continue
        for k in ('inputs', 'bound', 'counterexample', 'observations', 'ms'):
            if k in l:
                base[k] = l[k]
        st = l.get('status')
        if st == 'failed':
            base['status'] = 'failed'
            base['replay_cmd'] = [sys.executable, os.path.abspath(__file__), '--replay', name, json.dumps((l.get('counterexample') or {}).get('input'))]
        elif st == 'ok':
            base['status'] = 'snippet changed' if c['changed'] else 'ok'
            if c['changed']:
                base['note'] = 'the text at the pinned place differs from the pinned text; the new text satisfies the assumed contract on every enumerated input (the unit is exit 2 until its rewrite lines follow the text)'
        else:
            base.update(status='skipped', note=l.get('note', 'not run'))
    out = []
    for h in selected:
        r = res[h['helper']]
        if cnotes and h['helper'] in wanted:
            r['constants_note'] = cnotes
        out.append(r)
    return out, time.time() - t0


def replay(name, inp):
    if name not in BY_NAME:
        return {'found': False, 'error': 'unknown helper %s' % name}
    h = BY_NAME[name]
    consts, _ = constants()
    cuts = {}
    for g in HELPERS:           # the whole crate has to build: cut everything that can be cut
        try:
            cuts[g['helper']] = cut(g)
        except Lost:
            pass
    if name not in cuts:
        return {'found': False, 'helper': name, 'error': 'the expression is not at the pinned place of %s any more' % h['file']}
    lines, disabled, log = build_and_run(cuts, consts, ['replay', name, json.dumps(inp)])
    if lines is None or not lines:
        return {'found': False, 'helper': name, 'error': log or disabled.get(name, 'no output')}
    r = lines[-1]
    r['snippet'] = cuts[name]['snippet']
    r['site'] = '%s:%d' % cuts[name]['site']
    return r


def main(argv):
    if '--list' in argv:
        for h in HELPERS:
            print('%-34s unit=%-13s %s::%s' % (h['helper'], h['unit'], h['file'], h['fn']))
        return 0
    if '--replay' in argv:
        i = argv.index('--replay')
        if len(argv) < i + 3:
            sys.stderr.write(__doc__)
            return 2
        try:
            inp = json.loads(argv[i + 2])
        except ValueError as e:
            print(json.dumps({'found': False, 'error': 'bad json: %s' % e}))
            return 2
        print(json.dumps(replay(argv[i + 1], inp)))
        return 0
    sel = list(HELPERS)
    if '--helpers' in argv:
        names = argv[argv.index('--helpers') + 1].split(',')
        unknown = [n for n in names if n not in BY_NAME]
        if unknown:
            sys.stderr.write('unknown helper(s): %s\n' % unknown)
            return 2
        sel = [h for h in sel if h['helper'] in names]
    if '--units' in argv:
        units = argv[argv.index('--units') + 1].split(',')
        sel = [h for h in sel if h['unit'] in units]
    out, wall = check(sel)
    for r in out:
        r['wall_s'] = round(wall, 1)
        print(json.dumps(r, ensure_ascii=False))
    return 0


if __name__ == '__main__':
    sys.exit(main(sys.argv[1:]))
