// Placeholder: run.py instantiates harness.rs.tmpl (with snippets cut from /repo/src) into
// target/inst/<which>/src/lib.rs and runs `cargo kani` there.  Nothing is verified from this file.
