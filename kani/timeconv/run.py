#!/usr/bin/env python3
"""Kani driver for unit timeconv.

usage: run.py <metadata_from | to_file_time | entry_mtime_roundtrip | entry_mtime_no_panic | entry_size>

Cuts the time-conversion snippets out of the CURRENT source tree ($VERIF_REPO or /repo):
  * src/index/entry.rs  IndexEntry::metadata_from : the `let` statements computing the time fields and the two field
    expressions `mtime: ..` / `mtime_nanos: ..`
  * src/index/entry.rs  <IndexEntry as EntryTrait>::mtime : the whole body
  * src/index/entry.rs  <IndexEntry as EntryTrait>::size : the whole body (R7 lifted one-liner; vectors up to length 3)
  * src/unix_time.rs    <Timestamp as ToFileTime>::to_file_time : the whole body
instantiates harness.rs.tmpl (jiff::Timestamp modelled as the (second, nanosecond) pair with equal signs inside
jiff's range; loop-free; no 128-bit arithmetic), runs the harness under `timeout 300 cargo kani` with concrete
playback, replays the concrete input natively (plain rustc, overflow checks on) and prints ONE JSON line:
  {"found": bool, "input": {...}, "real": .., "expected": .., "explain": .., "replay_cmd": ..}
found=false with "verified": true means Kani proved the harness for the whole domain.
"""
import hashlib
import json
import os
import re
import shutil
import subprocess
import sys

HERE = os.path.dirname(os.path.abspath(__file__))
REPO = os.environ.get('VERIF_REPO', '/repo')
NPS = 1_000_000_000
HARNESSES = ('metadata_from', 'to_file_time', 'entry_mtime_roundtrip', 'entry_mtime_no_panic', 'entry_size')


class Lost(Exception):
    pass


def strip_comments(s):
    return re.sub(r'//[^\n]*', '', s)


def fn_body(text, scope_re, name):
    """Text of `{ ... }` of fn `name` inside the first item whose header matches scope_re (brace matching; the
    snippets contain no braces inside strings or comments)."""
    m = re.search(scope_re, text)
    if not m:
        raise Lost('scope %s not found' % scope_re)
    m2 = re.compile(r'\bfn\s+%s\b[^{;]*\{' % re.escape(name)).search(text, m.end())
    if not m2:
        raise Lost('fn %s not found' % name)
    i = m2.end() - 1
    depth = 0
    for j in range(i, len(text)):
        if text[j] == '{':
            depth += 1
        elif text[j] == '}':
            depth -= 1
            if depth == 0:
                return text[i:j + 1]
    raise Lost('unbalanced braces in fn %s' % name)


def top_statements(body):
    """Split the inside of a `{..}` body into top-level statements (on `;` at bracket depth 0)."""
    inner = body[1:-1]
    out, depth, cur = [], 0, ''
    for c in inner:
        cur += c
        if c in '([{':
            depth += 1
        elif c in ')]}':
            depth -= 1
        elif c == ';' and depth == 0:
            out.append(cur.strip())
            cur = ''
    if cur.strip():
        out.append(cur.strip())
    return out


def cut_snippets():
    entry = open(os.path.join(REPO, 'src/index/entry.rs'), encoding='utf-8').read()
    utime = open(os.path.join(REPO, 'src/unix_time.rs'), encoding='utf-8').read()
    mf = fn_body(entry, r'\nimpl\s+IndexEntry\s*\{', 'metadata_from')
    stmts = top_statements(strip_comments(mf))
    lets = []
    for s in stmts:
        if re.match(r'let\s+mtime\s*=\s*source\.mtime\(\)\s*;', s):
            continue        # `mtime` is the harness parameter
        if s.startswith('let ') and re.search(r'\bmtime\b|\bmtime_\w+\b', s):
            lets.append('    ' + s)
    m1 = re.search(r'\n\s*mtime:\s*(.+?),\s*\n', mf)
    m2 = re.search(r'\n\s*mtime_nanos:\s*(.+?),\s*\n', mf)
    if not m1 or not m2:
        raise Lost('field expressions mtime: / mtime_nanos: not found in metadata_from')
    em = fn_body(entry, r'\nimpl\s+EntryTrait\s+for\s+IndexEntry\s*\{', 'mtime')
    sz = fn_body(entry, r'\nimpl\s+EntryTrait\s+for\s+IndexEntry\s*\{', 'size')
    tf = fn_body(utime, r'\nimpl\s+ToFileTime\s+for\s+Timestamp\s*\{', 'to_file_time')
    return {
        'MF_STMTS': '\n'.join(lets),
        'MF_MTIME': m1.group(1).strip(),
        'MF_NANOS': m2.group(1).strip(),
        'ENTRY_MTIME_BODY': '    ' + em,
        'TO_FILE_TIME_BODY': '    ' + tf,
        'ENTRY_SIZE_BODY': '    ' + sz,
        'REPO': REPO,
    }


def instantiate(which, snippets):
    tmpl = open(os.path.join(HERE, 'harness.rs.tmpl'), encoding='utf-8').read()
    for k, v in snippets.items():
        tmpl = tmpl.replace('{{%s}}' % k, v)
    tag = hashlib.sha256((REPO + tmpl).encode()).hexdigest()[:10]
    inst = os.path.join(HERE, 'target', 'inst', '%s_%s' % (which, tag))
    os.makedirs(os.path.join(inst, 'src'), exist_ok=True)
    os.makedirs(os.path.join(inst, '.cargo'), exist_ok=True)
    shutil.copy(os.path.join(HERE, 'Cargo.toml'), os.path.join(inst, 'Cargo.toml'))
    shutil.copy(os.path.join(HERE, '.cargo', 'config.toml'), os.path.join(inst, '.cargo', 'config.toml'))
    with open(os.path.join(inst, 'src', 'lib.rs'), 'w', encoding='utf-8') as f:
        f.write(tmpl)
    return inst


def parse_playback(out):
    """Concrete values printed by --concrete-playback=print: a list of little-endian byte vectors, in the order of
    the kani::any() calls."""
    m = re.search(r'let concrete_vals: Vec<Vec<u8>> = vec!\[(.*?)\];', out, re.S)
    if not m:
        return None
    vals = []
    for vm in re.finditer(r'vec!\[([0-9,\s]*)\]', m.group(1)):
        bs = [int(x) for x in vm.group(1).replace(' ', '').split(',') if x != '']
        vals.append(bytes(bs))
    return vals


def le_int(b, signed):
    return int.from_bytes(b, 'little', signed=signed)


def floor_repr(sec, subsec):
    return (sec - 1, subsec + NPS) if subsec < 0 else (sec, subsec)


def fmt_instant(sec, subsec):
    sign = '-' if (sec < 0 or subsec < 0) else ''
    return '%s%d.%09d s' % (sign, abs(sec), abs(subsec))


def native_replay(inst, which, a, b):
    exe = os.path.join(inst, 'replay_bin')
    src = os.path.join(inst, 'src', 'lib.rs')
    p = subprocess.run(['rustc', '--edition', '2021', '--crate-type', 'bin', '--cfg', 'replay_main', '-A', 'warnings',
                        '-C', 'overflow-checks=on', '-C', 'debug-assertions=on', '-o', exe, src],
                       stdout=subprocess.PIPE, stderr=subprocess.PIPE)
    if p.returncode != 0:
        return 'native replay did not compile: ' + p.stderr.decode('utf-8', 'replace')[-300:]
    q = subprocess.run([exe, which, str(a), str(b)], stdout=subprocess.PIPE, stderr=subprocess.PIPE, timeout=60)
    return q.stdout.decode('utf-8', 'replace').strip() or ('rc=%d %s' % (q.returncode, q.stderr.decode('utf-8', 'replace')[-200:]))


def main():
    args = [a for a in sys.argv[1:] if not a.startswith('--')]
    if len(args) != 1 or args[0] not in HARNESSES:
        print(json.dumps({'found': False, 'error': 'usage: run.py <%s>' % ' | '.join(HARNESSES)}))
        return 2
    which = args[0]
    replay_cmd = ('VERIF_REPO=%s ' % REPO if REPO != '/repo' else '') + 'python3 %s %s' % (os.path.abspath(__file__), which)
    try:
        snippets = cut_snippets()
    except (Lost, OSError) as e:
        print(json.dumps({'found': False, 'error': 'cannot cut the snippets from %s: %s' % (REPO, e), 'replay_cmd': replay_cmd}))
        return 2
    inst = instantiate(which, snippets)
    env = dict(os.environ)
    env['CARGO_NET_OFFLINE'] = 'true'
    env['CARGO_TARGET_DIR'] = os.path.join(HERE, 'target', 'build')
    cmd = ['timeout', '300', 'cargo', 'kani', '-Z', 'concrete-playback', '--concrete-playback=print', '--harness', which]
    p = subprocess.run(cmd, cwd=inst, env=env, stdout=subprocess.PIPE, stderr=subprocess.STDOUT)
    out = p.stdout.decode('utf-8', 'replace')
    with open(os.path.join(inst, 'kani.log'), 'w') as f:
        f.write(out)
    res = {'found': False, 'harness': which, 'replay_cmd': replay_cmd, 'generated': os.path.join(inst, 'src', 'lib.rs'),
           'snippets': {k: v.strip() for k, v in snippets.items() if k != 'REPO'}}
    if p.returncode == 124:
        res['error'] = 'cargo kani timed out after 300 s'
    elif 'VERIFICATION:- SUCCESSFUL' in out:
        res['verified'] = True
        dom = {'entry_mtime_no_panic': 'every decoded (i64 mtime, u32 mtime_nanos)',
               'entry_size': 'every list of up to 3 decoded addresses'}.get(which, 'every timestamp jiff can represent')
        res['explain'] = 'Kani proved harness `%s` for %s (no counterexample exists)' % (which, dom)
    elif 'VERIFICATION:- FAILED' in out:
        failed = re.findall(r'Failed Checks: (.*)', out)
        vals = parse_playback(out)
        res['failed_checks'] = failed[:4]
        if which == 'entry_size':
            # inputs: (start, len) x 3, then n -- all unsigned little-endian
            if vals and len(vals) >= 7:
                lens = [le_int(vals[1], False), le_int(vals[3], False), le_int(vals[5], False)]
                n = le_int(vals[6], False)
                lens = lens[:n]
                tot = sum(lens)
                res['found'] = True
                res['input'] = {'addr_lens': lens}
                res['real'] = ('debug build: PANIC attempt to add with overflow; release build: wraps to %d' % (tot % 2**64)) if tot >= 2**64 else 'see failed_checks'
                res['expected'] = 'no panic' + ('' if tot >= 2**64 else ', Some(%d)' % tot)
                res['explain'] = ('an index entry decoded with address lengths %s (sum %d %s u64::MAX): IndexEntry::size() %s'
                                  % (lens, tot, '>' if tot >= 2**64 else '<=', res['real']))
            else:
                res['error'] = 'Kani failed the harness but printed no concrete values'
        elif vals and len(vals) >= 2:
            a = le_int(vals[0], True)
            b = le_int(vals[1], which != 'entry_mtime_no_panic')
            real = native_replay(inst, which, a, b)
            res['found'] = True
            res['real'] = real
            if which == 'entry_mtime_no_panic':
                res['input'] = {'mtime': a, 'mtime_nanos': b}
                res['expected'] = 'no panic (any Timestamp, or an error the caller can report)'
                res['explain'] = ('an index entry decoded with mtime=%d, mtime_nanos=%d makes IndexEntry::mtime() %s'
                                  % (a, b, 'panic' if real.startswith('PANIC') else 'return ' + real))
            else:
                s, n = floor_repr(a, b)
                res['input'] = {'sec': a, 'subsec': b, 'instant': fmt_instant(a, b)}
                if which == 'metadata_from':
                    res['expected'] = '(mtime, mtime_nanos) = (%d, %d)' % (s, n)
                    what = 'IndexEntry::metadata_from'
                elif which == 'to_file_time':
                    res['expected'] = 'FileTime { seconds: %d, nanos: %d }' % (s, n)
                    what = 'Timestamp::to_file_time'
                else:
                    res['expected'] = 'Timestamp { sec: %d, subsec: %d }' % (a, b)
                    what = 'IndexEntry { mtime: %d, mtime_nanos: %d }.mtime()' % (s, n)
                res['explain'] = ('a file mtime of %s (jiff: as_second()=%d, subsec_nanosecond()=%d): %s gives %s, expected %s'
                                  % (fmt_instant(a, b), a, b, what, real, res['expected']))
        else:
            res['error'] = 'Kani failed the harness but printed no concrete values'
    else:
        res['error'] = 'cargo kani rc=%d: %s' % (p.returncode, out[-400:])
    print(json.dumps(res))
    return 0


if __name__ == '__main__':
    sys.exit(main())
