#!/usr/bin/env python3
"""Kani driver for the loop-free integer kernels of conserve (DESIGN 1: Kani = complete proof over the full
machine-integer domain of an arithmetic kernel AND the source of concrete counterexamples for replay).

usage: run.py <kernel>         one kernel, prints ONE JSON line
       run.py --selftest [kernel ..]   run each kernel against a deliberately broken scratch copy of the source; must find a counterexample
       run.py --all [--jobs N] every kernel, prints a summary table (and one JSON line per kernel with --json)
       run.py --list           kernel names

For one kernel the driver
  1. cuts the expression / statement / function text out of the CURRENT source tree ($VERIF_REPO or /repo) with the
     regexes listed in the result under "regex" (if the text is not found: {"found": false, "error": "snippet changed"}),
  2. instantiates templates/_common.rs.tmpl + templates/<kernel>.rs.tmpl into target/inst/<kernel>_<tag>/src/lib.rs,
  3. runs `timeout 300 cargo kani -Z concrete-playback --concrete-playback=print` there (all harnesses of the kernel),
  4. when every proof harness verifies: {"found": false, "status": "proved", "domain": ...};
     when one fails: decodes the concrete values Kani printed, replays them natively (plain rustc, once with and once
     without overflow checks = debug / release build) and prints
     {"found": true, "input": .., "real": .., "expected": .., "explain": .., "replay_cmd": ..}.
Harnesses marked #[kani::should_panic] are NECESSITY checks of a precondition (e.g. next_sibling overflows at u32::MAX);
they are reported under "necessity" and never turn a kernel into "found".
"""
import hashlib
import json
import os
import re
import shutil
import subprocess
import sys
import time

HERE = os.path.dirname(os.path.abspath(__file__))
REPO = os.environ.get('VERIF_REPO', '/repo')
KANI_TIMEOUT = 300
U64 = 2 ** 64
U32 = 2 ** 32


class Lost(Exception):
    """The text the harness is built from is not where / what it was."""


# ------------------------------------------------------------------------------------------------ text helpers

def read_src(rel):
    try:
        return open(os.path.join(REPO, rel), encoding='utf-8').read()
    except OSError as e:
        raise Lost('%s: %s' % (rel, e))


def strip_comments(s):
    return re.sub(r'//[^\n]*', '', s)


def fn_body(text, scope_re, name):
    """Text `{ ... }` of the first `fn name` after the first match of scope_re (brace matching; the snippets contain
    no braces inside strings or comments)."""
    m = re.search(scope_re, text)
    if not m:
        raise Lost('scope /%s/ not found' % scope_re)
    m2 = re.compile(r'\bfn\s+%s\b[^{;]*\{' % re.escape(name)).search(text, m.end())
    if not m2:
        raise Lost('fn %s not found' % name)
    i = m2.end() - 1
    depth = 0
    for j in range(i, len(text)):
        if text[j] == '{':
            depth += 1
        elif text[j] == '}':
            depth -= 1
            if depth == 0:
                return text[i:j + 1]
    raise Lost('unbalanced braces in fn %s' % name)


def top_statements(body):
    """Split the inside of a `{..}` body into top-level statements (on `;` at bracket depth 0)."""
    inner = body[1:-1]
    out, depth, cur = [], 0, ''
    for c in inner:
        cur += c
        if c in '([{':
            depth += 1
        elif c in ')]}':
            depth -= 1
        elif c == ';' and depth == 0:
            out.append(cur.strip())
            cur = ''
    if cur.strip():
        out.append(cur.strip())
    return out


def stmt_at(text, regex, what):
    """The statement starting at the unique match of regex, up to the `;` at bracket depth 0."""
    ms = list(re.finditer(regex, text))
    if len(ms) != 1:
        raise Lost('%s: /%s/ matches %d times' % (what, regex, len(ms)))
    depth = 0
    for j in range(ms[0].start(), len(text)):
        c = text[j]
        if c in '([{':
            depth += 1
        elif c in ')]}':
            depth -= 1
            if depth < 0:
                break
        elif c == ';' and depth == 0:
            return text[ms[0].start():j + 1]
    raise Lost('%s: statement has no end' % what)


def one(regex, text, what, flags=re.S):
    ms = list(re.finditer(regex, text, flags))
    if len(ms) != 1:
        raise Lost('%s: /%s/ matches %d times' % (what, regex, len(ms)))
    return ms[0]


def split_args(s):
    out, depth, cur = [], 0, ''
    for c in s:
        if c in '([{':
            depth += 1
        elif c in ')]}':
            depth -= 1
        if c == ',' and depth == 0:
            out.append(cur.strip())
            cur = ''
        else:
            cur += c
    if cur.strip():
        out.append(cur.strip())
    return out


def oneline(s):
    return re.sub(r'\s+', ' ', s).strip()


# ------------------------------------------------------------------------------------------------ cutters
# each returns (placeholders, regexes-used)

R_CONST_HUNKS = r'(?m)^[ \t]*pub\s+const\s+HUNKS_PER_SUBDIR\s*:\s*u32\s*=\s*[^;]+;'


def cut_read_address_bounds():
    body = strip_comments(fn_body(read_src('src/blockdir.rs'), r'\nimpl\s+BlockDir\s*\{', 'read_address'))
    stmts = top_statements(body)
    r_first = r'^let\s+bytes\s*=\s*self\s*\.\s*get_block_content\s*\(.*\)\s*\.\s*await\s*\?\s*;$'
    if not stmts or not re.match(r_first, stmts[0], re.S):
        raise Lost('read_address does not start with `let bytes = self.get_block_content(..).await?;`')
    rest = stmts[1:]
    joined = '\n'.join('    ' + s for s in rest)
    if not rest or re.search(r'\.\s*await\b|\bself\b', joined):
        raise Lost('read_address: the text after the block fetch is no longer pure arithmetic on (address, bytes)')
    if not re.search(r'\baddress\s*\.\s*(start|len)\b', joined) or not re.search(r'\bbytes\s*\.\s*slice\s*\(', joined):
        raise Lost('read_address: no address.start/address.len or no bytes.slice(..) after the block fetch')
    return ({'BODY_AFTER_FETCH': joined},
            {'scope': r'\nimpl\s+BlockDir\s*\{ ... \bfn\s+read_address\b[^{;]*\{ (brace-matched body, comments stripped)',
             'dropped first statement': r_first,
             'kept': 'every following top-level statement, verbatim, up to and including the tail expression'})


def cut_validate_end():
    body = strip_comments(fn_body(read_src('src/validate.rs'), r'', 'validate_stored_tree'))
    r = r'\blet\s+end\b[^=;]*='
    st = stmt_at(body, r, 'validate_stored_tree `let end = ..;`')
    if not re.search(r'\baddr\s*\.\s*start\b', st) or not re.search(r'\baddr\s*\.\s*len\b', st):
        raise Lost('validate_stored_tree: `let end` no longer computed from addr.start and addr.len')
    return ({'END_STMT': st},
            {'scope': r'\bfn\s+validate_stored_tree\b[^{;]*\{ (brace-matched body, comments stripped)',
             'END_STMT': r + '  ... up to the `;` at bracket depth 0'})


def _format_args(body, what):
    inner = strip_comments(body)[1:-1].strip()
    r = r'^format!\s*\(\s*"((?:[^"\\]|\\.)*)"\s*,(.*)\)$'
    m = re.match(r, inner, re.S)
    if not m:
        raise Lost('%s: body is not a single format!("..", args) call' % what)
    return m.group(1), split_args(m.group(2)), r


def cut_hunk_path_arith():
    text = read_src('src/index/mod.rs')
    c = one(R_CONST_HUNKS, text, 'const HUNKS_PER_SUBDIR', 0).group(0).strip()
    hfmt, hargs, r = _format_args(fn_body(text, r'', 'hunk_relpath'), 'hunk_relpath')
    sfmt, sargs, _ = _format_args(fn_body(text, r'', 'subdir_relpath'), 'subdir_relpath')
    if not re.match(r'^\{:0\d+\}/\{:0\d+\}$', hfmt) or len(hargs) != 2:
        raise Lost('hunk_relpath: format string %r with %d arguments is not `{:0W}/{:0W}` with 2' % (hfmt, len(hargs)))
    if not re.match(r'^\{:0\d+\}$', sfmt) or len(sargs) != 1:
        raise Lost('subdir_relpath: format string %r with %d arguments is not `{:0W}` with 1' % (sfmt, len(sargs)))
    return ({'CONST_ITEM': c, 'HUNK_FMT': '"%s"' % hfmt, 'SUBDIR_FMT': '"%s"' % sfmt,
             'HUNK_ARG0': hargs[0], 'HUNK_ARG1': hargs[1], 'SUBDIR_ARG0': sargs[0]},
            {'CONST_ITEM': R_CONST_HUNKS,
             'scope': r'\bfn\s+(hunk_relpath|subdir_relpath)\b[^{;]*\{ (brace-matched body, comments stripped)',
             'format call': r + '  ; group 2 split at top-level commas',
             'format string shape': r'^\{:0\d+\}/\{:0\d+\}$  /  ^\{:0\d+\}$'})


def cut_band_id_arith():
    text = read_src('src/bandid.rs')
    scope = r'\nimpl\s+BandId\s*\{'
    return ({'NEXT_SIBLING_BODY': fn_body(text, scope, 'next_sibling'), 'PREVIOUS_BODY': fn_body(text, scope, 'previous')},
            {'scope': scope + r' ... \bfn\s+(next_sibling|previous)\b[^{;]*\{ (brace-matched whole bodies)'})


def cut_index_writer_counters():
    c = one(R_CONST_HUNKS, read_src('src/index/mod.rs'), 'const HUNKS_PER_SUBDIR', 0).group(0).strip()
    body = strip_comments(fn_body(read_src('src/index/write.rs'), r'\nimpl\s+IndexWriter\s*\{', 'finish_hunk'))
    r_cond = r'\bif\s+([^{}]+?)\s*\{\s*self\s*\.\s*transport\s*\.\s*create_dir\s*\('
    r_hw = r'\bself\s*\.\s*hunks_written\s*[-+*/]?=(?!=)[^;]*;'
    r_seq = r'\bself\s*\.\s*sequence\s*[-+*/]?=(?!=)[^;]*;'
    cond = one(r_cond, body, 'finish_hunk create_dir condition').group(1)
    hw = one(r_hw, body, 'finish_hunk `self.hunks_written .. ;`').group(0)
    seq = one(r_seq, body, 'finish_hunk `self.sequence .. ;`').group(0)
    return ({'CONST_ITEM': c, 'CREATE_DIR_COND': cond, 'HUNKS_WRITTEN_STMT': hw, 'SEQUENCE_STMT': seq},
            {'CONST_ITEM': R_CONST_HUNKS,
             'scope': r'\nimpl\s+IndexWriter\s*\{ ... \bfn\s+finish_hunk\b[^{;]*\{ (brace-matched body, comments stripped)',
             'CREATE_DIR_COND': r_cond, 'HUNKS_WRITTEN_STMT': r_hw, 'SEQUENCE_STMT': r_seq})


def cut_unix_mode_mask():
    text = read_src('src/unix_mode.rs')
    r_c = r'(?m)^[ \t]*const\s+MODE_BITS\s*:\s*u32\s*=\s*[^;]+;'
    c = one(r_c, text, 'const MODE_BITS', 0).group(0).strip()
    s1 = r'\nimpl\s+From<u32>\s+for\s+UnixMode\s*\{'
    s2 = r'\nimpl\s+UnixMode\s*\{'
    return ({'CONST_ITEM': c, 'FROM_BODY': fn_body(text, s1, 'from'), 'READONLY_BODY': fn_body(text, s2, 'readonly')},
            {'CONST_ITEM': r_c, 'FROM_BODY': s1 + r' ... \bfn\s+from\b[^{;]*\{ (whole body)',
             'READONLY_BODY': s2 + r' ... \bfn\s+readonly\b[^{;]*\{ (whole body)'})


def cut_combiner_flush_conv():
    body = strip_comments(fn_body(read_src('src/backup.rs'), r'\nimpl\s+FileCombiner\s*\{', 'flush'))
    r_s = r'\bstart\s*:\s*([^,{}]*\bqf\b[^,{}]*),'
    r_l = r'\blen\s*:\s*([^,{}]*\bqf\b[^,{}]*),'
    return ({'START_EXPR': one(r_s, body, 'flush `start: qf..,`').group(1).strip(),
             'LEN_EXPR': one(r_l, body, 'flush `len: qf..,`').group(1).strip()},
            {'scope': r'\nimpl\s+FileCombiner\s*\{ ... \bfn\s+flush\b[^{;]*\{ (brace-matched body, comments stripped)',
             'START_EXPR': r_s, 'LEN_EXPR': r_l})


def cut_combiner_push_arith():
    body = strip_comments(fn_body(read_src('src/backup.rs'), r'\nimpl\s+FileCombiner\s*\{', 'push_file'))
    r_e = r'\blet\s+expected_len\b[^=;]*='
    r_r = r'\bself\s*\.\s*buf\s*\.\s*resize\s*\(\s*([^;]+?)\s*,\s*0\s*\)\s*;'
    r_t = r'\bself\s*\.\s*buf\s*\.\s*truncate\s*\(\s*([^;]*\blen\b[^;]*?)\s*\)\s*;'
    est = stmt_at(body, r_e, 'push_file `let expected_len ..;`')
    if not re.search(r'\bentry\s*\.\s*size\s*\(\s*\)', est):
        raise Lost('push_file: expected_len is no longer computed from entry.size()')
    return ({'EXPECTED_LEN_STMT': oneline(est), 'RESIZE_ARG': oneline(one(r_r, body, 'push_file self.buf.resize(.., 0)').group(1)),
             'TRUNCATE_ARG': oneline(one(r_t, body, 'push_file self.buf.truncate(.. len ..)').group(1))},
            {'scope': r'\nimpl\s+FileCombiner\s*\{ ... \bfn\s+push_file\b[^{;]*\{ (brace-matched body, comments stripped)',
             'EXPECTED_LEN_STMT': r_e + '  ... up to the `;` at bracket depth 0', 'RESIZE_ARG': r_r, 'TRUNCATE_ARG': r_t})


def cut_store_len_conv():
    body = strip_comments(fn_body(read_src('src/blockdir.rs'), r'\nimpl\s+BlockDir\s*\{', 'store_or_deduplicate'))
    r_u = r'\blet\s+uncomp_len\b[^=;]*='
    r_c = r'\blet\s+comp_len\b[^=;]*='
    ust = stmt_at(body, r_u, 'store_or_deduplicate `let uncomp_len ..;`')
    cst = stmt_at(body, r_c, 'store_or_deduplicate `let comp_len ..;`')
    if not re.search(r'\bblock_data\s*\.\s*len\s*\(\s*\)', ust) or not re.search(r'\bcompressed\s*\.\s*len\s*\(\s*\)', cst):
        raise Lost('store_or_deduplicate: uncomp_len / comp_len no longer computed from block_data.len() / compressed.len()')
    body2 = strip_comments(fn_body(read_src('src/backup.rs'), r'', 'store_file_content'))
    r_b = r'\blet\s+len\b[^=;]*=\s*buffer\b'
    bst = stmt_at(body2, r_b, 'store_file_content `let len = buffer..;`')
    return ({'UNCOMP_LEN_STMT': oneline(ust), 'COMP_LEN_STMT': oneline(cst), 'BUFFER_LEN_STMT': oneline(bst)},
            {'scope': r'\nimpl\s+BlockDir\s*\{ ... \bfn\s+store_or_deduplicate\b ; \bfn\s+store_file_content\b (src/backup.rs)',
             'UNCOMP_LEN_STMT': r_u + '  ... up to `;`', 'COMP_LEN_STMT': r_c + '  ... up to `;`', 'BUFFER_LEN_STMT': r_b + '  ... up to `;`'})


def cut_archive_len_compare():
    body = strip_comments(fn_body(read_src('src/archive.rs'), r'\nimpl\s+Archive\s*\{', 'validate'))
    r_c = r'\bif\s+([^{}]*\breferenced_len\b[^{}]*\bactual_len\b[^{}]*?|[^{}]*\bactual_len\b[^{}]*\breferenced_len\b[^{}]*?)\s*\{\s*monitor\s*\.\s*error\s*\(\s*Error::BlockTooShort'
    r_r = r'\breferenced_len\s*:\s*([^,{}]+),'
    return ({'COND': oneline(one(r_c, body, 'validate `if referenced_len .. actual_len {` before BlockTooShort').group(1)),
             'REPORTED_EXPR': oneline(one(r_r, body, 'validate `referenced_len: ..,`').group(1))},
            {'scope': r'\nimpl\s+Archive\s*\{ ... \bfn\s+validate\b[^{;]*\{ (brace-matched body, comments stripped)',
             'COND': r_c, 'REPORTED_EXPR': r_r})


# ------------------------------------------------------------------------------------------------ expected values

def _ra_expected(h, v):
    s = v['start'] + v['len']
    return 'Err(BlockTooShort)' if s > v['actual_len'] else 'Ok(slice [%d, %d))' % (v['start'], s)


def _ve_expected(h, v):
    s = v['start'] + v['len']
    return 'Err(InvalidMetadata)' if s >= U64 else 'Ok(%d)' % s


def _hp_expected(h, v):
    if h == 'hunk_numbers_injective':
        return 'two different (subdir, file) pairs: (%d, %d) and (%d, %d)' % (v['n1'] // 10000, v['n1'], v['n2'] // 10000, v['n2'])
    return '((%d, %d), %d)' % (v['n'] // 10000, v['n'], v['n'] // 10000)


def _bi_expected(h, v):
    x = v['x']
    if h == 'previous_is_predecessor':
        return 'None' if x == 0 else 'Some(BandId(%d))' % (x - 1)
    if h == 'previous_of_next':
        return 'Some(BandId(%d))' % x
    return 'BandId(%d)' % (x + 1)


def _iw_expected(h, v):
    return '(create_dir=%s, sequence=%d, hunks_written=%d)' % ('true' if v['sequence'] % 10000 == 0 else 'false', v['sequence'] + 1, v['hunks_written'] + 1)


def _um_expected(h, v):
    return 'UnixMode(Some(%d)) [= 0o%o], readonly=%s' % (v['mode'] & 0o7777, v['mode'] & 0o7777, 'true' if v['mode'] & 0o200 == 0 else 'false')


def _cf_expected(h, v):
    return '(%d, %d)' % (v['start'], v['len'])


def _cp_expected(h, v):
    return '(expected_len=%d, resize_to=%d, truncate_to=%d), no panic' % (v['size'], v['start'] + v['size'], v['start'] + v['read_len'])


def _sl_expected(h, v):
    return '%d' % v['len'] if h == 'store_file_content_len' else '(%d, %d)' % (v['block_len'], v['compressed_len'])


def _al_expected(h, v):
    return ('Some((%d, %d))  [BlockTooShort reported]' % (v['actual_len'], v['referenced_len'])) if v['referenced_len'] > v['actual_len'] else 'None  [nothing reported]'


# ------------------------------------------------------------------------------------------------ kernel table
# harness inputs: the kani::any() calls of the harness IN ORDER, (name, bits, signed)

def U(n, b):
    return (n, b, False)


KERNELS = {
    'read_address_bounds': {
        'cut': cut_read_address_bounds, 'src': 'src/blockdir.rs BlockDir::read_address',
        'domain': 'all (address.start: u64, address.len: u64, bytes.len(): usize) = 2^192 triples, 64-bit target',
        'proofs': {'read_address_bounds': [U('start', 64), U('len', 64), U('actual_len', 64)]},
        'necessity': {}, 'expected': _ra_expected,
        'call': 'read_address(Address{start: %(start)d, len: %(len)d}) on a block of %(actual_len)d bytes',
    },
    'validate_end': {
        'cut': cut_validate_end, 'src': 'src/validate.rs validate_stored_tree',
        'domain': 'all (addr.start: u64, addr.len: u64) = 2^128 pairs',
        'proofs': {'validate_end': [U('start', 64), U('len', 64)]},
        'necessity': {}, 'expected': _ve_expected,
        'call': 'validate_stored_tree on an entry with Address{start: %(start)d, len: %(len)d}: `let end`',
    },
    'hunk_path_arith': {
        'cut': cut_hunk_path_arith, 'src': 'src/index/mod.rs hunk_relpath, subdir_relpath, HUNKS_PER_SUBDIR',
        'domain': 'all hunk_number: u32 (2^32); injectivity over all pairs n1 != n2 of u32 (2^64)',
        'proofs': {'hunk_numbers_match_format': [U('n', 32)], 'hunk_numbers_injective': [U('n1', 32), U('n2', 32)]},
        'necessity': {}, 'expected': _hp_expected,
        'call': 'number arguments of hunk_relpath / subdir_relpath for %s',
    },
    'band_id_arith': {
        'cut': cut_band_id_arith, 'src': 'src/bandid.rs BandId::next_sibling, BandId::previous',
        'domain': 'all BandId(x: u32): next_sibling for x < u32::MAX, previous for every x, previous(next_sibling(x)) for x < u32::MAX',
        'proofs': {'next_is_successor': [U('x', 32)], 'previous_is_predecessor': [U('x', 32)], 'previous_of_next': [U('x', 32)]},
        'necessity': {'next_overflows_at_max': 'BandId(u32::MAX).next_sibling() fails the overflow check of `self.0 + 1` '
                                               '(debug builds panic "attempt to add with overflow", release builds wrap to BandId(0)); '
                                               'x < u32::MAX (C10.band_id_below_max) is necessary'},
        'expected': _bi_expected, 'call': 'BandId(%(x)d)',
    },
    'index_writer_counters': {
        'cut': cut_index_writer_counters, 'src': 'src/index/write.rs IndexWriter::finish_hunk',
        'domain': 'all (sequence: u32, hunks_written: usize) with hunks_written == sequence and sequence < u32::MAX',
        'proofs': {'finish_hunk_counters': [U('sequence', 32), U('hunks_written', 64)]},
        'necessity': {'sequence_overflows_at_max': '`self.sequence += 1` fails its overflow check at sequence == u32::MAX '
                                                   '(debug: panic, release: wraps to 0 and hunk 0 would be rewritten -> CreateNew error); '
                                                   'sequence < u32::MAX is necessary'},
        'expected': _iw_expected, 'call': 'finish_hunk counters from sequence=%(sequence)d, hunks_written=%(hunks_written)d',
    },
    'unix_mode_mask': {
        'cut': cut_unix_mode_mask, 'src': 'src/unix_mode.rs From<u32> for UnixMode, UnixMode::readonly',
        'domain': 'all mode: u32 (2^32)',
        'proofs': {'from_u32_keeps_12_bits': [U('mode', 32)], 'readonly_is_owner_write_clear': [U('mode', 32)]},
        'necessity': {}, 'expected': _um_expected, 'call': 'UnixMode::from(%(mode)d)',
    },
    'combiner_flush_conv': {
        'cut': cut_combiner_flush_conv, 'src': 'src/backup.rs FileCombiner::flush (qf.start / qf.len .try_into().unwrap())',
        'domain': 'all (qf.start: usize, qf.len: usize) = 2^128 pairs, 64-bit target',
        'proofs': {'flush_address_fields': [U('start', 64), U('len', 64)]},
        'necessity': {}, 'expected': _cf_expected, 'call': 'flush: Address fields of QueuedFile{start: %(start)d, len: %(len)d}',
    },
    'combiner_push_arith': {
        'cut': cut_combiner_push_arith, 'src': 'src/backup.rs FileCombiner::push_file (expected_len, start + expected_len, start + len)',
        'domain': 'all (size: u64, start: usize, max_block_size: usize, read_len: usize) with size + max_block_size <= usize::MAX, '
                  '(start == 0 or start < max_block_size), read_len <= size; 64-bit target',
        'proofs': {'push_file_arith': [U('size', 64), U('start', 64), U('max_block_size', 64), U('read_len', 64)]},
        'necessity': {}, 'expected': _cp_expected,
        'call': 'push_file of a file of size %(size)d with %(start)d bytes buffered, max_block_size %(max_block_size)d, read returning %(read_len)d',
    },
    'store_len_conv': {
        'cut': cut_store_len_conv, 'src': 'src/blockdir.rs store_or_deduplicate (uncomp_len, comp_len); src/backup.rs store_file_content (len)',
        'domain': 'all buffer lengths: usize (pairs: 2^128), 64-bit target',
        'proofs': {'store_lens': [U('block_len', 64), U('compressed_len', 64)], 'store_file_content_len': [U('len', 64)]},
        'necessity': {}, 'expected': _sl_expected, 'call': 'length conversions for %s',
    },
    'archive_len_compare': {
        'cut': cut_archive_len_compare, 'src': 'src/archive.rs Archive::validate step 3b',
        'domain': 'all (referenced_len: u64, actual_len: usize) = 2^128 pairs, 64-bit target',
        'proofs': {'len_check': [U('referenced_len', 64), U('actual_len', 64)]},
        'necessity': {}, 'expected': _al_expected,
        'call': 'Archive::validate length check with referenced_len=%(referenced_len)d, actual_len=%(actual_len)d',
    },
}
ORDER = ['read_address_bounds', 'validate_end', 'hunk_path_arith', 'band_id_arith', 'index_writer_counters', 'unix_mode_mask',
         'combiner_flush_conv', 'combiner_push_arith', 'store_len_conv', 'archive_len_compare']


# ------------------------------------------------------------------------------------------------ instantiate / run

def instantiate(kernel, snippets):
    tmpl = open(os.path.join(HERE, 'templates', '_common.rs.tmpl'), encoding='utf-8').read() + '\n' + \
        open(os.path.join(HERE, 'templates', kernel + '.rs.tmpl'), encoding='utf-8').read()
    subst = dict(snippets)
    subst['KERNEL'] = kernel
    subst['REPO'] = REPO
    for k, v in subst.items():
        tmpl = tmpl.replace('{{%s}}' % k, v)
    left = re.findall(r'\{\{[A-Z0-9_]+\}\}', tmpl)
    if left:
        raise Lost('template placeholders not filled: %s' % left)
    tag = hashlib.sha256((REPO + tmpl).encode()).hexdigest()[:10]
    inst = os.path.join(HERE, 'target', 'inst', '%s_%s' % (kernel, tag))
    os.makedirs(os.path.join(inst, 'src'), exist_ok=True)
    os.makedirs(os.path.join(inst, '.cargo'), exist_ok=True)
    shutil.copy(os.path.join(HERE, 'Cargo.toml'), os.path.join(inst, 'Cargo.toml'))
    shutil.copy(os.path.join(HERE, '.cargo', 'config.toml'), os.path.join(inst, '.cargo', 'config.toml'))
    with open(os.path.join(inst, 'src', 'lib.rs'), 'w', encoding='utf-8') as f:
        f.write(tmpl)
    return inst


def split_harness_output(out):
    """{harness: text} from the `Checking harness harnesses::<name>...` sections, and {harness: playback text}."""
    secs, play = {}, {}
    parts = re.split(r'(?m)^Checking harness (?:\w+::)*(\w+)\.\.\.', out)
    for i in range(1, len(parts) - 1, 2):
        secs[parts[i]] = parts[i + 1]
    for m in re.finditer(r'Concrete playback unit test for `(?:\w+::)*(\w+)`:(.*?)(?=Concrete playback unit test for|Checking harness|Manual Harness Summary|Complete - |\Z)', out, re.S):
        play[m.group(1)] = m.group(2)
    return secs, play


def parse_playback(txt):
    m = re.search(r'let concrete_vals: Vec<Vec<u8>> = vec!\[(.*?)\];', txt, re.S)
    if not m:
        return None
    vals = []
    for vm in re.finditer(r'vec!\[([0-9,\s]*)\]', m.group(1)):
        vals.append(bytes(int(x) for x in vm.group(1).replace(' ', '').replace('\n', '').split(',') if x != ''))
    return vals


def native_replay(inst, harness, argv):
    src = os.path.join(inst, 'src', 'lib.rs')
    outs = {}
    for build, flags in (('debug', ['-C', 'overflow-checks=on', '-C', 'debug-assertions=on']),
                         ('release', ['-C', 'overflow-checks=off', '-C', 'debug-assertions=off', '-C', 'opt-level=1'])):
        exe = os.path.join(inst, 'replay_bin_' + build)
        p = subprocess.run(['rustc', '--edition', '2021', '--crate-type', 'bin', '--cfg', 'replay_main', '-A', 'warnings',
                            '-o', exe, src] + flags, stdout=subprocess.PIPE, stderr=subprocess.PIPE)
        if p.returncode != 0:
            outs[build] = 'native replay did not compile: ' + p.stderr.decode('utf-8', 'replace')[-300:]
            continue
        try:
            q = subprocess.run([exe, harness] + [str(a) for a in argv], stdout=subprocess.PIPE, stderr=subprocess.PIPE, timeout=60)
            outs[build] = q.stdout.decode('utf-8', 'replace').strip() or ('rc=%d %s' % (q.returncode, q.stderr.decode('utf-8', 'replace')[-200:]))
        except subprocess.TimeoutExpired:
            outs[build] = 'native replay timed out'
    if outs['debug'] == outs['release']:
        return outs['debug']
    return 'debug build: %s; release build: %s' % (outs['debug'], outs['release'])


def run_kernel(kernel):
    t0 = time.time()
    K = KERNELS[kernel]
    replay_cmd = ('VERIF_REPO=%s ' % REPO if REPO != '/repo' else '') + 'python3 %s %s' % (os.path.abspath(__file__), kernel)
    res = {'found': False, 'kernel': kernel, 'source': K['src'], 'repo': REPO, 'replay_cmd': replay_cmd}
    try:
        snippets, regexes = K['cut']()
        inst = instantiate(kernel, snippets)
    except Lost as e:
        res.update({'status': 'error', 'error': 'snippet changed', 'detail': str(e), 'wall_s': round(time.time() - t0, 2)})
        return res
    res['regex'] = regexes
    res['snippets'] = {k: oneline(v) for k, v in snippets.items()}
    res['generated'] = os.path.join(inst, 'src', 'lib.rs')
    env = dict(os.environ)
    env['CARGO_NET_OFFLINE'] = 'true'
    env['CARGO_TARGET_DIR'] = os.path.join(HERE, 'target', 'build', kernel)
    cmd = ['timeout', str(KANI_TIMEOUT), 'cargo', 'kani', '-Z', 'concrete-playback', '--concrete-playback=print']
    tk = time.time()
    p = subprocess.run(cmd, cwd=inst, env=env, stdout=subprocess.PIPE, stderr=subprocess.STDOUT)
    res['kani_wall_s'] = round(time.time() - tk, 2)
    out = p.stdout.decode('utf-8', 'replace')
    with open(os.path.join(inst, 'kani.log'), 'w') as f:
        f.write(out)
    res['kani_log'] = os.path.join(inst, 'kani.log')
    if p.returncode == 124:
        res.update({'status': 'error', 'error': 'cargo kani timed out after %d s' % KANI_TIMEOUT, 'wall_s': round(time.time() - t0, 2)})
        return res
    secs, play = split_harness_output(out)
    hs = {}
    for h in list(K['proofs']) + list(K['necessity']):
        txt = secs.get(h)
        if txt is None:
            hs[h] = {'result': 'missing'}
            continue
        tm = re.search(r'Verification Time: ([0-9.]+)s', txt)
        ok = 'VERIFICATION:- SUCCESSFUL' in txt
        hs[h] = {'result': 'verified' if ok else ('failed' if 'VERIFICATION:- FAILED' in txt else 'unknown'),
                 'cbmc_s': float(tm.group(1)) if tm else None}
        fc = [oneline(x) for x in re.findall(r'Failed Checks: (.*)', txt)][:6]
        if fc:
            hs[h]['failed_checks'] = fc
    res['harnesses'] = hs
    res['cbmc_s'] = round(sum(h.get('cbmc_s') or 0 for h in hs.values()), 3)
    if any(h['result'] in ('missing', 'unknown') for h in hs.values()):
        cerr = re.findall(r'(?m)^error(?:\[E\d+\])?: .*', out)
        res.update({'status': 'error',
                    'error': ('the harness does not compile with the current snippet: ' + ' | '.join(cerr[:3])) if cerr
                    else 'cargo kani rc=%d: %s' % (p.returncode, out[-400:]),
                    'wall_s': round(time.time() - t0, 2)})
        return res
    res['necessity'] = {h: {'claim': K['necessity'][h], 'result': 'confirmed' if hs[h]['result'] == 'verified' else
                            'NOT confirmed (the overflow check is not reached any more: the precondition may be droppable)',
                            'panic_found_by_kani': hs[h].get('failed_checks', [])}
                        for h in K['necessity']}
    failed = [h for h in K['proofs'] if hs[h]['result'] == 'failed']
    if not failed:
        res.update({'status': 'proved', 'verified': True, 'domain': K['domain'],
                    'explain': 'Kani proved %s for %s (no counterexample exists)' % (', '.join('`%s`' % h for h in K['proofs']), K['domain'])})
        res['wall_s'] = round(time.time() - t0, 2)
        return res
    h = failed[0]
    res['status'] = 'counterexample'
    res['harness'] = h
    res['failed_checks'] = hs[h].get('failed_checks', [])
    vals = parse_playback(play.get(h, ''))
    pc = re.search(r'Check for `\w+`: "(.*)"', play.get(h, ''))
    if pc:
        res['playback_check'] = pc.group(1)      # the failed check the concrete values were generated for
    spec = K['proofs'][h]
    if not vals or len(vals) < len(spec):
        res['error'] = 'Kani failed harness %s but printed no (or too few) concrete values' % h
        res['wall_s'] = round(time.time() - t0, 2)
        return res
    inp = {}
    for (name, bits, signed), b in zip(spec, vals):
        inp[name] = int.from_bytes(b, 'little', signed=signed)
    real = native_replay(inst, h, [inp[n] for (n, _, _) in spec])
    exp = K['expected'](h, inp)
    call = K['call']
    try:
        call = call % inp
    except (TypeError, KeyError):
        call = K['call'] % (', '.join('%s=%d' % kv for kv in inp.items()))
    res.update({'found': True, 'input': inp, 'real': real, 'expected': exp,
                'explain': '%s: real code gives %s, expected %s [Kani harness %s: %s]'
                           % (call, real, exp, h, res.get('playback_check') or '; '.join(res['failed_checks'][:2]))})
    res['wall_s'] = round(time.time() - t0, 2)
    return res


# ------------------------------------------------------------------------------------------------ self test
# --selftest: show that the counterexample path works.  For each kernel the source files it reads are copied to a
# scratch tree (target/selftest/<kernel>/src/..), ONE deliberately wrong edit is applied there, and the same driver is
# run with VERIF_REPO pointing at the scratch tree: it must answer found=true with concrete values.  /repo is not touched.
BROKEN = {
    'read_address_bounds': ('src/blockdir.rs', 'match start.checked_add(len) {', 'match Some(start + len) {',
                            'unchecked `start + len`'),
    'validate_end': ('src/validate.rs', 'match addr.start.checked_add(addr.len) {', 'match Some(addr.start + addr.len) {',
                     'unchecked `addr.start + addr.len`'),
    'hunk_path_arith': ('src/index/mod.rs', 'format!("{:05}/{:09}", hunk_number / HUNKS_PER_SUBDIR, hunk_number)',
                        'format!("{:05}/{:09}", hunk_number / HUNKS_PER_SUBDIR, hunk_number % HUNKS_PER_SUBDIR / 2)',
                        'file number `hunk_number % HUNKS_PER_SUBDIR / 2`'),
    'band_id_arith': ('src/bandid.rs', 'if self.0 == 0 {', 'if self.0 == u32::MAX {', '`previous` tests for u32::MAX instead of 0'),
    'index_writer_counters': ('src/index/write.rs', '(self.sequence % HUNKS_PER_SUBDIR) == 0', '(self.sequence % HUNKS_PER_SUBDIR) == 1',
                              'create_dir for sequence % 10000 == 1'),
    'unix_mode_mask': ('src/unix_mode.rs', 'const MODE_BITS: u32 = 0o7777;', 'const MODE_BITS: u32 = 0o777;', 'mask 0o777'),
    'combiner_flush_conv': ('src/backup.rs', 'start: qf.start.try_into().unwrap(),', 'start: (qf.start as u32).into(),',
                            '`start` truncated through u32'),
    'combiner_push_arith': ('src/backup.rs', 'self.buf.truncate(start + len);', 'self.buf.truncate(start + len + 1);',
                            'truncate to start + len + 1'),
    'store_len_conv': ('src/blockdir.rs', 'compressed.len().try_into().unwrap()', 'u32::try_from(compressed.len()).unwrap().into()',
                       'comp_len through u32::try_from(..).unwrap()'),
    'archive_len_compare': ('src/archive.rs', 'if referenced_len > actual_len as u64 {', 'if referenced_len >= actual_len as u64 {',
                            '`>=` instead of `>`'),
}
SRC_FILES = ['src/blockdir.rs', 'src/validate.rs', 'src/index/mod.rs', 'src/index/write.rs', 'src/bandid.rs', 'src/unix_mode.rs',
             'src/backup.rs', 'src/archive.rs']


def selftest(kernels):
    t0 = time.time()
    bad = 0
    print('%-22s %-7s %7s  %s' % ('kernel', 'found', 'wall_s', 'broken copy -> concrete counterexample'))
    for k in kernels:
        rel, old, new, what = BROKEN[k]
        root = os.path.join(HERE, 'target', 'selftest', k)
        shutil.rmtree(root, ignore_errors=True)
        for f in SRC_FILES:
            os.makedirs(os.path.dirname(os.path.join(root, f)), exist_ok=True)
            shutil.copy(os.path.join(REPO, f), os.path.join(root, f))
        text = open(os.path.join(root, rel), encoding='utf-8').read()
        if text.count(old) != 1:
            print('%-22s %-7s %7s  cannot seed: %r occurs %d times in %s' % (k, '-', '-', old, text.count(old), rel))
            bad += 1
            continue
        with open(os.path.join(root, rel), 'w', encoding='utf-8') as f:
            f.write(text.replace(old, new))
        env = dict(os.environ)
        env['VERIF_REPO'] = root
        p = subprocess.run([sys.executable, os.path.abspath(__file__), k], env=env, stdout=subprocess.PIPE, stderr=subprocess.PIPE)
        try:
            r = json.loads(p.stdout.decode('utf-8', 'replace').strip().split('\n')[-1])
        except ValueError:
            r = {'found': False, 'error': 'no JSON'}
        if not r.get('found'):
            bad += 1
        print('%-22s %-7s %7.2f  [%s] %s' % (k, str(bool(r.get('found'))).lower(), r.get('wall_s', 0), what,
                                            ('input %s: real %s; expected %s; failed check: %s'
                                             % (json.dumps(r.get('input')), r.get('real'), r.get('expected'), r.get('playback_check') or '; '.join(r.get('failed_checks', [])[:1])))
                                            if r.get('found') else (r.get('error') or r.get('explain'))))
        if '--json' in sys.argv:
            print(json.dumps(r))
    print('%d broken copies, %d detected with a concrete input, %d not; total wall time %.1f s' % (len(kernels), len(kernels) - bad, bad, time.time() - t0))
    return 0 if bad == 0 else 1


def main():
    argv = sys.argv[1:]
    if '--selftest' in argv:
        ks = [a for a in argv if not a.startswith('--')]
        return selftest(ks or ORDER)
    if '--list' in argv:
        print('\n'.join(ORDER))
        return 0
    if '--all' in argv:
        jobs = 1
        if '--jobs' in argv:
            jobs = max(1, int(argv[argv.index('--jobs') + 1]))
        t0 = time.time()
        if jobs == 1:
            results = [run_kernel(k) for k in ORDER]
        else:
            from concurrent.futures import ThreadPoolExecutor
            with ThreadPoolExecutor(jobs) as ex:
                results = list(ex.map(run_kernel, ORDER))
        total = time.time() - t0
        print('%-22s %-15s %8s %8s %8s  %s' % ('kernel', 'status', 'wall_s', 'kani_s', 'cbmc_s', 'harnesses (+ necessity checks)'))
        bad = 0
        for r in results:
            hs = r.get('harnesses', {})
            nec = r.get('necessity', {})
            desc = ', '.join('%s:%s' % (h, v['result']) for h, v in hs.items() if h not in nec)
            if nec:
                desc += '  + ' + ', '.join('%s:%s' % (h, v['result'].split(' ')[0]) for h, v in nec.items())
            if r.get('status') != 'proved':
                bad += 1
                desc += '  ' + (r.get('explain') or r.get('error', '')) + (' (%s)' % r['detail'] if r.get('detail') else '')
            print('%-22s %-15s %8.2f %8.2f %8.3f  %s' % (r['kernel'], r.get('status'), r.get('wall_s', 0), r.get('kani_wall_s', 0), r.get('cbmc_s', 0), desc))
        print('%d kernels, %d proved, %d not; total wall time %.1f s (jobs=%d, repo=%s)' % (len(results), len(results) - bad, bad, total, jobs, REPO))
        if '--json' in argv:
            for r in results:
                print(json.dumps(r))
        return 0 if bad == 0 else 1
    args = [a for a in argv if not a.startswith('--')]
    if len(args) != 1 or args[0] not in KERNELS:
        print(json.dumps({'found': False, 'error': 'usage: run.py <%s> | --all [--jobs N] [--json] | --list' % ' | '.join(ORDER)}))
        return 2
    print(json.dumps(run_kernel(args[0])))
    return 0


if __name__ == '__main__':
    sys.exit(main())
