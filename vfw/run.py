"""Runner: generate units from /repo's working tree, discharge them with Verus, name the obligations,
decide properties, write evidence.  See DESIGN.md section 2."""

import concurrent.futures
import glob
import hashlib
import json
import os
import re
import shutil
import subprocess
import sys
import time

from . import extract
from .extract import ExtractError, VERIF

# Evidence and replays of runs against a scratch copy (VERIF_REPO set: mutant self-test, seeded/benign experiments) must not
# overwrite the records of the real tree, and their generated files must not collide with those of a run on the real tree
# (or on another scratch copy) going on at the same time: one gen directory per scratch root.
_SCRATCH = bool(os.environ.get('VERIF_REPO')) and os.environ.get('VERIF_REPO') != '/repo'
if _SCRATCH:
    import hashlib as _hl
    GEN = os.path.join(VERIF, 'gen', 'scratch_' + _hl.sha256(os.environ['VERIF_REPO'].encode()).hexdigest()[:10])
else:
    GEN = os.path.join(VERIF, 'gen')
EVID = os.path.join(VERIF, 'gen', 'scratch_evidence') if _SCRATCH else os.path.join(VERIF, 'evidence')
REPLAYS = os.path.join(VERIF, 'gen', 'scratch_replays') if _SCRATCH else os.path.join(VERIF, 'replays')
VERUS = shutil.which('verus') or '/opt/veriftools/verus/verus'

OBLIGATION_MSGS = [
    'postcondition not satisfied', 'precondition not satisfied', 'invariant not satisfied',
    'assertion failed', 'possible arithmetic underflow/overflow', 'possible division by zero',
    'decreases not satisfied', 'recommendation not met', 'possible bit shift underflow/overflow',
    'unreachable', 'could not prove termination', 'loop invariant not satisfied',
    'assertion not satisfied', 'possible out-of-bounds', 'index out of bounds',
    'failed precondition', 'termination',
    'unable to prove post-condition of closure', 'unable to prove pre-condition of closure',
    'unable to prove', 'might not be allowed',
]
UNDECIDED_MSGS = ['Resource limit', 'rlimit', 'timed out', 'canceled']

ASSUMPTION_PATTERNS = [
    ('assume', r'\bassume\s*\('), ('admit', r'\badmit\s*\('),
    ('external_body', r'verifier::external_body'), ('assume_specification', r'\bassume_specification\b'),
    ('uninterp', r'\buninterp\b'), ('external_type_specification', r'external_type_specification'),
    ('external', r'verifier::external\b'), ('no_decreases', r'exec_allows_no_decreases_clause'),
    ('axiom', r'\baxiom\b'),
]


def all_units():
    return sorted(os.path.basename(p)[:-3] for p in glob.glob(os.path.join(VERIF, 'units', '*.vu')))


def enabled_units():
    """Units integrated into the property checks (units/ENABLED, one name per line).  A unit under
    development is verified with `./check --unit` but does not take part in `./check Cxx`."""
    p = os.path.join(VERIF, 'units', 'ENABLED')
    if not os.path.exists(p):
        return all_units()
    names = [l.strip() for l in open(p) if l.strip() and not l.startswith('#')]
    return [u for u in names if u in all_units()]


def unit_template_text(unit):
    """Template text with includes expanded (for label scanning)."""
    items = extract.expand_includes(extract.read_template(os.path.join(VERIF, 'units', unit + '.vu')), set())
    out = []
    for it in items:
        if isinstance(it, tuple):
            out.append(it[1])
        else:
            out.append('//@@ %s %s' % (it.kind, it.head))
            for s in it.sections:
                for (t, no) in s[2]:
                    out.append(t)
    return '\n'.join(out)


def props_of_label(lab):
    """'C01+C04.wf' or 'C11.cmp' -> ['C01','C04']"""
    head = lab.split('.', 1)[0]
    return [p for p in re.split(r'[+]', head) if re.match(r'^C\d+$', p)]


def units_for_property(pid):
    res = []
    for u in enabled_units():
        txt = unit_template_text(u)
        hit = False
        for no, labs in extract.labels_in(txt):
            for lab in labs:
                if pid in props_of_label(lab):
                    hit = True
        for mm in re.finditer(r'props=([\w,]+)', txt):
            if pid in mm.group(1).split(','):
                hit = True
        if hit:
            res.append(u)
    return res


class UnitResult:
    def __init__(self, unit):
        self.unit = unit
        self.status = 'ok'          # ok | failed | undecided | error
        self.message = ''
        self.failures = []          # dicts
        self.functions = []         # per function: name, mode, time_ms, rlimit, success
        self.obligations = {}       # function -> count of AIR asserts
        self.meta = None
        self.gen_path = None
        self.wall_s = 0.0
        self.smt_ms = 0
        self.vacuity = None         # {'checked': n, 'vacuous': [..]}
        self.assumptions = []
        self.cmd = ''
        self.raw_err = ''
        self.degraded = []          # fn blocks that could not be posed on this tree: [{'name','file','props','reason'}]


def scan_assumptions(text):
    found = []
    for no, ln in enumerate(text.split('\n'), 1):
        code = ln.split('//')[0]
        for name, pat in ASSUMPTION_PATTERNS:
            if re.search(pat, code):
                found.append({'kind': name, 'line': no, 'text': ln.strip()[:160]})
    return found


def named_assumptions(text):
    """Human-readable list: every external_body / assume_specification / uninterp item by name."""
    res = []
    lines = text.split('\n')
    for i, ln in enumerate(lines):
        code = ln.split('//')[0]
        if 'verifier::external_body' in code:
            # name is on one of the following lines
            for j in range(i + 1, min(i + 6, len(lines))):
                mm = re.search(r'\b(fn|struct|enum)\s+(\w+)', lines[j])
                if mm:
                    res.append('external_body %s %s (assumed contract)' % (mm.group(1), mm.group(2)))
                    break
        mm = re.search(r'assume_specification\s*(<[^>]*>)?\s*\[\s*([^\]]+?)\s*\]', code)
        if mm:
            res.append('assume_specification %s' % re.sub(r'\s+', '', mm.group(2)))
        mm = re.search(r'\buninterp\s+spec\s+fn\s+(\w+)', code)
        if mm:
            res.append('uninterpreted spec fn %s' % mm.group(1))
    seen = set()
    out = []
    for r in res:
        if r not in seen:
            seen.add(r)
            out.append(r)
    return out


def run_verus(path, logdir=None, extra=None, timeout=900, multiple_errors=50):
    cmd = [VERUS, path, '--output-json', '--time', '--error-format=json', '--multiple-errors', str(multiple_errors)]
    if logdir:
        cmd += ['--log', 'air', '--log-dir', logdir]
    if extra:
        cmd += extra
    t0 = time.time()
    try:
        p = subprocess.run(cmd, stdout=subprocess.PIPE, stderr=subprocess.PIPE, timeout=timeout,
                           cwd=os.path.dirname(path))
        out, err, rc = p.stdout.decode('utf-8', 'replace'), p.stderr.decode('utf-8', 'replace'), p.returncode
    except subprocess.TimeoutExpired:
        out, err, rc = '', 'verus timed out after %ds' % timeout, 124
    return ' '.join(cmd), out, err, rc, time.time() - t0


def parse_diags(err):
    diags = []
    raw = []
    for ln in err.split('\n'):
        s = ln.strip()
        if s.startswith('{') and '"message"' in s:
            try:
                diags.append(json.loads(s))
                continue
            except ValueError:
                pass
        if s:
            raw.append(s)
    return diags, raw


def count_obligations(airpath):
    """Number of AIR `assert` statements per verified function body (Function-Def sections)."""
    res = {}
    if not os.path.exists(airpath):
        return res
    cur = None
    with open(airpath, encoding='utf-8', errors='replace') as f:
        for ln in f:
            if ln.startswith(';; Function-'):
                mm = re.match(r';; Function-([\w-]+) (\S+)', ln)
                cur = mm.group(2) if mm and mm.group(1) == 'Def' else None
            elif ln.startswith(';; MODULE'):
                cur = None
            elif cur and '(assert' in ln:
                res[cur] = res.get(cur, 0) + ln.count('(assert')
    return res


def fn_block_at(meta, gen_line):
    for f in meta['fns']:
        if f['gen_start'] <= gen_line <= f['gen_end']:
            return f
    return None


def src_of(meta, gen_line):
    lm = meta['linemap']
    if 1 <= gen_line <= len(lm) and lm[gen_line - 1]:
        return lm[gen_line - 1]
    return None


def classify(diag, meta, gen_lines):
    """Turn one Verus error diagnostic into a failure record (or None if it is not an obligation)."""
    msg = diag.get('message', '')
    spans = diag.get('spans', [])
    rec = {'message': msg, 'spans': []}
    labels = []
    site = None
    site_fn = None
    primary_kind = None
    gen_name = meta.get('gen_file')
    for s in spans:
        ln = s.get('line_start')
        fname = os.path.basename(s.get('file_name') or '')
        in_gen = (gen_name is None) or (fname == gen_name)
        if not in_gen:
            # a span inside vstd (e.g. the `requires` of Option::unwrap): keep it for the record only
            rec['spans'].append({'gen_line': None, 'primary': s.get('is_primary'), 'label': s.get('label'),
                                 'src': [s.get('file_name'), ln], 'text': (s.get('text') or [{}])[0].get('text', '').strip()[:200] if s.get('text') else ''})
            continue
        info = src_of(meta, ln) if ln else None
        text = gen_lines[ln - 1] if ln and ln <= len(gen_lines) else ''
        rec['spans'].append({'gen_line': ln, 'primary': s.get('is_primary'), 'label': s.get('label'),
                             'src': info[:2] if info else None, 'text': text.strip()[:200]})
        slabel = (s.get('label') or '').lower()
        is_site_span = slabel.startswith('at this') or slabel.startswith('at the end') or 'exit' in slabel
        is_clause_span = s.get('is_primary') or slabel.startswith('failed')
        le = s.get('line_end') or ln
        if is_clause_span and not is_site_span and (le - ln) <= 12:
            for k in range(ln, le + 1):
                if k <= len(gen_lines):
                    mm = re.search(r'//#\s*([\w.,+\- ]+)\s*$', gen_lines[k - 1])
                    if mm:
                        for lab in re.split(r'[,\s]+', mm.group(1)):
                            if lab and lab not in labels:
                                labels.append(lab)
        if s.get('is_primary'):
            primary_kind = info[2] if info else 'tmpl'
        fb = fn_block_at(meta, ln) if ln else None
        if fb is not None:
            k = info[2] if info else None
            # prefer a span on real code as the site
            if site is None or (k in ('code', 'rewritten') and site[2] not in ('code', 'rewritten')):
                site = (info[0], info[1], k) if info else (None, None, None)
                site_fn = fb
    rec['labels'] = labels
    rec['site'] = {'file': site[0], 'line': site[1]} if site else None
    rec['site_fn'] = ('%s::%s' % (site_fn['file'], site_fn['name'])) if site_fn else None
    rec['fn_props'] = site_fn['props'] if site_fn else []
    low = msg.lower()
    if any(u.lower() in low for u in UNDECIDED_MSGS):
        rec['class'] = 'undecided'
    elif any(o in low for o in OBLIGATION_MSGS):
        if labels:
            rec['class'] = 'labelled'
        elif 'invariant not satisfied' in low and site_fn is not None:
            # a loop invariant is part of the function's contract: it held on the unchanged tree and no
            # longer holds for this body.  Owned by the fn block's props.
            rec['class'] = 'builtin'
            rec['labels'] = []
        elif primary_kind == 'inserted' or (site_fn is None):
            # assertion inside hand-written proof text or a lemma: a proof step, not a property clause
            rec['class'] = 'proof-step'
        else:
            rec['class'] = 'builtin'
            rec['labels'] = []
    else:
        rec['class'] = 'error'
    props = []
    for lab in rec['labels']:
        for p in props_of_label(lab):
            if p not in props:
                props.append(p)
    if rec['class'] == 'builtin':
        props = list(rec['fn_props'])
    elif rec['class'] == 'labelled' and 'invariant not satisfied' in low and site_fn is not None:
        # a loop invariant supports EVERY postcondition of its function: when it no longer holds, none of the
        # function's clauses is proved, whatever single property the invariant's label names (an unlabelled
        # invariant is owned by the block's props for the same reason).
        for p in rec['fn_props']:
            if p not in props:
                props.append(p)
    rec['props'] = props
    if rec['class'] in ('labelled',):
        rec['obligation'] = '%s/%s/%s' % (meta['unit'], site_fn['name'] if site_fn else '-', '+'.join(rec['labels']))
    elif rec['class'] == 'builtin':
        kindname = 'invariant' if 'invariant' in low else 'no-panic'
        rec['obligation'] = '%s/%s/%s(%s)' % (meta['unit'], site_fn['name'], kindname, re.sub(r'\s+', '-', msg.strip())[:40])
    else:
        rec['obligation'] = '%s/%s/%s' % (meta['unit'], site_fn['name'] if site_fn else '-', rec['class'])
    return rec


def verify_unit(unit, vacuity=True, extra=None, tag='', degrade_ok=True):
    """Verify one unit.  A function block that cannot be POSED on this tree (lost anchor, construct outside the
    subset, a call the shims do not know) is degraded to an assumed stub and the rest of the unit is still verified
    (up to 3 rounds); the degraded functions are reported in r.degraded and are never counted as proved."""
    degrade = {} if degrade_ok else None
    if degrade is not None:
        # R7 pins: a lifted iterator one-liner keeps an ASSUMED contract that was written for one exact text; if the
        # text in the tree differs (even by the order of two adapters, which line-wise rewrites cannot see), the
        # function that contains it is not posable
        try:
            pins = r7_pins(unit)
            changed = changed_assumed_functions(unit)
            if pins or changed:
                _t, m0 = extract.generate(unit, degrade={})
                glines = _t.split('\n')
                for k, fb in enumerate(m0['fns']):
                    if fb.get('degraded'):
                        continue
                    for (pf, pfn, why) in pins:
                        if fb['file'] == pf and fb['name'] == pfn:
                            degrade[k] = why
                    body = '\n'.join(glines[fb['gen_start'] - 1:fb['gen_end']])
                    for (call_re, why) in changed:
                        if k not in degrade and re.search(call_re, body):
                            degrade[k] = why
        except ExtractError:
            pass
    r = None
    for _round in range(4):
        r = _verify_unit_once(unit, vacuity, extra, tag, degrade)
        if degrade is None or r.status != 'error' or r.meta is None:
            break
        # which fn blocks do the processing errors sit in?
        bad = {}
        for f in r.failures:
            if f['class'] != 'error':
                continue
            for sp in f.get('spans', []):
                gl = sp.get('gen_line')
                if not gl:
                    continue
                for k, fb in enumerate(r.meta['fns']):
                    if fb['gen_start'] <= gl <= fb['gen_end'] and not fb.get('degraded'):
                        bad.setdefault(k, 'verus could not process the function: ' + f['message'][:200])
        if not bad or _round == 3:
            break
        degrade.update(bad)
    return r


_PINMOD = []


def changed_assumed_functions(unit):
    """[(call regex, reason)] for the functions in units/pins.json that this unit relies on through an ASSUMED shim and
    whose text in the current tree is no longer the text the shim was written against (tools/mkpins.py)."""
    p = os.path.join(VERIF, 'units', 'pins.json')
    if not os.path.exists(p):
        return []
    if not _PINMOD:
        import importlib.util
        spec = importlib.util.spec_from_file_location('verif_mkpins', os.path.join(VERIF, 'tools', 'mkpins.py'))
        mod = importlib.util.module_from_spec(spec)
        spec.loader.exec_module(mod)
        _PINMOD.append(mod)
    mod = _PINMOD[0]
    out = []
    for e in json.load(open(p))['pins']:
        if unit not in e['units']:
            continue
        try:
            h, _ = mod.fn_text_hash(e['file'], e['scope'], e['fn'])
        except Exception as ex:
            h = 'LOST: %s' % ex
        if h != e['sha']:
            out.append((e['call_re'], 'it calls %s::%s, whose contract is only ASSUMED (%s) and whose text changed since the '
                        'assumption was written (units/pins.json)' % (e['file'], e['fn'], e['why'])))
    return out


_R7MOD = []


def r7_pins(unit):
    """[(file, fn, reason)] for the lifted (R7) snippets of `unit` whose text in the current tree is not the pinned one."""
    if not _R7MOD:
        import importlib.util
        spec = importlib.util.spec_from_file_location('verif_r7_run', os.path.join(VERIF, 'r7', 'run.py'))
        mod = importlib.util.module_from_spec(spec)
        spec.loader.exec_module(mod)
        _R7MOD.append(mod)
    mod = _R7MOD[0]
    out = []
    for h in mod.HELPERS:
        if h['unit'] != unit:
            continue
        try:
            c = mod.cut(h)
            if c.get('changed'):
                out.append((h['file'], h.get('degrade_fn', h['fn']), 'the lifted snippet %s is no longer the text its assumed contract was written for: now `%s`'
                            % (h['helper'], re.sub(r'\s+', ' ', c['snippet'])[:200])))
        except mod.Lost as e:
            # the snippet is GONE (anchor not found): the lifted helper is then not called at all, no assumed contract is in
            # play, and the unit's own clauses judge the new text -- except for pin-only entries (an unextracted function)
            if h.get('alternative') or not h.get('pin_only'):
                continue
            out.append((h['file'], h.get('degrade_fn', h['fn']), 'the lifted snippet %s was not found: %s' % (h['helper'], e)))
    return out


def _verify_unit_once(unit, vacuity, extra, tag, degrade):
    r = UnitResult(unit)
    t0 = time.time()
    os.makedirs(GEN, exist_ok=True)
    try:
        text, meta = extract.generate(unit, degrade=degrade)
    except ExtractError as e:
        r.status = 'error'
        r.message = 'extraction: %s' % e
        return r
    except Exception as e:  # lexer errors etc
        r.status = 'error'
        r.message = 'extraction crashed: %r' % e
        return r
    stem = 'u_%s%s' % (unit, tag)
    meta['gen_file'] = stem + '.rs'
    r.meta = meta
    r.degraded = [{'name': f['name'], 'file': f['file'], 'props': f['props'], 'reason': f['degraded'],
                   'gen_start': f['gen_start'], 'gen_end': f['gen_end']} for f in meta['fns'] if f.get('degraded')]
    path = os.path.join(GEN, stem + '.rs')
    # several checks of one run generate the same unit concurrently (same text): write atomically
    tmpp = '%s.%d.tmp' % (path, os.getpid())
    with open(tmpp, 'w') as f:
        f.write(text)
    os.replace(tmpp, path)
    with open(os.path.join(GEN, stem + '.map.json'), 'w') as f:
        json.dump(meta, f)
    r.gen_path = path
    gen_lines = text.split('\n')
    r.assumptions = scan_assumptions(text)
    bad = [a for a in r.assumptions if a['kind'] in ('assume', 'admit')]
    if bad:
        r.status = 'error'
        r.message = 'assume/admit present in generated text: %s' % bad[:3]
        return r
    logdir = os.path.join(GEN, stem + '.log')
    shutil.rmtree(logdir, ignore_errors=True)
    cmd, out, err, rc, wall = run_verus(path, logdir, extra)
    r.cmd = cmd
    r.raw_err = err[-4000:]
    try:
        oj = json.loads(out) if out.strip() else {}
    except ValueError:
        oj = {}
    vr = oj.get('verification-results', {})
    try:
        for m in oj['times-ms']['smt']['smt-run-module-times']:
            for fb in m.get('function-breakdown', []):
                r.functions.append({'function': fb['function'].split('::', 1)[-1], 'mode': fb.get('mode:'),
                                    'time_ms': fb.get('time'), 'rlimit': fb.get('rlimit'), 'success': fb.get('success')})
        r.smt_ms = oj['times-ms']['smt']['total']
    except (KeyError, TypeError):
        pass
    # one AIR log per module (units with child modules: bandinfo, readhunk, localread, blockopen): count them all
    obl = {}
    for ap in sorted(glob.glob(os.path.join(logdir, '*.air'))):
        if ap.endswith('-final.air') or '.smt' in os.path.basename(ap):
            continue
        for k, v in count_obligations(ap).items():
            obl[k] = obl.get(k, 0) + v
    r.obligations = {k.split('::', 1)[-1]: v for k, v in obl.items()}
    diags, raw = parse_diags(err)
    errors = [d for d in diags if d.get('level') == 'error' and not d.get('message', '').startswith('aborting due to')]
    for d in errors:
        r.failures.append(classify(d, meta, gen_lines))
    if rc == 0 and vr.get('success'):
        r.status = 'ok'
    elif vr.get('encountered-vir-error') or (not vr and rc != 0) or any(f['class'] == 'error' for f in r.failures):
        r.status = 'error'
        r.message = 'verus could not process the unit: ' + '; '.join(
            [f['message'][:200] for f in r.failures if f['class'] == 'error'][:3] or raw[-3:])
    elif any(f['class'] in ('labelled', 'builtin') for f in r.failures):
        r.status = 'failed'
    elif any(f['class'] in ('undecided', 'proof-step') for f in r.failures):
        r.status = 'undecided'
        r.message = '; '.join('%s @%s' % (f['message'][:80], f['site']) for f in r.failures[:3])
    else:
        r.status = 'error'
        r.message = 'verus rc=%s without diagnostics: %s' % (rc, ' | '.join(raw[-3:]))
    shutil.rmtree(logdir, ignore_errors=True)
    if vacuity and r.status in ('ok', 'failed'):
        r.vacuity = vacuity_pass(unit, tag, degrade)
    r.wall_s = time.time() - t0
    return r


def vacuity_pass(unit, tag='', degrade=None):
    """For every contracted function separately: re-verify the unit with `ensures false` added to THAT
    function only (so that callers never see a false postcondition); it must FAIL.  A function where
    `false` verifies has a contradictory precondition or an inconsistent shim."""
    text0, meta0 = extract.generate(unit, degrade=degrade)
    n = len(meta0['fns'])

    def one(k):
        if meta0['fns'][k].get('degraded'):
            return True, []
        text, meta = extract.generate_vacuity(unit, k, degrade)
        stem = 'v_%s%s_%d' % (unit, tag, k)
        path = os.path.join(GEN, stem + '.rs')
        with open(path, 'w') as f:
            f.write(text)
        cmd, out, err, rc, wall = run_verus(path, None, None, multiple_errors=30)
        gen_lines = text.split('\n')
        diags, raw = parse_diags(err)
        refuted = False
        hard = []
        for d in diags:
            if d.get('level') != 'error' or d.get('message', '').startswith('aborting'):
                continue
            hit = False
            for s in d.get('spans', []):
                ln = s.get('line_start')
                if ln and ln <= len(gen_lines) and 'VACUITY' in gen_lines[ln - 1]:
                    hit = True
            if hit:
                refuted = True
            else:
                low = d.get('message', '').lower()
                if not any(o in low for o in OBLIGATION_MSGS) and not any(u.lower() in low for u in UNDECIDED_MSGS) \
                        and 'not all errors may have been reported' not in low:
                    hard.append(d.get('message', '')[:200])
        if not diags and rc != 0:
            hard.append('verus rc=%s: %s' % (rc, ' | '.join(raw[-2:])[:300]))
        try:
            os.unlink(path)
        except OSError:
            pass
        return refuted, hard

    vac, hard_errors = [], []
    with concurrent.futures.ThreadPoolExecutor(max_workers=6) as ex:
        res = list(ex.map(one, range(n)))
    for k, (refuted, hard) in enumerate(res):
        f = meta0['fns'][k]
        if not refuted:
            vac.append(f['name'] + '@' + f['file'])
        hard_errors.extend(hard)
    return {'checked': n, 'refuted_false': n - len(vac), 'vacuous': vac, 'errors': hard_errors[:3]}


def load_known():
    p = os.path.join(VERIF, 'known_findings.json')
    if not os.path.exists(p):
        return []
    return json.load(open(p)).get('findings', [])


def match_known(fail, pid, known):
    for k in known:
        if k.get('status') != 'known' or k.get('property') != pid:
            continue
        if k.get('site_fn') and k['site_fn'] != fail.get('site_fn'):
            continue
        if k.get('label') and k['label'] not in fail.get('labels', []):
            continue
        if k.get('message_contains') and k['message_contains'] not in fail.get('message', ''):
            continue
        if k.get('site_text_contains'):
            texts = ' '.join(s.get('text', '') for s in fail.get('spans', []))
            if k['site_text_contains'] not in texts:
                continue
        return k
    return None


def tagged_functions(meta, pid, gen_text):
    """fn blocks of a unit that carry a clause for pid (label) or own its built-in obligations."""
    res = []
    gl = gen_text.split('\n')
    for f in meta['fns']:
        own = pid in f['props']
        for k in range(f['gen_start'], f['gen_end'] + 1):
            mm = re.search(r'//#\s*([\w.,+\- ]+)\s*$', gl[k - 1])
            if mm and any(pid in props_of_label(l) for l in re.split(r'[,\s]+', mm.group(1)) if l):
                own = True
        if own:
            res.append(f)
    return res


def check_property(pid, tier='quick', seed=0, witness_hook=None):
    if _SCRATCH and not os.environ.get('VERIF_WITNESS_DIR'):
        # a scratch copy (VERIF_REPO: mutant / benign experiments) is judged by the verifier alone: the native witnesses
        # are built against /repo itself and say nothing about the scratch tree (unless an isolated witness crate
        # built against that scratch tree is supplied: VERIF_WITNESS_DIR)
        witness_hook = None
    t0 = time.time()
    units = units_for_property(pid)
    known = load_known()
    lines = []
    results = []
    if not units:
        print('ERROR: no unit carries a clause for %s' % pid)
        return 2
    with concurrent.futures.ThreadPoolExecutor(max_workers=8) as ex:
        futs = {u: ex.submit(verify_unit, u, True, None, '_' + pid) for u in units}
        for u in units:
            results.append(futs[u].result())
    extra_runs = []
    cvc5_runs = []
    if tier == 'thorough':
        seeds = [seed * 3 + 1, seed * 3 + 2, seed * 3 + 3]
        with concurrent.futures.ThreadPoolExecutor(max_workers=8) as ex:
            fs = []
            for u in units:
                for sd in seeds:
                    fs.append((u, 'z3 seed=%d' % sd, ex.submit(verify_unit, u, False, ['--smt-option', 'smt.random_seed=%d' % sd], '_%s_s%d' % (pid, sd))))
            for u, what, fu in fs:
                rr = fu.result()
                extra_runs.append({'unit': u, 'config': what, 'status': rr.status, 'smt_ms': rr.smt_ms,
                                   'failures': [f['obligation'] for f in rr.failures]})
        # second back end (informational: cvc5 1.0.3 is older than the version this Verus expects; it can only fail
        # to prove, never refute): small units only, 300 s budget each
        small = [r.unit for r in results if r.status == 'ok' and r.smt_ms < 1500]
        with concurrent.futures.ThreadPoolExecutor(max_workers=4) as ex:
            fs = [(u, ex.submit(verify_unit, u, False, ['-V', 'cvc5', '-V', 'no-solver-version-check', '--rlimit', '30'], '_%s_cvc5' % pid)) for u in small]
            for u, fu in fs:
                rr = fu.result()
                cvc5_runs.append({'unit': u, 'config': 'cvc5 1.0.3 (version check skipped)', 'status': rr.status, 'smt_ms': rr.smt_ms,
                                  'failures': [f['obligation'] for f in rr.failures][:5]})
    exit_code = 0
    violations = []
    fallback_violations = []
    known_hits = []
    undecided = []
    fn_list = []
    obligations = 0
    discharged = 0
    known_excluded = 0
    trusted = []
    samples = []
    solver_ms = 0
    vac_checked = 0
    degraded_fns = []
    for r in results:
        if r.status == 'error':
            # The verifier could not pose the question (lost anchor, construct outside the subset).  A bounded
            # stand-in may still DECIDE AGAINST the code: a concrete input on which the real crate disagrees
            # with the executable transcription of the spec function is a violation with a replay.  Finding
            # none leaves the property undecided (never "held").
            fb = fallback_witness(pid, r.unit, r.message, witness_hook)
            if fb:
                fallback_violations.append(fb)
            else:
                undecided.append('%s: %s' % (r.unit, r.message))
            continue
        gen_text = open(r.gen_path).read()
        tf = tagged_functions(r.meta, pid, gen_text)
        solver_ms += r.smt_ms
        # functions of this property that could not be posed on this tree (their contract is only ASSUMED in this run):
        # the property is not decided by the verifier; a bounded stand-in may still decide AGAINST the code
        for d in r.degraded:
            if any(x['name'] == d['name'] and x['file'] == d['file'] for x in tf):
                msg = 'function %s::%s could not be posed: %s' % (d['file'], d['name'], d['reason'])
                degraded_fns.append({'unit': r.unit, 'function': '%s::%s' % (d['file'], d['name']), 'reason': d['reason']})
                fb = fallback_witness(pid, r.unit, msg, witness_hook)
                if fb:
                    if not any(x['obligation'] == fb['obligation'] for x in fallback_violations):
                        fallback_violations.append(fb)
                else:
                    undecided.append('%s: %s' % (r.unit, msg))
        # a function of this unit that the property does NOT own is unposable: the property's own clauses are still
        # verified (against that function's assumed contract), so the verdict is not "undecided" -- but the bounded
        # stand-ins registered for this property in this unit are run anyway: they can only ADD a concrete counterexample
        # (before per-function degradation the whole unit went to the fallback; this keeps that detection power)
        if r.degraded and not any(x['unit'] == r.unit for x in degraded_fns):
            others = [d for d in r.degraded]
            msg = 'unit %s has function(s) that could not be posed on this tree (%s)' % (r.unit, ', '.join('%s::%s' % (d['file'], d['name']) for d in others)[:300])
            fb = fallback_witness(pid, r.unit, msg, witness_hook)
            if fb and not any(x['obligation'] == fb['obligation'] for x in fallback_violations):
                fallback_violations.append(fb)
        tf = [x for x in tf if not any(x['name'] == d['name'] and x['file'] == d['file'] for d in r.degraded)]
        for a in named_assumptions(gen_text):
            if a not in trusted:
                trusted.append(a)
        # per-function accounting
        fn_by_name = {}
        for f in r.functions:
            fn_by_name[f['function']] = f
        failed_fn_names = set(f['site_fn'] for f in r.failures if f['class'] in ('labelled', 'builtin', 'undecided', 'proof-step'))
        tagged_names = set()
        for f in tf:
            tagged_names.add(f['name'])
        for fname, cnt in sorted(r.obligations.items()):
            short = fname.split('::')[-1]
            is_exec_tagged = short in tagged_names
            fb = fn_by_name.get(fname, {})
            mode = fb.get('mode')
            is_support = (mode in ('proof', 'spec')) or (fname not in fn_by_name and short not in [x['name'] for x in r.meta['fns']])
            if is_exec_tagged or is_support:
                ok = fb.get('success', True) is not False
                if ok:
                    obligations += cnt
                    discharged += cnt
                else:
                    # Verus names each failing obligation; the others of the function were discharged.  An obligation
                    # recorded in known_findings.json (for whichever property owns it) is reported separately and is
                    # not part of this run's obligations/discharged pair.
                    fails = {}
                    for f in r.failures:
                        if f.get('site_fn') and f['site_fn'].endswith('::' + short) and \
                                f['class'] in ('labelled', 'builtin', 'undecided', 'proof-step'):
                            fails[(f['obligation'], str(f.get('site')))] = f
                    nknown = 0
                    for f in fails.values():
                        if any(match_known(f, q, known) for q in (f.get('props') or [])):
                            nknown += 1
                    nother = max(0, len(fails) - nknown)
                    if not fails:
                        nother = 1
                    known_excluded += nknown
                    obligations += max(0, cnt - nknown)
                    discharged += max(0, cnt - nknown - nother)
        for f in tf:
            fb = None
            for k, v in fn_by_name.items():
                if k.split('::')[-1] == f['name'] and v.get('mode') == 'exec':
                    fb = v
            fn_list.append({'unit': r.unit, 'function': '%s::%s' % (f['file'], f['name']), 'scope': f['scope'],
                            'src_lines': f['src_lines'], 'src_hash': f['src_hash'],
                            'extraction_rules': ['%s:%s' % (x['rule'], x.get('from', x.get('pattern', ''))[:60]) for x in f['rules']],
                            'verified': (fb or {}).get('success'), 'smt_ms': (fb or {}).get('time_ms'), 'rlimit': (fb or {}).get('rlimit')})
        if r.vacuity:
            vac_checked += r.vacuity['checked']
            if r.vacuity['vacuous'] or r.vacuity['errors']:
                undecided.append('%s: vacuity alarm: `ensures false` verified for %s %s' % (r.unit, r.vacuity['vacuous'], r.vacuity['errors']))
        for f in r.failures:
            if f['class'] in ('labelled', 'builtin'):
                if pid in f['props']:
                    k = match_known(f, pid, known)
                    if k:
                        known_hits.append((k, f))
                    else:
                        violations.append((r, f))
            elif f['class'] in ('undecided', 'proof-step'):
                # only matters to this property if it sits in one of its functions or in a lemma
                if f['site_fn'] is None or any(f['site_fn'].endswith('::' + x['name']) for x in tf):
                    undecided.append('%s: %s at %s (%s)' % (r.unit, f['message'][:100], f['site'], f['class']))
    for lab_line in sample_obligations(results, pid):
        samples.append(lab_line)

    os.makedirs(REPLAYS, exist_ok=True)
    for (k, f) in known_hits:
        print('KNOWN-FINDING: property=%s %s [%s at %s]' % (pid, k.get('what', ''), f['obligation'], fmt_site(f)))
    vio_out = []
    for (r, f) in violations:
        rp = os.path.join(REPLAYS, '%s-%s.json' % (pid, re.sub(r'[^\w.+-]+', '_', f['obligation'])[:120]))
        replay = {'property': pid, 'obligation': f['obligation'], 'labels': f['labels'], 'site': f['site'],
                  'site_fn': f['site_fn'], 'verifier': 'verus', 'verifier_message': f['message'], 'spans': f['spans'],
                  'generated_file': r.gen_path, 'checker_cmd': r.cmd, 'counterexample': None}
        found = None
        if witness_hook:
            try:
                found = witness_hook(pid, f, replay)
            except Exception as e:  # witness search must never mask the violation
                replay['witness_error'] = repr(e)
        replay['counterexample'] = found
        with open(rp, 'w') as fh:
            json.dump(replay, fh, indent=1)
        tail = '' if found else ' no-failing-input-found'
        print('FAILED OBLIGATION %s: %s at %s' % (f['obligation'], f['message'], fmt_site(f)))
        print('VIOLATION property=%s replay=%s%s' % (pid, rp, tail))
        vio_out.append(f['obligation'])
        exit_code = 1
    for fb in fallback_violations:
        print('FAILED OBLIGATION %s: %s' % (fb['obligation'], fb['verifier_message'][:200]))
        print('VIOLATION property=%s replay=%s' % (pid, fb['path']))
        vio_out.append(fb['obligation'])
        exit_code = 1
    # bounded supplement (native witnesses through the public API of the real crate): can only ADD a violation
    supplement = []
    if witness_hook is not None:
        try:
            from . import witness as _w
            supplement = _w.run_supplements(pid, tier)
        except Exception as e:  # never let the supplement break the deductive verdict
            supplement = [{'kind': '-', 'error': repr(e)}]
    for sres in supplement:
        if sres.get('found'):
            rp = os.path.join(REPLAYS, '%s-bounded-%s.json' % (pid, sres['kind']))
            with open(rp, 'w') as fh:
                json.dump({'property': pid, 'obligation': 'bounded-supplement(%s)' % sres['kind'], 'bounded': True,
                           'verifier': 'native witness search on the real crate (bounded stand-in; the deductive obligations did not fail)',
                           'verifier_message': sres.get('explain'), 'counterexample': sres}, fh, indent=1)
            print('FAILED OBLIGATION bounded-supplement(%s): %s' % (sres['kind'], (sres.get('explain') or '')[:200]))
            print('VIOLATION property=%s replay=%s' % (pid, rp))
            vio_out.append('bounded-supplement(%s)' % sres['kind'])
            exit_code = 1
    # R7 bounded checks (thorough tier; DESIGN section 3 R7): the ASSUMED contract of every lifted iterator one-liner
    # in this property's functions is evaluated against the snippet's current text on all small inputs.  A refuted
    # contract is a violation with the failing input; an un-runnable check is only noted in evidence.
    r7_checks = []
    if tier == 'thorough':
        r7_checks = r7_bounded_checks(pid, results)
        for c in r7_checks:
            if c.get('status') != 'failed':
                continue
            ce = c.get('counterexample') or {}
            obl = 'r7/%s' % c.get('helper')
            msg = ('the assumed contract of lifted snippet %s (%s, %s) is refuted by input %s: %s (got %s, contract says %s)' % (
                c.get('helper'), c.get('site') or c.get('fn'), c.get('prelude'), json.dumps(ce.get('input'), ensure_ascii=False)[:300],
                ce.get('explain'), json.dumps(ce.get('real'), ensure_ascii=False)[:120], json.dumps(ce.get('expected'), ensure_ascii=False)[:120]))
            rp = os.path.join(REPLAYS, '%s-r7-%s.json' % (pid, re.sub(r'[^\w.+-]+', '_', str(c.get('helper')))))
            rcmd = c.get('replay_cmd')
            with open(rp, 'w') as fh:
                json.dump({'property': pid, 'obligation': obl, 'bounded': True, 'site': c.get('site'), 'site_fn': c.get('fn'),
                           'verifier': 'R7 bounded check (/verif/r7): the snippet text of the current tree, compiled against the real crate, '
                                       'against an executable transcription of the contract that Verus assumes for it',
                           'verifier_message': msg, 'snippet': c.get('snippet'), 'snippet_changed': c.get('snippet_changed'),
                           'bound': c.get('bound'), 'inputs_tried': c.get('inputs'), 'spans': [],
                           'counterexample': {'kind': None, 'cmd': rcmd, 'input': ce.get('input'), 'real': ce.get('real'),
                                              'expected': ce.get('expected'), 'explain': ce.get('explain'),
                                              'replay_cmd': ' '.join(_shq(x) for x in rcmd) if rcmd else None}}, fh, indent=1)
            print('FAILED OBLIGATION %s: %s' % (obl, msg))
            print('VIOLATION property=%s replay=%s' % (pid, rp))
            vio_out.append(obl)
            exit_code = 1
    # second back end for the loop-free integer kernels (Kani/CBMC over the full machine domain; thorough tier): a kernel
    # relevant to this property that Kani REFUTES comes with concrete values and is a violation; 'proved' is recorded
    kani_runs = []
    if tier == 'thorough':
        try:
            reg = json.load(open(os.path.join(VERIF, 'units', 'zz_kani.witness.json')))
            mine = [e['cmd'][-1] for e in reg if ('^' + pid) in e['label_re']]
            for kern in mine:
                kp = subprocess.run([sys.executable, os.path.join(VERIF, 'kani', 'kernels', 'run.py'), kern], stdout=subprocess.PIPE,
                                    stderr=subprocess.PIPE, timeout=400)
                res = {}
                for ln in reversed(kp.stdout.decode('utf-8', 'replace').strip().split('\n')):
                    if ln.startswith('{'):
                        try:
                            res = json.loads(ln)
                        except ValueError:
                            pass
                        break
                kani_runs.append({'kernel': kern, 'status': res.get('status') or ('refuted' if res.get('found') else res.get('error', 'unknown')),
                                  'domain': res.get('domain'), 'found': bool(res.get('found'))})
                if res.get('found'):
                    rp = os.path.join(REPLAYS, '%s-kani-%s.json' % (pid, kern))
                    os.makedirs(REPLAYS, exist_ok=True)
                    with open(rp, 'w') as fh:
                        json.dump({'property': pid, 'obligation': 'kani/%s' % kern, 'verifier': 'Kani 0.68 / CBMC (loop-free harness, full machine domain)',
                                   'verifier_message': res.get('explain'), 'counterexample': res}, fh, indent=1)
                    print('FAILED OBLIGATION kani/%s: %s' % (kern, (res.get('explain') or '')[:200]))
                    print('VIOLATION property=%s replay=%s' % (pid, rp))
                    vio_out.append('kani/%s' % kern)
                    exit_code = 1
        except Exception as e:
            kani_runs.append({'kernel': '-', 'status': 'not run: %r' % e})
    # cross-unit links: hand-restated shim text must still equal the text of the wrapper that Verus checks in the
    # callee's unit (tools/check_links.py; the wrappers themselves are verified with their units)
    links = {'compared': 0, 'differ': 0, 'unchecked': 0}
    try:
        lp = subprocess.run([sys.executable, os.path.join(VERIF, 'tools', 'check_links.py')], stdout=subprocess.PIPE,
                            stderr=subprocess.STDOUT, timeout=120)
        mm = re.search(r'(\d+) links compared, (\d+) differ, (\d+) listed as unchecked', lp.stdout.decode('utf-8', 'replace'))
        if mm:
            links = {'compared': int(mm.group(1)), 'differ': int(mm.group(2)), 'unchecked': int(mm.group(3))}
            if links['differ'] > 0:
                bad = [ln for ln in lp.stdout.decode('utf-8', 'replace').split('\n') if ' DIFFER ' in ln]
                undecided.append('cross-unit link text drifted from its checked wrapper: %s' % '; '.join(b.split()[0] for b in bad)[:300])
    except Exception as e:
        links['error'] = repr(e)
    if exit_code == 0 and undecided:
        for u in undecided:
            print('UNDECIDED property=%s %s' % (pid, u))
        exit_code = 2
    mutant_results = []
    if tier == 'thorough':
        mutant_results = run_mutants(units, pid)
        for mr in mutant_results:
            if mr['result'] in ('missed', 'error'):
                print('SELF-TEST property=%s mutant %s/%s %s: %s' % (pid, mr['unit'], mr['name'], mr['result'], mr.get('detail', mr.get('failures'))))
                if exit_code == 0:
                    exit_code = 2
    if tier == 'thorough' and exit_code == 0:
        # a seed run is unstable only if it fails something the baseline run of that unit did not fail
        base_fail = {}
        for r in results:
            base_fail[r.unit] = set(f['obligation'] for f in r.failures)
        unstable = [e for e in extra_runs if e['status'] not in ('ok',) and
                    (e['status'] in ('error', 'undecided') or not set(e['failures']) <= base_fail.get(e['unit'], set()))]
        if unstable:
            for e in unstable:
                print('UNDECIDED property=%s unstable proof: %s %s -> %s' % (pid, e['unit'], e['config'], e['status']))
            exit_code = 2
    wall = time.time() - t0
    ev = {
        'property_id': pid, 'tier': tier, 'seed': seed, 'level': 'proof',
        'coverage': {
            'obligations': obligations, 'discharged': discharged if exit_code != 1 else min(discharged, obligations - 1),
            'checker_cmd': 'verus gen/u_<unit>.rs --output-json --time --error-format=json --multiple-errors 50 --log air  (units: %s)' % ','.join(units),
            'trusted_base': trusted,
            'backend': 'Verus 0.2026.09.13 / Z3 (bundled)',
            'units': units,
            'functions_under_contract': fn_list,
            'solver_ms': solver_ms,
            'vacuity': {'functions_checked_with_ensures_false': vac_checked,
                        'all_refuted': not any('vacuity alarm' in u for u in undecided)},
            'samples': samples[:12],
            'cross_unit_links': dict(links, doc='doc/UNCHECKED_LINKS.md lists the links that are not machine-checked'),
            'known_findings_hit': [k.get('what') for k, f in known_hits],
            'known_finding_obligations_excluded_from_counts': known_excluded,
            'violations': vio_out,
            'undecided': undecided,
            'functions_not_posable_on_this_tree': degraded_fns,
            'extra_runs': extra_runs,
            'second_backend_runs': cvc5_runs,
            'kani_integer_kernels': kani_runs,
            'bounded_supplement': [{k: v for k, v in x.items() if k in ('kind', 'found', 'evaluations', 'explain', 'error', 'tried_archives', 'wall_s')} for x in supplement],
            'r7_bounded_checks': r7_checks,
            'mutants_expected': len([m for m in mutant_results if m['result'] != 'not-applicable']),
            'mutants_detected': len([m for m in mutant_results if m['result'] == 'detected']),
            'mutants': mutant_results,
            'explanation': 'obligations = AIR assert statements generated by Verus for the contracted functions tagged with this property plus the lemmas/spec functions of their units, counted on this run from the AIR log; discharged = those in functions Verus reported verified.',
        },
        'assumptions': trusted + [
            'extraction rules R0-R11 of DESIGN.md section 3 (applied instances listed per function)',
            'Verus, Z3, rustc front end; vstd specifications of std',
            'sequential semantics: one task runs to completion (async/.await kept, no interleavings)',
        ],
        'wall_s': round(wall, 2), 'violations': len(vio_out),
    }
    os.makedirs(EVID, exist_ok=True)
    with open(os.path.join(EVID, pid + '.json'), 'w') as fh:
        json.dump(ev, fh, indent=1)
    print('%s: units=%s obligations=%d discharged=%d functions=%d known=%d violations=%d undecided=%d wall=%.1fs exit=%d' % (
        pid, ','.join(units), obligations, ev['coverage']['discharged'], len(fn_list), len(known_hits), len(vio_out), len(undecided), wall, exit_code))
    return exit_code


def _shq(x):
    import shlex
    return shlex.quote(str(x))


def r7_bounded_checks(pid, results):
    """DESIGN section 3 R7 (thorough tier).  Runs /verif/r7/run.py for the units of this property and keeps the lifted
    helpers that sit in a function carrying a clause of `pid` (every helper of a unit that could not be generated).
    Returns the driver's records, trimmed; never raises: an un-runnable check is a record with status `skipped`."""
    keep_keys = ('helper', 'unit', 'fn', 'prelude', 'status', 'inputs', 'bound', 'counterexample', 'site', 'snippet',
                 'snippet_sha256', 'snippet_changed', 'pinned', 'note', 'observations', 'see_also', 'constants_note',
                 'replay_cmd', 'wall_s')
    drv = os.path.join(VERIF, 'r7', 'run.py')
    units = [r.unit for r in results]
    if not units:
        return []
    if not os.path.exists(drv):
        return [{'helper': '*', 'status': 'skipped', 'note': 'un-runnable: %s is missing' % drv}]
    try:
        p = subprocess.run([sys.executable, drv, '--units', ','.join(units)], stdout=subprocess.PIPE, stderr=subprocess.PIPE,
                           timeout=3000, cwd=VERIF)
    except Exception as e:  # timeout, exec failure
        return [{'helper': '*', 'status': 'skipped', 'note': 'un-runnable: %r' % e}]
    recs = []
    for ln in p.stdout.decode('utf-8', 'replace').split('\n'):
        if ln.startswith('{'):
            try:
                recs.append(json.loads(ln))
            except ValueError:
                pass
    if p.returncode != 0 and not recs:
        return [{'helper': '*', 'status': 'skipped', 'note': 'un-runnable: driver rc=%s: %s' % (p.returncode, p.stderr.decode('utf-8', 'replace')[-400:])}]
    tagged = {}
    for r in results:
        if r.meta is None or not r.gen_path or not os.path.exists(r.gen_path):
            tagged[r.unit] = None      # the unit could not be generated: every lifted helper of it is relevant
            continue
        try:
            tf = tagged_functions(r.meta, pid, open(r.gen_path).read())
            tagged[r.unit] = set('%s::%s' % (f['file'], f['name']) for f in tf)
        except Exception:
            tagged[r.unit] = None
    out = []
    for c in recs:
        t = tagged.get(c.get('unit'), set())
        if t is None or c.get('fn') in t:
            out.append({k: c[k] for k in keep_keys if k in c})
    return out


def fallback_witness(pid, unit, reason, witness_hook):
    """Bounded stand-in used only when a unit cannot be generated/processed: run the registered native
    witness searches for this property's labels of that unit.  Returns a replay record or None."""
    if witness_hook is None:
        return None
    try:
        txt = unit_template_text(unit)
    except Exception:
        return None
    labels = []
    for no, labs in extract.labels_in(txt):
        for lab in labs:
            if pid in props_of_label(lab) and lab not in labels:
                labels.append(lab)
    if not labels:
        return None
    fake = {'labels': labels, 'obligation': '%s/-/bounded-witness' % unit}
    replay = {'property': pid, 'obligation': '%s/-/bounded-witness' % unit, 'labels': labels, 'site': None,
              'site_fn': None, 'verifier': 'verus (could not pose the obligation) + bounded native witness search',
              'verifier_message': 'unit %s could not be verified on this tree: %s' % (unit, reason[:400]),
              'spans': [], 'counterexample': None, 'bounded': True}
    try:
        found = witness_hook(pid, fake, replay)
    except Exception as e:
        return None
    if not found:
        return None
    replay['counterexample'] = found
    replay['obligation'] = '%s/-/bounded-witness(%s)' % (unit, found.get('kind') or 'cmd')
    os.makedirs(REPLAYS, exist_ok=True)
    rp = os.path.join(REPLAYS, '%s-%s.json' % (pid, re.sub(r'[^\w.+-]+', '_', replay['obligation'])[:120]))
    with open(rp, 'w') as fh:
        json.dump(replay, fh, indent=1)
    replay['path'] = rp
    return replay


def fmt_site(f):
    s = f.get('site') or {}
    return '%s:%s' % (s.get('file'), s.get('line'))


def sample_obligations(results, pid):
    out = []
    for r in results:
        if not r.gen_path or not os.path.exists(r.gen_path):
            continue
        for no, ln in enumerate(open(r.gen_path).read().split('\n'), 1):
            mm = re.search(r'//#\s*([\w.,+\- ]+)\s*$', ln)
            if mm and any(pid in props_of_label(l) for l in re.split(r'[,\s]+', mm.group(1)) if l):
                out.append({'unit': r.unit, 'clause': ln.split('//#')[0].strip()[:200], 'label': mm.group(1).strip()})
    return out


def dev_unit(unit, vacuity=True):
    r = verify_unit(unit, vacuity)
    print('unit %s: %s %s (%.1fs, smt %d ms)' % (unit, r.status, r.message, r.wall_s, r.smt_ms))
    for f in r.failures:
        print('  - [%s] %s :: %s  site=%s' % (f['class'], f['obligation'], f['message'][:100], fmt_site(f)))
        for s in f['spans']:
            print('       gen:%s %s %s | %s' % (s['gen_line'], 'P' if s['primary'] else ' ', s['label'] or '', s['text'][:100]))
    if r.status == 'error':
        for ln in r.raw_err.split('\n'):
            if ln.startswith('{'):
                try:
                    print(json.loads(ln).get('rendered', '')[:1500])
                except ValueError:
                    print(ln[:300])
            elif ln.strip():
                print(ln[:300])
    if r.vacuity:
        print('  vacuity: %s' % r.vacuity)
    for d in r.degraded:
        print('  NOT POSABLE (contract only assumed in this run): %s::%s -- %s' % (d['file'], d['name'], d['reason'][:300]))
    tot = sum(r.obligations.values())
    print('  obligations(AIR asserts)=%d functions=%d' % (tot, len(r.functions)))
    return 0 if (r.status == 'ok' and not r.degraded) else 1


# ------------------------------------------------------------------------------------------------
# mutation self-test (thorough tier): units/<unit>.mutants.json =
#   [{"name": "...", "file": "src/x.rs", "from": "<literal>", "to": "<literal>", "expect": "<label regex>",
#     "occurrence": 1}]   ("benign": true = a behaviour-preserving variant: the unit must still verify)
# Each mutant is applied to a scratch copy of /repo/src (mktemp outside /repo and /verif, removed
# afterwards); the unit must then FAIL an obligation whose label/obligation id matches `expect`.


def unit_json(unit, tag=''):
    r = verify_unit(unit, vacuity=False, tag=tag)
    if r.status == 'ok' and r.degraded:
        r.status = 'error'
        r.message = 'not posable: ' + '; '.join('%s: %s' % (d['name'], d['reason'][:160]) for d in r.degraded)
    return {'unit': unit, 'status': r.status, 'message': r.message, 'degraded': [d['name'] for d in r.degraded],
            'failures': [{'class': f['class'], 'obligation': f['obligation'], 'labels': f['labels'], 'props': f['props'],
                          'message': f['message'], 'site': f['site']} for f in r.failures]}


def load_mutants(unit):
    p = os.path.join(VERIF, 'units', unit + '.mutants.json')
    if not os.path.exists(p):
        return []
    return json.load(open(p))


def run_mutant(unit, m):
    import tempfile
    d = tempfile.mkdtemp(prefix='vmut_')
    try:
        shutil.copytree(os.path.join(extract.REPO, 'src'), os.path.join(d, 'src'))
        fp = os.path.join(d, m['file'])
        txt = open(fp, encoding='utf-8').read()
        cnt = txt.count(m['from'])
        occ = m.get('occurrence', 1)
        if cnt < occ:
            return {'name': m['name'], 'result': 'not-applicable', 'detail': 'pattern occurs %d times' % cnt}
        idx = -1
        for _ in range(occ):
            idx = txt.index(m['from'], idx + 1)
        txt = txt[:idx] + m['to'] + txt[idx + len(m['from']):]
        open(fp, 'w', encoding='utf-8').write(txt)
        env = dict(os.environ)
        env['VERIF_REPO'] = d
        tag = '_m_' + re.sub(r'\W+', '_', m['name'])[:40]
        p = subprocess.run([sys.executable, os.path.join(VERIF, 'check'), '--unit-json', unit, '--tag', tag],
                           stdout=subprocess.PIPE, stderr=subprocess.PIPE, env=env, timeout=1200)
        try:
            res = json.loads(p.stdout.decode('utf-8', 'replace').strip().split('\n')[-1])
        except ValueError:
            return {'name': m['name'], 'result': 'error', 'detail': p.stderr.decode('utf-8', 'replace')[-300:]}
        hits = [f for f in res['failures'] if f['class'] in ('labelled', 'builtin') and
                (re.search(m['expect'], f['obligation']) or any(re.search(m['expect'], l) for l in f['labels']))]
        for g in glob.glob(os.path.join(GEN, 'u_%s%s*' % (unit, tag))):
            if os.path.isdir(g):
                shutil.rmtree(g, ignore_errors=True)
            else:
                os.unlink(g)
        if m.get('benign'):
            # a behaviour-preserving variant: the unit must still be posable and every obligation must hold
            # ('detected' = the self-test expectation is met; anything else is a false alarm or a brittle template)
            alarms = [f for f in res['failures'] if f['class'] in ('labelled', 'builtin')]
            if res['status'] == 'ok' and not res['failures']:
                return {'name': m['name'], 'result': 'detected', 'obligation': 'benign variant verifies'}
            return {'name': m['name'], 'result': 'missed', 'status': res['status'],
                    'detail': ('FALSE ALARM on a benign variant: ' if alarms else 'benign variant not decided: ') + res['message'][:160],
                    'failures': [f['obligation'] for f in res['failures']][:5]}
        if hits:
            return {'name': m['name'], 'result': 'detected', 'obligation': hits[0]['obligation']}
        return {'name': m['name'], 'result': 'missed', 'status': res['status'], 'detail': res['message'][:200],
                'failures': [f['obligation'] for f in res['failures']][:5]}
    finally:
        shutil.rmtree(d, ignore_errors=True)


def run_mutants(units, pid=None):
    jobs = []
    for u in units:
        for m in load_mutants(u):
            # a mutant belongs to the properties named in its `expect` regex or `props`; one that names no property at all
            # (its clause label carries several: `expect` gives only the clause name) is run for every property of the unit
            names_a_property = bool(re.search(r'C\d\d', m.get('expect', ''))) or bool(m.get('props'))
            if pid and names_a_property and pid not in m.get('expect', '') and pid not in m.get('props', []):
                continue
            jobs.append((u, m))
    out = []
    with concurrent.futures.ThreadPoolExecutor(max_workers=6) as ex:
        futs = [(u, m, ex.submit(run_mutant, u, m)) for u, m in jobs]
        for u, m, f in futs:
            r = f.result()
            r['unit'] = u
            out.append(r)
    return out
