"""Counterexample search and replay.  Used only AFTER the verifier has rejected an obligation: it looks
for a concrete input on which the real crate (built from /repo's working tree) disagrees with an
executable transcription of the spec function.  It never decides a property."""

import json
import os
import re
import subprocess
import sys

from .extract import VERIF

# VERIF_WITNESS_DIR: an isolated copy of the witness crate whose path dependency points at a scratch copy of the
# repository (tools/try_seed_scratch.sh); default = /verif/witness, built against /repo's working tree
WDIR = os.environ.get('VERIF_WITNESS_DIR') or os.path.join(VERIF, 'witness')
BIN = os.path.join(WDIR, 'target', 'debug', 'witness')

# Registry: units/<unit>.witness.json = [{"label_re": "...", "kind": "<native witness kind>"} |
#                                         {"label_re": "...", "cmd": ["prog", "arg", ...]}]
# `kind` is served by /verif/witness (src/w_*.rs); `cmd` is any command that prints one JSON object
# {"found": bool, "input": .., "real": .., "expected": .., "explain": .., "replay_cmd": ..} (e.g. a Kani harness driver).


def registry():
    import glob
    regs = []
    for p in sorted(glob.glob(os.path.join(VERIF, 'units', '*.witness.json'))):
        try:
            for e in json.load(open(p)):
                regs.append(e)
        except ValueError:
            pass
    return regs


def build(timeout=1800):
    env = dict(os.environ)
    env['CARGO_NET_OFFLINE'] = 'true'
    lock = os.path.join(WDIR, 'Cargo.lock')
    if not os.path.exists(lock):
        import shutil
        shutil.copy('/repo/Cargo.lock', lock)
    p = subprocess.run(['cargo', 'build', '--offline', '--quiet'], cwd=WDIR, env=env, stdout=subprocess.PIPE,
                       stderr=subprocess.STDOUT, timeout=timeout)
    return p.returncode == 0, p.stdout.decode('utf-8', 'replace')[-2000:]


def run_witness(mode, kind, inp=None, timeout=900):
    cmd = [BIN, mode, kind]
    if inp is not None:
        cmd.append(json.dumps(inp))
    p = subprocess.run(cmd, stdout=subprocess.PIPE, stderr=subprocess.PIPE, timeout=timeout)
    out = p.stdout.decode('utf-8', 'replace').strip().split('\n')
    for ln in reversed(out):
        if ln.startswith('{'):
            try:
                return json.loads(ln)
            except ValueError:
                pass
    return {'found': False, 'error': 'witness produced no JSON (rc=%s): %s' % (p.returncode, p.stderr.decode('utf-8', 'replace')[-500:])}


def entries_for(fail):
    es = []
    labs = list(fail.get('labels', [])) or [fail.get('obligation', '')]
    for lab in labs:
        for e in registry():
            if re.search(e['label_re'], lab) and e not in es:
                es.append(e)
    return es


def run_cmd(cmd, timeout=900):
    p = subprocess.run(cmd, stdout=subprocess.PIPE, stderr=subprocess.PIPE, timeout=timeout, cwd=VERIF)
    for ln in reversed(p.stdout.decode('utf-8', 'replace').strip().split('\n')):
        if ln.startswith('{'):
            try:
                return json.loads(ln)
            except ValueError:
                pass
    return {'found': False, 'error': 'no JSON from %s (rc=%s): %s' % (cmd, p.returncode, p.stderr.decode('utf-8', 'replace')[-400:])}


def find_witness(pid, fail, replay):
    es = entries_for(fail)
    if not es:
        return None
    built = None
    for e in es:
        if 'kind' in e:
            if built is None:
                built, log = build()
                if not built:
                    replay['witness_error'] = 'witness crate did not build against the working tree: ' + log[-600:]
            if not built:
                continue
            r = run_witness('search', e['kind'])
            rc = '%s replay %s %s' % (BIN, e['kind'], json.dumps(json.dumps(r.get('input'))))
        else:
            r = run_cmd(e['cmd'])
            rc = r.get('replay_cmd') or ' '.join(e['cmd'])
        replay.setdefault('witness_runs', []).append({'entry': e, 'result': {x: r[x] for x in r if x != 'input'}})
        if r.get('found'):
            return {'kind': e.get('kind'), 'cmd': e.get('cmd'), 'input': r.get('input'), 'real': r.get('real'),
                    'expected': r.get('expected'), 'explain': r.get('explain'), 'replay_cmd': rc}
    return None


def replay(path):
    d = json.load(open(path))
    print('obligation: %s' % d.get('obligation'))
    print('verifier: %s: %s' % (d.get('verifier'), d.get('verifier_message')))
    for s in d.get('spans', []):
        print('   %s %s' % (s.get('src'), s.get('text')))
    ce = d.get('counterexample')
    if not ce:
        print('no concrete input recorded (no-failing-input-found); verifier output above is the evidence')
        return 0
    ok, log = build()
    if not ok:
        print('witness crate does not build: ' + log)
        return 2
    if not ce.get('kind'):
        r = run_cmd(ce['cmd'])
    else:
        r = run_witness('replay', ce['kind'], ce['input'])
    print(json.dumps(r, indent=1, ensure_ascii=False))
    if r.get('found'):
        print('REPRODUCED on the real crate')
        return 1
    print('not reproduced on the current tree')
    return 0


def run_supplements(pid, tier):
    """Run the bounded stand-ins registered for this property (units/zz_supplement.json)."""
    import time
    p = os.path.join(VERIF, 'units', 'zz_supplement.json')
    if not os.path.exists(p):
        return []
    reg = json.load(open(p)).get(pid, {})
    kinds = list(reg.get('quick', []))
    if tier == 'thorough':
        kinds += [k for k in reg.get('thorough', []) if k not in kinds]
    if not kinds:
        return []
    ok, log = build()
    if not ok:
        return [{'kind': k, 'found': False, 'error': 'witness crate does not build against this tree: ' + log[-300:]} for k in kinds]
    out = []
    for k in kinds:
        t0 = time.time()
        try:
            r = run_witness('search', k, timeout=600)
        except subprocess.TimeoutExpired:
            r = {'found': False, 'error': 'timeout'}
        r['kind'] = k
        r['wall_s'] = round(time.time() - t0, 1)
        if r.get('found'):
            r['replay_cmd'] = '%s replay %s %s' % (BIN, k, json.dumps(json.dumps(r.get('input'))))
        out.append(r)
    return out
