"""Counterexample search and replay.  Used only AFTER the verifier has rejected an obligation: it looks
for a concrete input on which the real crate (built from /repo's working tree) disagrees with an
executable transcription of the spec function.  It never decides a property."""

import json
import os
import re
import subprocess
import sys

from .extract import VERIF

WDIR = os.path.join(VERIF, 'witness')
BIN = os.path.join(WDIR, 'target', 'debug', 'witness')

# obligation label (regex) -> witness kind
LABEL_KINDS = [
    (r'^C12\.prefix_', 'apath_prefix'),
    (r'^C11\.cmp_', 'apath_cmp'),
    (r'^C11\.valid_', 'apath_valid'),
]

# witness kinds that are driven by Kani harnesses instead of the native search
KANI_KINDS = {}


def build(timeout=1800):
    env = dict(os.environ)
    env['CARGO_NET_OFFLINE'] = 'true'
    lock = os.path.join(WDIR, 'Cargo.lock')
    if not os.path.exists(lock):
        import shutil
        shutil.copy('/repo/Cargo.lock', lock)
    p = subprocess.run(['cargo', 'build', '--offline', '--quiet'], cwd=WDIR, env=env, stdout=subprocess.PIPE,
                       stderr=subprocess.STDOUT, timeout=timeout)
    return p.returncode == 0, p.stdout.decode('utf-8', 'replace')[-2000:]


def run_witness(mode, kind, inp=None, timeout=900):
    cmd = [BIN, mode, kind]
    if inp is not None:
        cmd.append(json.dumps(inp))
    p = subprocess.run(cmd, stdout=subprocess.PIPE, stderr=subprocess.PIPE, timeout=timeout)
    out = p.stdout.decode('utf-8', 'replace').strip().split('\n')
    for ln in reversed(out):
        if ln.startswith('{'):
            try:
                return json.loads(ln)
            except ValueError:
                pass
    return {'found': False, 'error': 'witness produced no JSON (rc=%s): %s' % (p.returncode, p.stderr.decode('utf-8', 'replace')[-500:])}


def kinds_for(fail):
    ks = []
    for lab in fail.get('labels', []):
        for pat, k in LABEL_KINDS:
            if re.search(pat, lab) and k not in ks:
                ks.append(k)
    for k in fail.get('witness_kinds', []):
        if k not in ks:
            ks.append(k)
    return ks


def find_witness(pid, fail, replay):
    ks = kinds_for(fail)
    if not ks:
        return None
    ok, log = build()
    if not ok:
        replay['witness_error'] = 'witness crate did not build against the working tree: ' + log[-600:]
        return None
    for k in ks:
        r = run_witness('search', k)
        replay.setdefault('witness_runs', []).append({'kind': k, 'result': {x: r[x] for x in r if x != 'input'}})
        if r.get('found'):
            return {'kind': k, 'input': r.get('input'), 'real': r.get('real'), 'expected': r.get('expected'),
                    'explain': r.get('explain'), 'replay_cmd': '%s replay %s %s' % (BIN, k, json.dumps(json.dumps(r.get('input'))))}
    return None


def replay(path):
    d = json.load(open(path))
    print('obligation: %s' % d.get('obligation'))
    print('verifier: %s: %s' % (d.get('verifier'), d.get('verifier_message')))
    for s in d.get('spans', []):
        print('   %s %s' % (s.get('src'), s.get('text')))
    ce = d.get('counterexample')
    if not ce:
        print('no concrete input recorded (no-failing-input-found); verifier output above is the evidence')
        return 0
    ok, log = build()
    if not ok:
        print('witness crate does not build: ' + log)
        return 2
    r = run_witness('replay', ce['kind'], ce['input'])
    print(json.dumps(r, indent=1, ensure_ascii=False))
    if r.get('found'):
        print('REPRODUCED on the real crate')
        return 1
    print('not reproduced on the current tree')
    return 0
