"""Minimal Rust lexical scanner: enough to skip comments, strings, chars and lifetimes so that
brace / paren matching on real source text is reliable.  stdlib only."""

import re


class LexError(Exception):
    pass


def code_mask(src):
    """Return a list `m` with m[i] == True iff src[i] is 'code' (not inside a comment, string or
    char literal).  Delimiters of strings count as non-code."""
    n = len(src)
    m = [True] * n
    i = 0
    while i < n:
        c = src[i]
        if c == '/' and i + 1 < n and src[i + 1] == '/':
            j = src.find('\n', i)
            if j < 0:
                j = n
            for k in range(i, j):
                m[k] = False
            i = j
        elif c == '/' and i + 1 < n and src[i + 1] == '*':
            depth = 1
            j = i + 2
            while j < n and depth > 0:
                if src.startswith('/*', j):
                    depth += 1
                    j += 2
                elif src.startswith('*/', j):
                    depth -= 1
                    j += 2
                else:
                    j += 1
            for k in range(i, j):
                m[k] = False
            i = j
        elif c == '"' or (c in 'br' and _is_str_start(src, i)):
            j = _skip_string(src, i)
            for k in range(i, j):
                m[k] = False
            i = j
        elif c == "'":
            j = _skip_char_or_lifetime(src, i)
            if j is not None:
                for k in range(i, j):
                    m[k] = False
                i = j
            else:
                i += 1  # lifetime: leave as code
        else:
            i += 1
    return m


def _is_str_start(src, i):
    # b"..", r"..", r#".."#, br"..", b'x'
    if i > 0 and (src[i - 1].isalnum() or src[i - 1] == '_'):
        return False
    mm = re.match(r'(b?r#*"|b")', src[i:i + 12])
    return mm is not None


def _skip_string(src, i):
    n = len(src)
    mm = re.match(r'(b?r(#*)"|b?")', src[i:i + 40])
    if not mm:
        raise LexError('bad string start at %d' % i)
    if 'r' in mm.group(1):
        hashes = mm.group(2) or ''
        end = '"' + hashes
        j = src.find(end, i + len(mm.group(1)))
        if j < 0:
            raise LexError('unterminated raw string')
        return j + len(end)
    j = i + len(mm.group(1))
    while j < n:
        if src[j] == '\\':
            j += 2
        elif src[j] == '"':
            return j + 1
        else:
            j += 1
    raise LexError('unterminated string')


def _skip_char_or_lifetime(src, i):
    """If src[i] starts a char literal return index after it; if it is a lifetime return None."""
    n = len(src)
    if i + 1 >= n:
        return None
    if src[i + 1] == '\\':
        j = src.find("'", i + 2)
        # handle '\'' : the escaped quote
        if src[i + 2] == "'":
            j = src.find("'", i + 3)
        if j < 0:
            raise LexError('unterminated char')
        return j + 1
    # 'x' where x is one (possibly multi-byte) char
    if i + 2 < n and src[i + 2] == "'":
        return i + 3
    return None


OPEN = {'{': '}', '(': ')', '[': ']'}
CLOSE = {'}': '{', ')': '(', ']': '['}


def match_close(src, mask, i):
    """src[i] is an opening bracket in code; return index of its matching close."""
    assert src[i] in OPEN and mask[i]
    stack = [src[i]]
    j = i + 1
    n = len(src)
    while j < n:
        if mask[j]:
            c = src[j]
            if c in OPEN:
                stack.append(c)
            elif c in CLOSE:
                if not stack or stack[-1] != CLOSE[c]:
                    raise LexError('bracket mismatch at %d' % j)
                stack.pop()
                if not stack:
                    return j
        j += 1
    raise LexError('unclosed bracket at %d' % i)


def find_code(src, mask, pat, start=0, end=None):
    """Iterate regex matches of `pat` that begin in code."""
    rx = re.compile(pat)
    pos = start
    end = len(src) if end is None else end
    while True:
        mm = rx.search(src, pos, end)
        if not mm:
            return
        if mask[mm.start()]:
            yield mm
        pos = mm.start() + 1


def line_of(src, idx):
    return src.count('\n', 0, idx) + 1
