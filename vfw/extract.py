"""Extractor: builds one Verus file per unit from a unit template (/verif/units/<unit>.vu) and the
*current* text of /repo/src.  See DESIGN.md section 3 for the rules.  stdlib only.

Template language (lines starting with //@@ at top level, //@ inside an fn/type block):

  //@@ include <file under /verif/prelude>
  //@@ fn <src file> | <scope header or -> | <fn name> [props=C01,C10] [sigcheck=off]
    //@ header              (verus attributes + signature with named return + requires/ensures)
    //@ drop                (one regex per line: whole statements starting with a match are removed; R1)
    //@ rewrite [n=K]       (lines `FROM ==> TO`, literal; `[n=K] FROM ==> TO` demands exactly K matches, default any;
                            `[n=K?TOKEN]`: K matches, or 0 if the literal TOKEN no longer occurs in the body; R3-R6)
    //@ rewrite-re [n=K]    (same with python regex FROM)
    //@ loop K              (invariant / decreases text for the K-th loop of the body)
    //@ loop-start K        (text inserted as first statement(s) of the K-th loop body)
    //@ before [k=N] <anchor>   (text inserted before the N-th line whose stripped text starts with anchor)
    //@ after [k=N] <anchor>    (text inserted after the statement line(s) starting at that line)
    //@ body-start / body-end
    //@ forbid              (regexes that must not match the body after the rewrites; `format!(` is always forbidden)
  //@@ end
  //@@ stub <unit> <src file> | <scope> | <fn name>    (external_body copy of that unit's header)
  //@@ type <src file> | <struct|enum> <Name> [derive=A,B]
    //@ rewrite ...
  //@@ end

Clause labels: a trailing `//# C11.cmp_spec` (comma separated for several) on a requires / ensures /
invariant line.  Unlabelled built-in obligations of an fn block belong to the block's props=.
"""

import hashlib
import json
import os
import re
import sys

from . import rustlex

VERIF = os.path.dirname(os.path.dirname(os.path.abspath(__file__)))
REPO = os.environ.get('VERIF_REPO', '/repo')


class ExtractError(Exception):
    """Machinery cannot pose the question (lost anchor, changed signature, ...): exit 2, never alarm."""


class Line:
    __slots__ = ('text', 'src', 'kind')

    def __init__(self, text, src=None, kind='tmpl'):
        self.text = text
        self.src = src      # (file, line) in /repo or (template, line)
        self.kind = kind    # 'code' (verbatim from repo) | 'tmpl' | 'header' | 'inserted' | 'rewritten'


def norm_ws(s):
    return re.sub(r'\s+', ' ', s).strip()


class SourceFile:
    cache = {}

    def __init__(self, rel):
        self.rel = rel
        path = os.path.join(REPO, rel)
        if not os.path.exists(path):
            raise ExtractError('source file missing: %s' % rel)
        self.text = open(path, encoding='utf-8').read()
        self.mask = rustlex.code_mask(self.text)

    @classmethod
    def get(cls, rel):
        key = (REPO, rel)
        if key not in cls.cache:
            cls.cache[key] = SourceFile(rel)
        return cls.cache[key]

    def depth_ranges(self, start, end):
        """Yield (idx, char) for code chars at brace depth 0 relative to start."""
        depth = 0
        i = start
        while i < end:
            if self.mask[i]:
                c = self.text[i]
                if c == '{':
                    depth += 1
                elif c == '}':
                    depth -= 1
            i += 1
            yield i, depth

    def find_scope(self, scope, scope_occ=None):
        """Return (start,end) index range of the inside of the scope's braces."""
        if scope in ('-', ''):
            return 0, len(self.text)
        seen = 0
        want = norm_ws(scope)
        kw = want.split(' ')[0].split('<')[0]
        for mm in rustlex.find_code(self.text, self.mask, r'\b%s\b' % re.escape(kw)):
            # must be at depth 0 or inside a mod; take header up to the '{'
            j = mm.start()
            k = j
            while k < len(self.text) and not (self.text[k] == '{' and self.mask[k]):
                if self.text[k] == ';' and self.mask[k]:
                    break
                k += 1
            if k >= len(self.text) or self.text[k] != '{':
                continue
            header = norm_ws(self.text[j:k])
            if header == want:
                seen += 1
                if scope_occ is not None and seen != scope_occ:
                    continue
                close = rustlex.match_close(self.text, self.mask, k)
                return k + 1, close
        raise ExtractError('scope not found in %s: %s' % (self.rel, scope))

    def find_fn(self, scope, name, occ=None, scope_occ=None):
        s, e = self.find_scope(scope, scope_occ)
        depth = 0
        cands = []
        rx = re.compile(r'\bfn\s+%s\b' % re.escape(name))
        i = s
        # compute depth incrementally
        pos_depth = {}
        d = 0
        for i in range(s, e):
            if self.mask[i]:
                c = self.text[i]
                if c == '{':
                    d += 1
                elif c == '}':
                    d -= 1
            pos_depth[i] = d
        for mm in rustlex.find_code(self.text, self.mask, rx.pattern, s, e):
            if pos_depth.get(mm.start(), 0) == 0:
                cands.append(mm.start())
        if not cands:
            raise ExtractError('fn %s not found in %s [%s]' % (name, self.rel, scope))
        if occ is not None:
            if occ < 1 or occ > len(cands):
                raise ExtractError('fn %s occurrence %d not found in %s [%s]' % (name, occ, self.rel, scope))
            fpos = cands[occ - 1]
        elif len(cands) > 1:
            # cfg-duplicated functions (e.g. debug/non-debug): disambiguate with occ=K in the fn head
            raise ExtractError('fn %s ambiguous in %s [%s]: add occ=K' % (name, self.rel, scope))
        else:
            fpos = cands[0]
        # signature start: beginning of the line holding `fn` (qualifiers are on that line)
        ls = self.text.rfind('\n', 0, fpos) + 1
        # body '{' : first '{' in code at paren depth 0 after fpos
        k = fpos
        pd = 0
        while k < e:
            if self.mask[k]:
                c = self.text[k]
                if c in '([':
                    pd += 1
                elif c in ')]':
                    pd -= 1
                elif c == '{' and pd == 0:
                    break
                elif c == ';' and pd == 0:
                    raise ExtractError('fn %s in %s has no body' % (name, self.rel))
            k += 1
        close = rustlex.match_close(self.text, self.mask, k)
        sig = self.text[ls:k]
        body = self.text[k:close + 1]
        return {
            'sig': sig, 'body': body,
            'sig_line': rustlex.line_of(self.text, ls),
            'body_line': rustlex.line_of(self.text, k),
            'end_line': rustlex.line_of(self.text, close),
        }

    def find_type(self, kind, name):
        rx = r'\b%s\s+%s\b' % (kind, re.escape(name))
        for mm in rustlex.find_code(self.text, self.mask, rx):
            k = mm.end()
            while k < len(self.text):
                if self.mask[k] and self.text[k] in '{;(':
                    break
                k += 1
            if self.text[k] == '{':
                close = rustlex.match_close(self.text, self.mask, k)
                end = close + 1
            elif self.text[k] == '(':
                close = rustlex.match_close(self.text, self.mask, k)
                end = self.text.find(';', close) + 1
            else:
                end = k + 1
            ls = self.text.rfind('\n', 0, mm.start()) + 1
            return {'text': self.text[ls:end], 'line': rustlex.line_of(self.text, ls)}
        raise ExtractError('type %s %s not found in %s' % (kind, name, self.rel))


# ------------------------------------------------------------------------------------------------
# template parsing


def parse_opts(tokens):
    opts = {}
    rest = []
    for t in tokens:
        mm = re.match(r'^(\w[\w-]*)=(.*)$', t)
        if mm:
            opts[mm.group(1)] = mm.group(2)
        else:
            rest.append(t)
    return opts, rest


class Block:
    def __init__(self, kind, head, tmpl, line):
        self.kind = kind
        self.head = head
        self.tmpl = tmpl
        self.line = line
        self.sections = []   # (name, args, [lines])


def read_template(path):
    """Return list of items: ('text', [ (line, lineno) ]) or Block."""
    items = []
    cur = None
    sec = None
    with open(path, encoding='utf-8') as f:
        lines = f.read().split('\n')
    for no, ln in enumerate(lines, 1):
        st = ln.strip()
        if st.startswith('//@@'):
            body = st[4:].strip()
            word = body.split(' ', 1)[0]
            arg = body[len(word):].strip()
            if word == 'end':
                if cur is None:
                    raise ExtractError('%s:%d: end without block' % (path, no))
                items.append(cur)
                cur = None
                sec = None
            elif word in ('fn', 'type'):
                if cur is not None:
                    raise ExtractError('%s:%d: nested block' % (path, no))
                cur = Block(word, arg, path, no)
                sec = None
            elif word in ('include', 'stub'):
                items.append(Block(word, arg, path, no))
            else:
                raise ExtractError('%s:%d: unknown directive %s' % (path, no, word))
        elif cur is not None:
            if st.startswith('//@') and not st.startswith('//@@'):
                body = st[3:].strip()
                word = body.split(' ', 1)[0]
                arg = body[len(word):].strip()
                sec = (word, arg, [])
                cur.sections.append(sec)
            else:
                if sec is None:
                    if st:
                        raise ExtractError('%s:%d: text outside a section' % (path, no))
                else:
                    sec[2].append((ln, no))
        else:
            items.append(('text', ln, no))
    if cur is not None:
        raise ExtractError('%s: unterminated block at line %d' % (path, cur.line))
    return items


def split_head(head):
    parts = [p.strip() for p in head.split('|')]
    if len(parts) != 3:
        raise ExtractError('bad fn head: %s' % head)
    toks = parts[2].split()
    opts, rest = parse_opts(toks)
    if len(rest) != 1:
        raise ExtractError('bad fn head: %s' % head)
    return parts[0], parts[1], rest[0], opts


# ------------------------------------------------------------------------------------------------
# body surgery


def text_of(lines):
    return '\n'.join(l.text for l in lines)


def stmt_end_line(lines, start):
    """Index of the last line of the statement that starts at lines[start] (bracket depth back to 0
    and a terminating ';' or a closing '}' at depth 0)."""
    txt = '\n'.join(l.text for l in lines[start:])
    mask = rustlex.code_mask(txt)
    depth = 0
    for i, c in enumerate(txt):
        if not mask[i]:
            continue
        if c in '([{':
            depth += 1
        elif c in ')]}':
            depth -= 1
            if depth < 0:
                break
            if depth == 0 and c == '}':
                # block-like statement ends here unless followed by else / ; / . / ?
                rest = txt[i + 1:].lstrip(' \t')
                if rest.startswith(';'):
                    i = i + 1 + txt[i + 1:].index(';')
                    return start + txt.count('\n', 0, i)
                if rest.startswith('\n') or rest == '':
                    nxt = rest.lstrip()
                    if nxt.startswith('else') or nxt.startswith('.') or nxt.startswith('?'):
                        continue
                    return start + txt.count('\n', 0, i)
        elif c == ';' and depth == 0:
            return start + txt.count('\n', 0, i)
    raise ExtractError('cannot find end of statement: %s' % lines[start].text.strip())


def find_loops(lines):
    """Return list of (line_idx, col_of_open_brace) for each loop keyword in textual order."""
    txt = text_of(lines)
    mask = rustlex.code_mask(txt)
    res = []
    for mm in rustlex.find_code(txt, mask, r'\b(loop|while|for)\b'):
        kw = mm.group(1)
        if kw == 'for':
            # skip `for<'a>` and `impl X for Y` (not expected in bodies)
            after = txt[mm.end():mm.end() + 1]
            if after == '<':
                continue
        # find body '{' at paren depth 0
        k = mm.end()
        if kw == 'for':
            # the pattern may contain braces (`for S { a, b } in xs {`): start after the ` in ` keyword
            bd = 0
            j = k
            while j < len(txt):
                if mask[j]:
                    if txt[j] in '({[':
                        bd += 1
                    elif txt[j] in ')}]':
                        bd -= 1
                    elif bd == 0 and txt.startswith(' in ', j) or (bd == 0 and txt.startswith('\nin ', j)):
                        k = j + 4
                        break
                    elif bd == 0 and re.match(r'\s+in\s', txt[j:j + 6]):
                        k = j + re.match(r'\s+in\s', txt[j:j + 6]).end()
                        break
                j += 1
        pd = 0
        ok = False
        while k < len(txt):
            if mask[k]:
                c = txt[k]
                if c in '([':
                    pd += 1
                elif c in ')]':
                    pd -= 1
                elif c == '{' and pd == 0:
                    ok = True
                    break
                elif c == ';' and pd == 0:
                    break
            k += 1
        if not ok:
            continue
        li = txt.count('\n', 0, k)
        col = k - (txt.rfind('\n', 0, k) + 1)
        res.append((li, col, kw))
    return res


def apply_fn_block(blk, unit_state):
    relfile, scope, name, opts = split_head(blk.head)
    sf = SourceFile.get(relfile)
    item = sf.find_fn(scope, name, int(opts['occ']) if 'occ' in opts else None,
                      int(opts['scope_occ']) if 'scope_occ' in opts else None)
    rules = []
    body_src_lines = item['body'].split('\n')
    lines = [Line(t, (relfile, item['body_line'] + i), 'code') for i, t in enumerate(body_src_lines)]
    header = None
    sec_by = {}
    for sname, sarg, slines in blk.sections:
        sec_by.setdefault(sname, []).append((sarg, slines))

    def where():
        return '%s:%d (%s::%s)' % (blk.tmpl, blk.line, relfile, name)

    # ---- R0 drop doc comments / attributes inside body? no: bodies are verbatim.
    # ---- drops (R1)
    for sarg, slines in sec_by.get('drop', []):
        for (pat, no) in slines:
            pat = pat.strip()
            if not pat or pat.startswith('//'):
                continue
            optional = False
            if pat.startswith('?'):
                optional = True
                pat = pat[1:].strip()
            rx = re.compile(pat)
            i = 0
            hits = 0
            while i < len(lines):
                if lines[i].kind == 'code' and rx.match(lines[i].text.strip()):
                    e = stmt_end_line(lines, i)
                    dropped = ' '.join(l.text.strip() for l in lines[i:e + 1])
                    indent = re.match(r'\s*', lines[i].text).group(0)
                    lines[i:e + 1] = [Line(indent + '// [R1 dropped] ' + dropped[:160], lines[i].src, 'inserted')]
                    rules.append({'rule': 'R1-drop', 'pattern': pat, 'text': dropped[:200]})
                    hits += 1
                i += 1
            if hits == 0 and not optional:
                raise ExtractError('%s: drop pattern matched nothing: %s' % (where(), pat))

    # ---- global R1: tracing statements are dropped wherever they appear (an edit that adds a log line must not
    # make the unit un-posable); the per-block `drop` lists above remain for the other observability statements
    rxlog = re.compile(r'^(tracing::)?(trace|debug|info|warn|error)!\s*\(')
    i = 0
    while i < len(lines):
        if lines[i].kind == 'code' and rxlog.match(lines[i].text.strip()):
            try:
                e = stmt_end_line(lines, i)
            except ExtractError:
                i += 1
                continue
            dropped = ' '.join(l.text.strip() for l in lines[i:e + 1])
            indent = re.match(r'\s*', lines[i].text).group(0)
            lines[i:e + 1] = [Line(indent + '// [R1 dropped] ' + dropped[:160], lines[i].src, 'inserted')]
            rules.append({'rule': 'R1-drop-log', 'text': dropped[:120]})
        i += 1

    # ---- R5 normalisation: a `format!( .. )` spread over several lines by rustfmt is joined into the one-line form
    # (white space only), so that the R5 redirections see the same text whichever way the call is laid out
    i = 0
    while i < len(lines):
        l = lines[i]
        if l.kind == 'code' and re.search(r'\bformat!\s*\($', l.text.rstrip()):
            j = i
            joined = l.text.rstrip()
            depth = None
            while True:
                txt = '\n'.join(x.text for x in lines[i:j + 1])
                mask = rustlex.code_mask(txt)
                k = txt.index('format!')
                k = txt.index('(', k)
                try:
                    close = rustlex.match_close(txt, mask, k)
                except Exception:
                    close = None
                if close is not None and close >= 0:
                    break
                j += 1
                if j >= len(lines) or lines[j].kind != 'code' or j - i > 12:
                    close = None
                    break
            if close is not None and j > i:
                parts = [lines[i].text.rstrip()] + [x.text.strip() for x in lines[i + 1:j + 1]]
                one = parts[0] + parts[1]
                for ptxt in parts[2:]:
                    if ptxt.startswith(')'):
                        one = one[:-1] if one.endswith(',') else one
                        one += ptxt
                    else:
                        one += ' ' + ptxt
                lines[i:j + 1] = [Line(one, l.src, 'code')]
                rules.append({'rule': 'R5-join', 'text': one.strip()[:160]})
        i += 1

    # ---- rewrites
    def do_rewrite(sarg, slines, regex):
        o, _ = parse_opts(sarg.split())
        for (ln, no) in slines:
            if not ln.strip() or ln.strip().startswith('//'):
                continue
            if '==>' not in ln:
                raise ExtractError('%s:%d: rewrite needs FROM ==> TO' % (blk.tmpl, no))
            frm, to = ln.split('==>', 1)
            frm = frm.strip()
            to = to.strip()
            want = o.get('n', '*')
            mline = re.match(r'^\[n=(\d+|\*|\+)(?:\?([^\]]+))?\]\s*(.*)$', frm)
            absent_token = None
            if mline:
                want = mline.group(1)
                absent_token = mline.group(2)
                frm = mline.group(3)
            cnt = 0
            for l in lines:
                if l.kind not in ('code', 'rewritten'):
                    continue
                if regex:
                    new, k = re.subn(frm, to, l.text)
                else:
                    k = l.text.count(frm)
                    new = l.text.replace(frm, to) if k else l.text
                if k:
                    cnt += k
                    l.text = new
                    l.kind = 'rewritten'
            if want == '*':
                pass
            elif want == '+':
                if cnt == 0:
                    raise ExtractError('%s: rewrite matched nothing: %s' % (where(), frm))
            elif cnt != int(want):
                # `[n=K?TOKEN]`: K matches, or none at all provided the literal TOKEN no longer occurs in the body (the
                # annotated call is really gone, e.g. removed by an edit: then the clauses that depended on it must fail)
                body_now = '\n'.join(l.text.split('//')[0] for l in lines if l.kind in ('code', 'rewritten'))
                if not (cnt == 0 and absent_token and absent_token not in body_now):
                    raise ExtractError('%s: rewrite `%s` matched %d times, expected %s' % (where(), frm, cnt, want))
            rules.append({'rule': 'rewrite-re' if regex else 'rewrite', 'from': frm, 'to': to, 'count': cnt})

    for sarg, slines in sec_by.get('rewrite', []):
        do_rewrite(sarg, slines, False)
    for sarg, slines in sec_by.get('rewrite-re', []):
        do_rewrite(sarg, slines, True)
    # a rewrite may introduce line breaks (written \n in the template): split into lines, same source line
    nl = []
    for l in lines:
        if '\\n' in l.text and l.kind == 'rewritten':
            for part in l.text.split('\\n'):
                nl.append(Line(part, l.src, 'rewritten'))
        else:
            nl.append(l)
    lines = nl

    # ---- constructs that must not survive the rewrites: `format!` has no meaning for the verifier (rule R5 redirects it
    # to a shim with an assumed contract); if an edit changed its shape so that the redirection no longer matches, the
    # question cannot be posed (exit 2) -- letting it through would fail an unrelated clause on behaviour-preserving code.
    forbid = [r'\bformat!\s*\(']
    for sarg, slines in sec_by.get('forbid', []):
        for (pat, no) in slines:
            if pat.strip() and not pat.strip().startswith('//'):
                forbid.append(pat.strip())
    code_now = '\n'.join(l.text.split('//')[0] for l in lines if l.kind in ('code', 'rewritten'))
    for pat in forbid:
        mmf = re.search(pat, code_now)
        if mmf:
            raise ExtractError('%s: construct `%s` is not redirected by any rewrite of this block' % (where(), mmf.group(0)[:40]))

    # ---- compute insertion points on the transformed text
    inserts = []   # (line_idx, col or None, [Line])   col!=None: split line at col

    def ins_lines(slines):
        return [Line(t, (blk.tmpl, no), 'inserted') for (t, no) in slines]

    loops = None
    for key in ('loop', 'loop-start'):
        for sarg, slines in sec_by.get(key, []):
            if loops is None:
                loops = find_loops(lines)
            k = int(sarg.split()[0])
            if k < 1 or k > len(loops):
                raise ExtractError('%s: loop %d not found (body has %d loops)' % (where(), k, len(loops)))
            li, col, kw = loops[k - 1]
            if key == 'loop':
                inserts.append((li, col, ins_lines(slines), 'before-brace'))
            else:
                inserts.append((li, col, ins_lines(slines), 'after-brace'))

    def find_anchor(sarg):
        o, rest = parse_opts(sarg.split(' '))
        # re-join rest preserving single spaces
        anchor = sarg
        mm = re.match(r'^(k=(\d+)\s+)?(.*)$', sarg)
        kth = int(mm.group(2)) if mm.group(2) else 1
        anchor = mm.group(3).strip()
        contains = False
        optional = False
        if anchor.startswith('?'):
            # `before ?<anchor>`: an obligation ABOUT that statement; if the statement no longer exists there is
            # nothing to attach it to (the function's other clauses judge the new body)
            optional = True
            anchor = anchor[1:].strip()
        if anchor.startswith('~'):
            contains = True
            anchor = anchor[1:].strip()
        seen = 0
        for i, l in enumerate(lines):
            if l.kind == 'inserted':
                continue
            s = l.text.strip()
            if (contains and anchor in s) or (not contains and s.startswith(anchor)):
                seen += 1
                if seen == kth:
                    return i
        if optional:
            rules.append({'rule': 'anchor-absent', 'from': anchor})
            return None
        raise ExtractError('%s: lost anchor `%s` (k=%d)' % (where(), anchor, kth))

    for sarg, slines in sec_by.get('before', []):
        i = find_anchor(sarg)
        if i is None:
            continue
        inserts.append((i, None, ins_lines(slines), 'before-line'))
    for sarg, slines in sec_by.get('after', []):
        i = find_anchor(sarg)
        if i is None:
            continue
        e = stmt_end_line(lines, i)
        inserts.append((e, None, ins_lines(slines), 'after-line'))
    for sarg, slines in sec_by.get('body-start', []):
        inserts.append((0, 0, ins_lines(slines), 'after-brace'))
    for sarg, slines in sec_by.get('body-end', []):
        inserts.append((len(lines) - 1, None, ins_lines(slines), 'before-line'))

    # apply bottom-up; for same line keep template order
    order = sorted(range(len(inserts)), key=lambda q: (inserts[q][0], inserts[q][1] if inserts[q][1] is not None else -1, q), reverse=True)
    for q in order:
        li, col, new, mode = inserts[q]
        if mode == 'before-line':
            lines[li:li] = new
        elif mode == 'after-line':
            lines[li + 1:li + 1] = new
        elif mode == 'before-brace':
            l = lines[li]
            a, b = l.text[:col], l.text[col:]
            lines[li:li + 1] = [Line(a, l.src, l.kind)] + new + [Line(b, l.src, l.kind)]
        elif mode == 'after-brace':
            l = lines[li]
            a, b = l.text[:col + 1], l.text[col + 1:]
            repl = [Line(a, l.src, l.kind)] + new
            if b.strip():
                repl.append(Line(b, l.src, l.kind))
            lines[li:li + 1] = repl

    # ---- header + signature check
    hdr = sec_by.get('header')
    if not hdr:
        raise ExtractError('%s: no header' % where())
    hlines = [Line(t, (blk.tmpl, no), 'header') for (t, no) in hdr[0][1]]
    if opts.get('sigcheck', 'on') != 'off':
        check_signature(item['sig'], text_of(hlines), rules, where())
    else:
        rules.append({'rule': 'sigcheck-off'})

    src_hash = hashlib.sha256((item['sig'] + item['body']).encode()).hexdigest()[:16]
    props = [p for p in opts.get('props', '').split(',') if p]
    meta = {
        'kind': 'fn', 'file': relfile, 'scope': scope, 'name': name, 'props': props,
        'src_lines': [item['sig_line'], item['end_line']], 'src_hash': src_hash, 'rules': rules,
        'template': '%s:%d' % (os.path.relpath(blk.tmpl, VERIF), blk.line),
    }
    return hlines + lines, meta


def strip_types(s):
    return re.sub(r'\s+', '', s)


def check_signature(real_sig, header_text, rules, where):
    """The hand-written header must carry the same parameter list and return type as the real
    signature (modulo `pub`, named return `(r: T)`, and rewrites that were applied as rules)."""
    real = norm_ws(re.sub(r'//[^\n]*', '', real_sig))
    real = re.sub(r'^(pub(\([^)]*\))?\s+)?', '', real)
    # header: from first `fn` (with qualifiers) to requires/ensures/decreases/end
    h = re.sub(r'//[^\n]*', '', header_text)
    mm = re.search(r'((?:pub\s+)?(?:async\s+)?fn\b.*)', h, re.S)
    if not mm:
        raise ExtractError('%s: header has no fn' % where)
    hs = mm.group(1)
    cut = re.search(r'^\s*(requires|ensures|decreases|no_unwind|opens_invariants)\b', hs, re.M)
    if cut:
        hs = hs[:cut.start()]
    hs = norm_ws(hs)
    hs = re.sub(r'^(pub\s+)?', '', hs)
    # named return
    mw = re.search(r'\)\s+where\b', hs)
    where_part = ''
    if mw and '->' in hs[:mw.start() + 1]:
        where_part = ' ' + hs[mw.start() + 1:].strip()
        hs = hs[:mw.start() + 1]
    hs = re.sub(r'->\s*\(\s*\w+\s*:\s*(.*)\)\s*$', r'-> \1', hs) + where_part
    for r in rules:
        if r.get('rule') == 'rewrite':
            real = real.replace(r['from'], r['to'])
        elif r.get('rule') == 'rewrite-re':
            real = re.sub(r['from'], r['to'], real)
    a, b = strip_types(real), strip_types(hs)
    # ghost parameters (R8) are allowed as trailing `Tracked(..): Tracked<..>` params
    b2 = re.sub(r',?Tracked\(\w+\):Tracked<[^>]*>', '', b)
    a = a.rstrip(',').replace(',)', ')')
    b2 = b2.replace(',)', ')')
    if a != b2:
        raise ExtractError('%s: signature changed:\n  real:   %s\n  header: %s' % (where, real, hs))


def apply_type_block(blk):
    parts = [p.strip() for p in blk.head.split('|')]
    if len(parts) != 2:
        raise ExtractError('bad type head: %s' % blk.head)
    relfile = parts[0]
    toks = parts[1].split()
    opts, rest = parse_opts(toks)
    kind, name = rest[0], rest[1]
    sf = SourceFile.get(relfile)
    item = sf.find_type(kind, name)
    out = []
    rules = []
    derive = opts.get('derive', '')
    if derive:
        out.append(Line('#[derive(%s)]' % derive, (blk.tmpl, blk.line), 'header'))
    for i, t in enumerate(item['text'].split('\n')):
        st = t.strip()
        if st.startswith('///') or st.startswith('//'):
            continue
        if st.startswith('#['):
            rules.append({'rule': 'R11-attr-dropped', 'text': st[:120]})
            continue
        # R11: visibility qualifiers are dropped (single-module unit; no semantic content)
        t2 = re.sub(r'\bpub(\([^)]*\))?\s+', '', t)
        out.append(Line(t2, (relfile, item['line'] + i), 'code'))
    rules.append({'rule': 'R11-visibility-dropped'})
    for sname, sarg, slines in blk.sections:
        if sname in ('rewrite', 'rewrite-re'):
            for (ln, no) in slines:
                if not ln.strip():
                    continue
                frm, to = [x.strip() for x in ln.split('==>', 1)]
                want = '1'
                mline = re.match(r'^\[n=(\d+|\*|\+)\]\s*(.*)$', frm)
                if mline:
                    want, frm = mline.group(1), mline.group(2)
                cnt = 0
                for l in out:
                    if l.kind == 'header':
                        continue
                    if sname == 'rewrite':
                        k = l.text.count(frm)
                        if k:
                            l.text = l.text.replace(frm, to)
                    else:
                        l.text, k = re.subn(frm, to, l.text)
                    cnt += k
                if want not in ('*',) and not (want == '+' and cnt > 0) and (want in ('+',) or cnt != int(want)):
                    raise ExtractError('%s:%d: type rewrite `%s` matched %d, expected %s' % (blk.tmpl, no, frm, cnt, want))
                rules.append({'rule': sname, 'from': frm, 'to': to, 'count': cnt})
    meta = {'kind': 'type', 'file': relfile, 'name': name, 'rules': rules,
            'src_hash': hashlib.sha256(item['text'].encode()).hexdigest()[:16]}
    return out, meta


def find_block(unit, head_key):
    path = os.path.join(VERIF, 'units', unit + '.vu')
    want = norm_ws(head_key)
    for it in expand_includes(read_template(path)):
        if isinstance(it, Block) and it.kind == 'fn':
            f, s, n, o = split_head(it.head)
            if norm_ws('%s | %s | %s' % (f, s, n)) == want:
                return it
    raise ExtractError('stub: no fn block `%s` in unit %s' % (head_key, unit))


def expand_includes(items, seen=None):
    seen = seen or set()
    out = []
    for it in items:
        if isinstance(it, Block) and it.kind == 'include':
            p = os.path.join(VERIF, 'prelude', it.head.strip())
            if p in seen:
                continue
            seen.add(p)
            out.extend(expand_includes(read_template(p), seen))
        else:
            out.append(it)
    return out


def header_of(blk):
    for sname, sarg, slines in blk.sections:
        if sname == 'header':
            return slines
    raise ExtractError('block without header: %s' % blk.head)


def degraded_block(blk, reason):
    """An fn block that cannot be posed on this tree (lost anchor, unsupported construct): emitted as its own
    header with an `external_body` -- its contract is ASSUMED for the callers inside the unit, the function itself
    is reported as NOT decided (never as proved) and the properties that own it are undecided."""
    relfile, scope, name, opts = split_head(blk.head)
    hl = header_of(blk)
    ls = [Line('// [DEGRADED: %s]' % reason.replace('\n', ' ')[:300], (blk.tmpl, blk.line), 'header'),
          Line('#[verifier::external_body]', (blk.tmpl, blk.line), 'header')]
    ls += [Line(t, (blk.tmpl, no), 'header') for (t, no) in hl]
    ls.append(Line('{ unimplemented!() }', (blk.tmpl, blk.line), 'header'))
    props = [p for p in opts.get('props', '').split(',') if p]
    meta = {'kind': 'fn', 'file': relfile, 'scope': scope, 'name': name, 'props': props, 'src_lines': [0, 0],
            'src_hash': None, 'rules': [], 'template': '%s:%d' % (os.path.relpath(blk.tmpl, VERIF), blk.line),
            'degraded': reason[:400]}
    return ls, meta


def generate(unit, vacuity=False, degrade=None):
    """Return (text, meta).  meta: fns, types, stubs, line map.
    degrade: None = strict (an fn block that cannot be extracted raises); a set of fn-block indices = those blocks are
    emitted as assumed stubs (degraded_block), and so is every block whose extraction fails.
    vacuity: False | True (all fn blocks get `ensures false`) | int k = only the k-th fn block (0-based)
    encoded as k (compared with the number of blocks emitted so far); use generate_vacuity(unit, k)."""
    path = os.path.join(VERIF, 'units', unit + '.vu')
    if not os.path.exists(path):
        raise ExtractError('no such unit: %s' % unit)
    items = expand_includes(read_template(path), set())
    out = []
    fns, types, stubs = [], [], []
    for it in items:
        if isinstance(it, tuple):
            out.append(Line(it[1], None, 'tmpl'))
            continue
        if it.kind == 'fn':
            if degrade is not None and len(fns) in degrade:
                ls, meta = degraded_block(it, degrade[len(fns)] if isinstance(degrade, dict) else 'not posable on this tree')
            else:
                try:
                    ls, meta = apply_fn_block(it, None)
                except ExtractError as e:
                    if degrade is None:
                        raise
                    ls, meta = degraded_block(it, 'extraction: %s' % e)
            if meta.get('degraded'):
                pass
            elif vacuity is True or (isinstance(vacuity, tuple) and vacuity[1] == len(fns)):
                ls = add_vacuity(ls)
            meta['gen_start'] = len(out) + 1
            out.extend(ls)
            meta['gen_end'] = len(out)
            fns.append(meta)
        elif it.kind == 'type':
            ls, meta = apply_type_block(it)
            out.extend(ls)
            types.append(meta)
        elif it.kind == 'stub':
            toks = it.head.split(' ', 1)
            ounit, key = toks[0], toks[1]
            ob = find_block(ounit, key)
            hl = header_of(ob)
            out.append(Line('#[verifier::external_body]', (it.tmpl, it.line), 'header'))
            for (t, no) in hl:
                out.append(Line(t, (ob.tmpl, no), 'stubheader'))
            out.append(Line('{ unimplemented!() }', (it.tmpl, it.line), 'header'))
            stubs.append({'unit': ounit, 'fn': norm_ws(key)})
    text = '\n'.join(l.text for l in out) + '\n'
    linemap = []
    for l in out:
        if l.src is None:
            linemap.append(None)
        else:
            f, n = l.src
            if f.startswith(VERIF):
                f = os.path.relpath(f, VERIF)
            linemap.append([f, n, l.kind])
    return text, {'unit': unit, 'fns': fns, 'types': types, 'stubs': stubs, 'linemap': linemap}


def generate_vacuity(unit, k, degrade=None):
    """Variant in which ONLY the k-th (0-based) fn block has `ensures false` (callers must not see it)."""
    return generate(unit, vacuity=('only', k), degrade=degrade)


def add_vacuity(ls):
    """Add `ensures false` to the header of an fn block (vacuity pass)."""
    idx = None
    for i, l in enumerate(ls):
        if l.kind == 'header' and re.match(r'^\s*ensures\b', l.text):
            idx = i
            break
    out = list(ls)
    if idx is not None:
        l = out[idx]
        mm = re.match(r'^(\s*ensures)\b(.*)$', l.text)
        out[idx:idx + 1] = [Line(mm.group(1), l.src, 'header'), Line('        false, //# VACUITY', l.src, 'header')] + \
            ([Line('       ' + mm.group(2), l.src, 'header')] if mm.group(2).strip() else [])
    else:
        # no ensures: add before the first code line (body '{'), after any requires block
        j = 0
        while j < len(out) and out[j].kind == 'header':
            j += 1
        out[j:j] = [Line('    ensures false, //# VACUITY', None, 'header')]
    return out


def labels_in(text):
    """All `//# label[,label]` occurrences: list of (lineno, [labels])."""
    res = []
    for no, ln in enumerate(text.split('\n'), 1):
        mm = re.search(r'//#\s*([\w.,+\- ]+)\s*$', ln)
        if mm:
            labs = [x.strip() for x in re.split(r'[,\s]+', mm.group(1)) if x.strip()]
            res.append((no, labs))
    return res


if __name__ == '__main__':
    u = sys.argv[1]
    t, m = generate(u)
    sys.stdout.write(t)
