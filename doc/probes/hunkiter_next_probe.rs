use vstd::prelude::*;
verus! {

// Abstract: apaths as ints for the probe (the real unit uses Apath + apath_cmp lemmas).
pub struct IndexEntry { pub apath: u64, pub payload: u64 }

pub open spec fn sorted(s: Seq<IndexEntry>) -> bool {
    forall|i: int, j: int| 0 <= i < j < s.len() ==> s[i].apath < s[j].apath
}
pub open spec fn after_filter(s: Seq<IndexEntry>, after: Option<u64>) -> Seq<IndexEntry> {
    match after { None => s, Some(a) => s.filter(|e: IndexEntry| e.apath > a) }
}

pub struct Error { pub c: u8 }

#[verifier::external_body]
pub struct IndexRead { _p: () }
impl IndexRead {
    // ghost archive view: hunk number -> readable entries (None = missing, Err = unreadable)
    pub uninterp spec fn view(&self) -> Map<u32, Result<Seq<IndexEntry>, ()>>;
    pub open spec fn hunk(&self, n: u32) -> Option<Result<Seq<IndexEntry>, ()>> { if self.view().contains_key(n) { Some(self.view()[n]) } else { None } }
    #[verifier::external_body]
    pub async fn read_hunk(&mut self, hunk_number: u32) -> (r: Result<Option<Vec<IndexEntry>>, Error>)
        ensures
            final(self).view() == old(self).view(),
            match r {
                Ok(None) => old(self).hunk(hunk_number) is None,
                Ok(Some(v)) => old(self).hunk(hunk_number) == Some(Ok::<_, ()>(v@)),
                Err(_) => old(self).hunk(hunk_number) == Some(Err::<Seq<IndexEntry>, ()>(())),
            }
    { unimplemented!() }
}

// shim for slice::binary_search_by_key on the apath key
#[verifier::external_body]
pub fn shim_binary_search_by_apath(v: &Vec<IndexEntry>, key: &u64) -> (r: Result<usize, usize>)
    requires sorted(v@),
    ensures match r {
        Ok(i) => i < v.len() && v[i as int].apath == *key,
        Err(i) => i <= v.len() && (forall|k: int| 0 <= k < i ==> v[k].apath < *key) && (forall|k: int| i <= k < v.len() ==> v[k].apath > *key),
    }
{ v.binary_search_by_key(&key, |entry| &entry.apath) }

#[verifier::external_body]
pub fn shim_vec_from_suffix(v: &Vec<IndexEntry>, idx: usize) -> (r: Vec<IndexEntry>)
    requires idx <= v.len(),
    ensures r@ == v@.skip(idx as int)
{ unimplemented!() }

pub struct IndexHunkIter {
    pub hunks: Vec<u32>,     // stands for vec::IntoIter<u32>: remaining hunk numbers
    pub pos: usize,
    pub index: IndexRead,
    pub after: Option<u64>,
}


#[verifier::external_body]
pub struct HunkNumbers { _p: () }
impl HunkNumbers {
    pub uninterp spec fn rem(&self) -> Seq<u32>;
    #[verifier::external_body]
    pub fn next(&mut self) -> (r: Option<u32>)
        ensures
            old(self).rem().len() == 0 ==> r is None && final(self).rem() == old(self).rem(),
            old(self).rem().len() > 0 ==> r == Some(old(self).rem()[0]) && final(self).rem() == old(self).rem().skip(1),
    { unimplemented!() }
}


pub proof fn lemma_filter_suffix(es: Seq<IndexEntry>, a: u64, idx: int)
    requires sorted(es), 0 <= idx <= es.len(),
        forall|k: int| 0 <= k < idx ==> #[trigger] es[k].apath <= a,
        forall|k: int| idx <= k < es.len() ==> #[trigger] es[k].apath > a,
    ensures es.filter(|e: IndexEntry| e.apath > a) == es.skip(idx)
    decreases es.len()
{
    let f = |e: IndexEntry| e.apath > a;
    if es.len() == 0 {
        assert(es.skip(idx) =~= es);
        assert(es.filter(f) =~= es) by { reveal(Seq::filter); }
    } else {
        reveal(Seq::filter);
        let init = es.drop_last();
        if idx == es.len() {
            lemma_filter_suffix(init, a, idx - 1);
            assert(init.skip(idx - 1) =~= Seq::<IndexEntry>::empty());
            assert(es.skip(idx) =~= Seq::<IndexEntry>::empty());
        } else {
            lemma_filter_suffix(init, a, idx);
            assert(es.skip(idx) =~= init.skip(idx).push(es.last()));
        }
    }
}

pub struct Iter2 {
    pub hunks: HunkNumbers,
    pub index: IndexRead,
    pub after: Option<u64>,
}

// what a single hunk contributes under `after`
pub open spec fn contrib(es: Seq<IndexEntry>, after: Option<u64>) -> Seq<IndexEntry> { after_filter(es, after) }

// hunk n is skipped (yields nothing) under `after`
pub open spec fn skipped(ix: &IndexRead, n: u32, after: Option<u64>) -> bool {
    match ix.hunk(n) {
        None => false,
        Some(Err(_)) => true,
        Some(Ok(es)) => contrib(es, after).len() == 0,
    }
}

pub open spec fn all_sorted(m: Map<u32, Result<Seq<IndexEntry>, ()>>) -> bool {
    forall|n: u32| #[trigger] m.contains_key(n) ==> (m[n] matches Ok(es) ==> sorted(es))
}


pub open spec fn next_spec(ix: Map<u32, Result<Seq<IndexEntry>, ()>>, rem: Seq<u32>, after: Option<u64>) -> (Option<Seq<IndexEntry>>, Seq<u32>, Option<u64>)
    decreases rem.len()
{
    if rem.len() == 0 { (None, rem, after) }
    else {
        let rest = rem.skip(1);
        if !ix.contains_key(rem[0]) { (None, rest, after) } else { match ix[rem[0]] {
            Err(_) => next_spec(ix, rest, after),
            Ok(es) => match after {
                Some(a) =>
                    if es.len() > 0 && es.last().apath <= a { next_spec(ix, rest, after) }
                    else if es.len() > 0 && es[0].apath > a { (Some(es), rest, None) }
                    else { (Some(es.filter(|e: IndexEntry| e.apath > a)), rest, after) },
                None => if es.len() > 0 { (Some(es), rest, None) } else { next_spec(ix, rest, after) },
            },
        } }
    }
}

impl Iter2 {
    pub async fn next(&mut self) -> (r: Option<Vec<IndexEntry>>)
        requires all_sorted(old(self).index.view()),
        ensures
            all_sorted(final(self).index.view()),
            final(self).index.view() == old(self).index.view(),
            ({ let sp = next_spec(old(self).index.view(), old(self).hunks.rem(), old(self).after);
               &&& (match r { Some(v) => sp.0 == Some(v@), None => sp.0 is None })
               &&& final(self).hunks.rem() == sp.1
               &&& final(self).after == sp.2 }),
    {
        loop
            invariant
                all_sorted(self.index.view()),
                self.index.view() == old(self).index.view(),
                next_spec(self.index.view(), self.hunks.rem(), self.after) == next_spec(old(self).index.view(), old(self).hunks.rem(), old(self).after),
            decreases self.hunks.rem().len(),
        {
            let ghost pre = self.hunks.rem();
            let ghost after0 = self.after;
            let hunk_number = self.hunks.next()?;
            proof {
                assert(pre.len() > 0 && hunk_number == pre[0] && self.hunks.rem() == pre.skip(1));
            }
            let entries = match self.index.read_hunk(hunk_number).await {
                Ok(None) => return None,
                Ok(Some(entries)) => entries,
                Err(_err) => {
                    continue;
                }
            };
            if let Some(ref after) = self.after {
                if let Some(last) = entries.last() {
                    if last.apath <= *after {
                        continue;
                    }
                }
                if let Some(first) = entries.first() {
                    if first.apath > *after {
                        self.after = None; // don't need to look again
                        return Some(entries);
                    }
                }
                let idx = match shim_binary_search_by_apath(&entries, &after) {
                    Ok(idx) => idx + 1, // after the point it was found
                    Err(idx) => idx,    // from the point it would have been
                };
                proof {
                    lemma_filter_suffix(entries@, *after, idx as int);
                }
                return Some(shim_vec_from_suffix(&entries, idx));
            }
            if !entries.is_empty() {
                return Some(entries);
            }
        }
    }
}

} // verus!
fn main() {}
