use vstd::prelude::*;
verus! {

pub enum State {
    Done,
    Before(u32),
    In { id: u32, buf: Vec<u64>, pos: usize },
    After(u32),
}

pub struct S { pub state: State, pub last: Option<u64> }

impl S {
    #[verifier::exec_allows_no_decreases_clause]
    pub fn next(&mut self) -> (r: Option<u64>)
    {
        loop {
            self.state = match &mut self.state {
                State::Done => return None,
                State::In { id, buf, pos } => {
                    if *pos < buf.len() {
                        let v = buf[*pos];
                        *pos = *pos + 1;
                        if v % 2 == 0 { continue; } else { return Some(v); }
                    } else {
                        State::After(*id)
                    }
                }
                State::Before(id) => {
                    State::In { id: *id, buf: Vec::new(), pos: 0 }
                }
                State::After(id) => {
                    if *id == 0 { State::Done } else { State::Before(*id - 1) }
                }
            }
        }
    }
}

} // verus!
fn main() {}
