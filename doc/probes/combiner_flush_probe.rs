use vstd::prelude::*;
use std::mem::take;
verus! {

pub struct BlockHash { pub bin: Vec<u8> }
pub struct Address { pub hash: BlockHash, pub start: u64, pub len: u64 }
pub struct IndexEntry { pub apath: String, pub addrs: Vec<Address> }
pub struct QueuedFile { pub start: usize, pub len: usize, pub entry: IndexEntry }

// --- shims (assumed contracts) ---
pub assume_specification<T: Default>[std::mem::take](x: &mut T) -> (r: T)
    ensures r == *old(x), call_ensures(<T as Default>::default, (), *final(x));

pub uninterp spec fn hash_of(data: Seq<u8>) -> Seq<u8>;
pub uninterp spec fn has_block(h: Seq<u8>) -> bool;   // monotone knowledge: block known stored
pub uninterp spec fn src_bytes(apath: Seq<char>) -> Seq<u8>;

#[verifier::external_body]
pub struct BlockDir { _p: () }
pub struct Error { pub code: u32 }

impl BlockDir {
    #[verifier::external_body]
    pub async fn store_or_deduplicate(&self, block_data: Vec<u8>) -> (r: Result<BlockHash, Error>)
        ensures r is Ok ==> r->Ok_0.bin@ == hash_of(block_data@) && has_block(hash_of(block_data@)),
    { unimplemented!() }
}
impl Clone for BlockHash {
    #[verifier::external_body]
    fn clone(&self) -> (r: Self) ensures r.bin@ == self.bin@ { BlockHash { bin: self.bin.clone() } }
}

pub struct FileCombiner {
    pub buf: Vec<u8>,
    pub queue: Vec<QueuedFile>,
    pub finished: Vec<IndexEntry>,
    pub max_block_size: usize,
}

pub open spec fn entry_ok(e: IndexEntry) -> bool {
    forall|i: int| 0 <= i < e.addrs.len() ==> has_block(#[trigger] e.addrs[i].hash.bin@)
}

impl FileCombiner {
    pub open spec fn wf(&self) -> bool {
        &&& forall|i: int| 0 <= i < self.queue.len() ==> {
              let q = #[trigger] self.queue[i];
              q.start + q.len <= self.buf.len()
              && self.buf@.subrange(q.start as int, q.start + q.len) == src_bytes(q.entry.apath@)
           }
        &&& forall|i: int| 0 <= i < self.finished.len() ==> entry_ok(#[trigger] self.finished[i])
    }

    async fn flush(&mut self, bd: &BlockDir) -> (r: Result<(), Error>)
        requires old(self).wf(),
        ensures final(self).wf(),
    {
        if self.queue.is_empty() {
            return Ok(());
        }
        let hash = bd.store_or_deduplicate(take(&mut self.buf)).await?;
        Ok(())
    }
}

} // verus!
fn main() {}
