use vstd::prelude::*;
use vstd::string::*;
use std::cmp::Ordering;
verus! {

pub open spec fn split_spec(s: Seq<u8>, sep: u8) -> Seq<Seq<u8>>
    decreases s.len()
{
    if s.len() == 0 { seq![Seq::<u8>::empty()] }
    else if s.last() == sep { split_spec(s.drop_last(), sep).push(Seq::<u8>::empty()) }
    else {
        let p = split_spec(s.drop_last(), sep);
        p.drop_last().push(p.last().push(s.last()))
    }
}

pub open spec fn lex_cmp(a: Seq<u8>, b: Seq<u8>) -> Ordering
    decreases a.len()
{
    if a.len() == 0 && b.len() == 0 { Ordering::Equal }
    else if a.len() == 0 { Ordering::Less }
    else if b.len() == 0 { Ordering::Greater }
    else if a[0] < b[0] { Ordering::Less }
    else if a[0] > b[0] { Ordering::Greater }
    else { lex_cmp(a.skip(1), b.skip(1)) }
}

// spec of the apath order over component sequences (non-empty)
pub open spec fn comp_cmp(a: Seq<Seq<u8>>, b: Seq<Seq<u8>>) -> Ordering
    recommends a.len() >= 1, b.len() >= 1
    decreases a.len()
{
    if a.len() <= 1 && b.len() <= 1 { lex_cmp(a[0], b[0]) }
    else if a.len() <= 1 { Ordering::Less }
    else if b.len() <= 1 { Ordering::Greater }
    else if lex_cmp(a[0], b[0]) == Ordering::Equal { comp_cmp(a.skip(1), b.skip(1)) }
    else { lex_cmp(a[0], b[0]) }
}

#[verifier::external_body]
pub struct SplitIter<'a> { inner: std::str::Split<'a, char> }

impl<'a> SplitIter<'a> {
    pub uninterp spec fn rem(&self) -> Seq<Seq<u8>>;

    #[verifier::external_body]
    pub fn next(&mut self) -> (r: Option<&'a str>)
        ensures
            old(self).rem().len() == 0 ==> r.is_none() && final(self).rem() == old(self).rem(),
            old(self).rem().len() > 0 ==> r.is_some() && r.unwrap().spec_bytes() == old(self).rem()[0]
                && final(self).rem() == old(self).rem().skip(1),
    { self.inner.next() }
}

#[verifier::external_body]
pub fn shim_split<'a>(s: &'a str, c: char) -> (r: SplitIter<'a>)
    requires c == '/',
    ensures r.rem() == split_spec(s.spec_bytes(), 0x2f),
{ SplitIter { inner: s.split(c) } }

#[verifier::external_body]
pub fn shim_str_cmp(a: &str, b: &str) -> (r: Ordering)
    ensures r == lex_cmp(a.spec_bytes(), b.spec_bytes()),
{ a.cmp(b) }

pub struct Apath(pub String);
pub open spec fn str_comps(s: Seq<char>) -> Seq<Seq<u8>> { split_spec(vstd::utf8::encode_utf8(s), 0x2f) }

pub proof fn lemma_split_nonempty(s: Seq<u8>, sep: u8)
    ensures split_spec(s, sep).len() >= 1
    decreases s.len()
{
    if s.len() > 0 { lemma_split_nonempty(s.drop_last(), sep); }
}

impl Apath {
    pub open spec fn comps(&self) -> Seq<Seq<u8>> { str_comps(self.0@) }
}


impl Apath {
    #[verifier::loop_isolation(false)]
    fn cmp(&self, b: &Apath) -> (r: Ordering)
        ensures r == comp_cmp(self.comps(), b.comps())
    {
        let Apath(a) = self;
        let Apath(b) = b;
        let mut ait = shim_split(a, '/');
        let mut bit = shim_split(b, '/');
        proof { lemma_split_nonempty(vstd::utf8::encode_utf8(a@), 0x2f); lemma_split_nonempty(vstd::utf8::encode_utf8(b@), 0x2f); }
        proof {
            assert(ait.rem() =~= seq![ait.rem()[0]] + ait.rem().skip(1));
            assert(bit.rem() =~= seq![bit.rem()[0]] + bit.rem().skip(1));
        }
        let mut oa = ait.next().expect("paths must not be empty");
        let mut ob = bit.next().expect("paths must not be empty");
        loop
            invariant
                comp_cmp(str_comps(a@), str_comps(b@)) == comp_cmp(seq![oa.spec_bytes()] + ait.rem(), seq![ob.spec_bytes()] + bit.rem()),
            decreases ait.rem().len(),
        {
            proof {
                let x = seq![oa.spec_bytes()] + ait.rem();
                let y = seq![ob.spec_bytes()] + bit.rem();
                assert(x.skip(1) =~= ait.rem());
                assert(y.skip(1) =~= bit.rem());
                if ait.rem().len() > 0 { assert(ait.rem() =~= seq![ait.rem()[0]] + ait.rem().skip(1)); }
                if bit.rem().len() > 0 { assert(bit.rem() =~= seq![bit.rem()[0]] + bit.rem().skip(1)); }
            }
            match (ait.next(), bit.next()) {
                // Both paths end here: eg ".../aa" < ".../zz"
                (None, None) => return shim_str_cmp(oa, ob),

                (None, Some(_bc)) => return Ordering::Less,
                (Some(_ac), None) => return Ordering::Greater,

                // Both paths have children after this point
                (Some(ac), Some(bc)) => match shim_str_cmp(oa, ob) {
                    Ordering::Equal => {
                        oa = ac;
                        ob = bc;
                        continue;
                    }
                    other => return other,
                },
            }
        }
    }
}

} // verus!
fn main() {}
