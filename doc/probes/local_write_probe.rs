use vstd::prelude::*;
verus! {
pub struct World { pub files: Map<Seq<char>, Seq<u8>> }
pub enum WriteMode { Overwrite, CreateNew }
pub struct IoErr { pub kind: u8 }

#[verifier::external_body]
pub async fn tokio_fs_write(path: &str, content: &[u8], Tracked(w): Tracked<&mut World>) -> (r: Result<(), IoErr>)
    ensures
        r is Ok ==> final(w).files == old(w).files.insert(path@, content@),
        r is Err ==> final(w).files == old(w).files || final(w).files == old(w).files.insert(path@, Seq::empty()),
{ unimplemented!() }

pub async fn write(path: &str, content: &[u8], write_mode: WriteMode, Tracked(w): Tracked<&mut World>) -> (r: Result<(), IoErr>)
    ensures
        write_mode is CreateNew && old(w).files.contains_key(path@) ==> r is Err && final(w).files == old(w).files,
{
    if let Err(err) = tokio_fs_write(path, content, Tracked(w)).await {
        Err(err)
    } else {
        Ok(())
    }
}
} // verus!
fn main() {}
