#!/bin/sh
# Offline setup: nothing to download.  Pre-builds the witness crate (used only after a violation, to find
# a concrete input) so that the first violation report is fast; failure to pre-build is not fatal.
set -u
cd "$(dirname "$0")"
mkdir -p gen evidence replays
command -v verus >/dev/null || { echo "verus not on PATH"; exit 1; }
[ -f witness/Cargo.lock ] || cp /repo/Cargo.lock witness/Cargo.lock
(cd witness && CARGO_NET_OFFLINE=true cargo build --offline --quiet 2>&1 | tail -3) || echo "witness pre-build failed (will retry on demand)"
exit 0
