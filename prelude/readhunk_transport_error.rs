// ---- readhunk_transport_error: transport::Error (src/transport/error.rs), expanded at the ROOT of unit `readhunk` ----
// The REAL declarations (R11), as in prelude/leaves_types.rs, so that the header of `Error::is_not_found` PROVED in unit
// leaves (C10+C09.only_kind_not_found_means_missing) can be taken over verbatim with `//@@ stub`.  The crate-side
// `Error` (src/errors.rs) is declared inside `mod krate` and shadows this one there, exactly as `crate::Error` and
// `crate::transport::Error` are two types in the sources; `TransportError` names this one from inside `mod krate`.

// R3: the two foreign field types are opaque (nobody looks inside them)
#[verifier::external_body]
struct ErrorSourceBox { _p: () }   // Box<dyn std::error::Error + Send + Sync>
#[verifier::external_body]
struct Url { _p: () }              // url::Url

//@@ type src/transport/error.rs | enum ErrorKind derive=Clone,Copy,PartialEq,Eq,Structural
//@@ end

//@@ type src/transport/error.rs | struct Error
//@ rewrite
Box<dyn StdError + Send + Sync> ==> ErrorSourceBox
//@@ end

type TransportError = Error;
