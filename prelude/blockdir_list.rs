// ---- blockdir_list: vocabulary and ASSUMED contracts for `list_blocks` (src/blockdir.rs) ----
// requires store_spec.rs, blockdir_spec.rs, blockdir_shims.rs
//
// What is PROVED in the unit: the per-entry filter and the accumulation -- which directory entries put a hash into the
// present-set (`exists`), that a failed sub-directory listing is an error and never "no blocks there".
// What is ASSUMED here: the fan-out plumbing (tokio JoinSet + Semaphore + `async move`, which this Verus rejects),
// `subdirs()` (an iterator chain over list_dir("")), BlockHash::from_str (hex), HashSet.

//@@ type src/kind.rs | enum Kind derive=Clone,Copy,PartialEq,Eq,Structural
//@@ end

//@@ type src/transport.rs | struct DirEntry
//@@ end

// what `list_dir(name)` on the block directory's transport yields during this operation (one task, nobody else writes:
// C06 is out of reach): Ok(entries) or Err = the listing failed
uninterp spec fn dir_listing(name: Seq<char>) -> std::result::Result<Seq<DirEntry>, ()>;

// the three-character sub-directories of d/ that `subdirs()` returns
uninterp spec fn block_subdirs() -> Seq<Seq<char>>;

// BlockHash::from_str (src/blockhash.rs): 128 hex digits -> the 64 bytes; None = not a block name
uninterp spec fn parse_block_name(name: Seq<char>) -> Option<Seq<u8>>;

// ---------- the contract vocabulary (from C03 "a zero-length block file is treated as absent so it can be healed",
// C14 "list_blocks puts every non-empty, well-named file in the present-set") ----------

// does this directory entry count as a present block, and under which hash?
//   a regular file  +  a LISTED length that is not zero (unknown length counts as empty)  +  a name that parses
spec fn entry_block(e: DirEntry) -> Option<Seq<u8>> {
    if e.kind == Kind::File && (e.len matches Some(l) && l != 0) { parse_block_name(e.name@) } else { None }
}

spec fn present_of(es: Seq<DirEntry>) -> Set<Seq<u8>>
    decreases es.len()
{
    if es.len() == 0 { Set::<Seq<u8>>::empty() }
    else {
        match entry_block(es.last()) {
            Some(h) => present_of(es.drop_last()).insert(h),
            None => present_of(es.drop_last()),
        }
    }
}

spec fn dirs_present(names: Seq<Seq<char>>) -> Set<Seq<u8>>
    decreases names.len()
{
    if names.len() == 0 { Set::<Seq<u8>>::empty() }
    else {
        match dir_listing(names.last()) {
            Ok(es) => dirs_present(names.drop_last()).union(present_of(es)),
            Err(_) => dirs_present(names.drop_last()),
        }
    }
}

spec fn all_listed_ok(names: Seq<Seq<char>>) -> bool {
    forall|i: int| 0 <= i < names.len() ==> dir_listing(#[trigger] names[i]) is Ok
}

// ---------- what the recursive definitions mean, in the property's words (pure spec math) ----------

// h is in present_of(es)  <=>  SOME entry of es is a file with a non-zero listed length whose name parses to h
proof fn lemma_present_of_mem(es: Seq<DirEntry>, h: Seq<u8>)
    ensures
        present_of(es).contains(h) <==> exists|k: int| 0 <= k < es.len() && entry_block(#[trigger] es[k]) == Some(h), //# C03.zero_length_block_is_not_present,C14.present_set_is_the_nonempty_well_named_files
    decreases es.len()
{
    if es.len() > 0 {
        let init = es.drop_last();
        lemma_present_of_mem(init, h);
        if present_of(es).contains(h) {
            if entry_block(es.last()) == Some(h) {
                assert(entry_block(es[es.len() - 1]) == Some(h));
            } else {
                assert(present_of(init).contains(h));
                let k = choose|k: int| 0 <= k < init.len() && entry_block(#[trigger] init[k]) == Some(h);
                assert(entry_block(es[k]) == Some(h));
            }
        }
        if exists|k: int| 0 <= k < es.len() && entry_block(#[trigger] es[k]) == Some(h) {
            let k = choose|k: int| 0 <= k < es.len() && entry_block(#[trigger] es[k]) == Some(h);
            if k < es.len() - 1 { assert(entry_block(init[k]) == Some(h)); }
        }
    }
}

// in particular: an entry whose listed length is zero or unknown never puts its name into the set by itself
proof fn lemma_zero_length_entry_adds_nothing(es: Seq<DirEntry>, e: DirEntry)
    requires e.len is None || e.len == Some(0u64),
    ensures present_of(es.push(e)) == present_of(es), //# C03.zero_length_block_is_not_present
{
    assert(es.push(e).drop_last() =~= es);
}

proof fn lemma_dirs_present_mem(names: Seq<Seq<char>>, h: Seq<u8>)
    ensures
        dirs_present(names).contains(h) <==> exists|i: int| 0 <= i < names.len()
            && (dir_listing(#[trigger] names[i]) matches Ok(es) && present_of(es).contains(h)),
    decreases names.len()
{
    if names.len() > 0 {
        let init = names.drop_last();
        lemma_dirs_present_mem(init, h);
        if dirs_present(names).contains(h) {
            if dir_listing(names.last()) matches Ok(es) && present_of(es).contains(h) {
                assert(dir_listing(names[names.len() - 1]) matches Ok(es) && present_of(es).contains(h));
            } else {
                assert(dirs_present(init).contains(h));
                let i = choose|i: int| 0 <= i < init.len() && (dir_listing(#[trigger] init[i]) matches Ok(es) && present_of(es).contains(h));
                assert(dir_listing(names[i]) matches Ok(es) && present_of(es).contains(h));
            }
        }
        if exists|i: int| 0 <= i < names.len() && (dir_listing(#[trigger] names[i]) matches Ok(es) && present_of(es).contains(h)) {
            let i = choose|i: int| 0 <= i < names.len() && (dir_listing(#[trigger] names[i]) matches Ok(es) && present_of(es).contains(h));
            if i < names.len() - 1 { assert(dir_listing(init[i]) matches Ok(es) && present_of(es).contains(h)); }
        }
    }
}

// the union does not depend on the order (or multiplicity) in which the sub-directories were joined
proof fn lemma_dirs_present_same_names(a: Seq<Seq<char>>, b: Seq<Seq<char>>)
    requires forall|n: Seq<char>| a.contains(n) <==> b.contains(n),
    ensures dirs_present(a) == dirs_present(b),
{
    assert forall|h: Seq<u8>| dirs_present(a).contains(h) <==> dirs_present(b).contains(h) by {
        lemma_dirs_present_mem(a, h);
        lemma_dirs_present_mem(b, h);
        if dirs_present(a).contains(h) {
            let i = choose|i: int| 0 <= i < a.len() && (dir_listing(#[trigger] a[i]) matches Ok(es) && present_of(es).contains(h));
            assert(a.contains(a[i]));
            let j = choose|j: int| 0 <= j < b.len() && b[j] == a[i];
            assert(dir_listing(b[j]) matches Ok(es) && present_of(es).contains(h));
        }
        if dirs_present(b).contains(h) {
            let i = choose|i: int| 0 <= i < b.len() && (dir_listing(#[trigger] b[i]) matches Ok(es) && present_of(es).contains(h));
            assert(b.contains(b[i]));
            let j = choose|j: int| 0 <= j < a.len() && a[j] == b[i];
            assert(dir_listing(a[j]) matches Ok(es) && present_of(es).contains(h));
        }
    }
    assert(dirs_present(a) =~= dirs_present(b));
}

proof fn lemma_all_listed_same_names(a: Seq<Seq<char>>, b: Seq<Seq<char>>)
    requires forall|n: Seq<char>| a.contains(n) <==> b.contains(n), all_listed_ok(a),
    ensures all_listed_ok(b),
{
    assert forall|i: int| 0 <= i < b.len() implies dir_listing(#[trigger] b[i]) is Ok by {
        assert(b.contains(b[i]));
        let j = choose|j: int| 0 <= j < a.len() && a[j] == b[i];
        assert(dir_listing(a[j]) is Ok);
    }
}

// ---------- ASSUMED contracts ----------

// `subdirs(transport)` (src/blockdir.rs; a filter/map/filter/collect chain over list_dir(""), not extracted)
#[verifier::external_body]
async fn subdirs(transport: &Transport) -> (r: Result<Vec<String>>)
    ensures
        r matches Ok(v) ==> v@.len() == block_subdirs().len()
            && forall|i: int| 0 <= i < v@.len() ==> (#[trigger] v@[i])@ == block_subdirs()[i],
{ unimplemented!() }

// tokio::task::JoinError
#[verifier::external_body]
struct JoinError { _p: () }

// (`Result::expect` needs `E: Debug`)
#[verifier::external]
impl std::fmt::Debug for JoinError {
    fn fmt(&self, f: &mut std::fmt::Formatter<'_>) -> std::fmt::Result { f.write_str("join error") }
}

// R3 shim of `JoinSet<(String, transport::Result<Vec<DirEntry>>)>` as list_blocks uses it.
//   names(): the sub-directories for which a listing task was spawned;  done(): those whose result has been handed out.
#[verifier::external_body]
struct SubdirTasks { _p: () }

impl SubdirTasks {
    uninterp spec fn names(&self) -> Seq<Seq<char>>;
    uninterp spec fn done(&self) -> Seq<Seq<char>>;
    // number of results still to be handed out
    uninterp spec fn left(&self) -> nat;

    // tokio `JoinSet::join_next`: "Waits until one of the tasks in the set completes and returns its output.  Returns
    // None if the set is empty."  Each spawned task's output is handed out exactly once, in completion order.
    // ASSUMED: a task's output is `(subdir_name, transport.list_dir(&subdir_name).await)` (the lifted text below), and
    // no task panics or is cancelled (the only panic source in the task is `.unwrap()` on acquiring a semaphore that is
    // never closed), so the join result is Ok -- the no-panic condition of `.expect("await listdir result")`.
    #[verifier::external_body]
    async fn join_next(&mut self) -> (r: Option<std::result::Result<(String, std::result::Result<Vec<DirEntry>, TransportError>), JoinError>>)
        ensures
            final(self).names() == old(self).names(),
            match r {
                None => final(self).done() == old(self).done()
                    && forall|n: Seq<char>| old(self).names().contains(n) ==> old(self).done().contains(n),
                Some(Ok((name, res))) => old(self).names().contains(name@)
                    && final(self).done() == old(self).done().push(name@)
                    && final(self).left() < old(self).left()
                    && (res matches Ok(v) ==> dir_listing(name@) == Ok::<Seq<DirEntry>, ()>(v@))
                    && (res is Err ==> dir_listing(name@) is Err),
                Some(Err(_)) => false,
            },
    { unimplemented!() }
}

// R7 STATEMENT-GROUP LIFT (verbatim from list_blocks; the unit's rewrites match these lines one by one, so a change
// of any of them makes the unit ungeneratable rather than silently keeping this contract):
//     let mut subdir_tasks = JoinSet::new();
//     let job_limit = Arc::new(Semaphore::new(30));
//     for subdir_name in subdirs {
//         let transport = transport.clone();
//         let job_limit = job_limit.clone();
//         subdir_tasks.spawn(async move {
//             let _permit = job_limit.acquire().await.unwrap();
//             (subdir_name.clone(), transport.list_dir(&subdir_name).await)
//         });
//     }
// ASSUMED contract: one listing task per element of `subdirs`, none handed out yet.
#[verifier::external_body]
fn r7_spawn_subdir_listings(transport: &Transport, subdirs: Vec<String>) -> (r: SubdirTasks)
    ensures
        r.names().len() == subdirs@.len(),
        forall|i: int| 0 <= i < subdirs@.len() ==> #[trigger] r.names()[i] == subdirs@[i]@,
        r.done() == Seq::<Seq<char>>::empty(),
{ unimplemented!() }

// R4: `entry.name.parse()` with target BlockHash (`impl FromStr for BlockHash`, src/blockhash.rs)
#[verifier::external_body]
struct BlockHashParseError { _p: () }

#[verifier::external_body]
fn shim_parse_block_hash(name: &String) -> (r: std::result::Result<BlockHash, BlockHashParseError>)
    ensures
        r is Ok <==> parse_block_name(name@) is Some,
        r matches Ok(h) ==> parse_block_name(name@) == Some(h@),
{ unimplemented!() /* name.parse() */ }

// std `Option::is_none_or`: "Returns true if the option is a None or the value inside of it matches a predicate."
#[verifier::external_body]
fn shim_is_none_or<F: FnOnce(u64) -> bool>(o: Option<u64>, f: F) -> (r: bool)
    requires o matches Some(x) ==> f.requires((x,)),
    ensures
        o is None ==> r,
        o matches Some(x) ==> f.ensures((x,), r),
{ o.is_none_or(f) }

// R5: `Error::ListBlocks { source }` (crate::Error is reduced in blockdir_shims.rs; no contract distinguishes this variant)
impl Error {
    #[verifier::external_body]
    fn shim_list_blocks(source: TransportError) -> (e: Error)
    { unimplemented!() }
}

// std::collections::HashSet keyed by BlockHash (R3, same-named shim; view = the set of 64-byte hashes).  ASSUMED: the
// documented behaviour of std's HashSet for a key type whose Hash/Eq are byte equality (src/blockhash.rs).
#[verifier::external_body]
#[verifier::reject_recursive_types(K)]
struct HashSet<K> { inner: std::collections::HashSet<K> }

impl HashSet<BlockHash> {
    uninterp spec fn view(&self) -> Set<Seq<u8>>;

    #[verifier::external_body]
    fn new() -> (r: Self)
        ensures r@ == Set::<Seq<u8>>::empty(),
    { unimplemented!() }

    // HashSet::contains (only reachable after an edit of the source)
    #[verifier::external_body]
    fn contains(&self, k: &BlockHash) -> (r: bool)
        ensures r == self@.contains(k@),
    { unimplemented!() }

    // HashSet::insert: "Returns whether the value was newly inserted."
    #[verifier::external_body]
    fn insert(&mut self, k: BlockHash) -> (r: bool)
        ensures
            final(self)@ == old(self)@.insert(k@),
            r == !old(self)@.contains(k@),
    { unimplemented!() }
}

// R6: `for x in V` over an owned Vec: the elements in order.
#[verifier::external_body]
#[verifier::reject_recursive_types(T)]
struct VecIntoIter<T> { inner: std::vec::IntoIter<T> }

impl<T> VecIntoIter<T> {
    uninterp spec fn rem(&self) -> Seq<T>;

    #[verifier::external_body]
    fn next(&mut self) -> (r: Option<T>)
        ensures
            old(self).rem().len() == 0 ==> r is None && final(self).rem() == old(self).rem(),
            old(self).rem().len() > 0 ==> r == Some(old(self).rem()[0])
                && final(self).rem() == old(self).rem().skip(1),
    { self.inner.next() }
}

#[verifier::external_body]
fn shim_vec_into_iter<T>(v: Vec<T>) -> (r: VecIntoIter<T>)
    ensures r.rem() == v@,
{ VecIntoIter { inner: v.into_iter() } }
