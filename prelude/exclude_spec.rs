// ---- exclude_spec: what an exclusion pattern means (C15), over bytes.  Written from the C15 statement:
// "an entry is omitted iff it or one of its ancestors matches a pattern (a leading '/' anchoring to the tree
//  root, otherwise matching at any depth)".  Glob SYNTAX ('*', '?', classes, '**') lives entirely inside the
// globset crate: `glob_matches` is uninterpreted and only ONE fact about it is assumed (axiom below).
//@@ include apath_spec.rs

// ghost description of one compiled globset::Glob: its pattern text and the literal_separator option
struct GlobSpec { pat: Seq<u8>, lit: bool }

// "globset's matcher for pattern `pat` built with literal_separator(lit) accepts `path`"  (UNINTERPRETED)
uninterp spec fn glob_matches(pat: Seq<u8>, lit: bool, path: Seq<u8>) -> bool;

spec const STAR: u8 = 0x2a;
spec fn anywhere_prefix() -> Seq<u8> { seq![STAR, STAR, SLASH] }   // "**/"
spec fn subtree_suffix() -> Seq<u8> { seq![SLASH, STAR, STAR] }    // "/**"

// P' of the statement: a leading '/' anchors to the root, otherwise the pattern matches at any depth
spec fn anchored(p: Seq<u8>) -> Seq<u8> {
    if p.len() > 0 && p[0] == SLASH { p } else { anywhere_prefix() + p }
}

// the two globs one pattern stands for: the path itself, and everything below it
spec fn expand_one(p: Seq<u8>) -> Seq<GlobSpec> {
    seq![GlobSpec { pat: anchored(p), lit: true }, GlobSpec { pat: anchored(p) + subtree_suffix(), lit: true }]
}

spec fn expand_all(ps: Seq<Seq<u8>>) -> Seq<GlobSpec>
    decreases ps.len()
{
    if ps.len() == 0 { Seq::<GlobSpec>::empty() } else { expand_all(ps.drop_last()) + expand_one(ps.last()) }
}

// some glob of the set matches x  (recursive form of `exists g in gs. glob_matches(g, x)`)
spec fn any_match(gs: Seq<GlobSpec>, x: Seq<u8>) -> bool
    decreases gs.len()
{
    gs.len() > 0 && (glob_matches(gs.last().pat, gs.last().lit, x) || any_match(gs.drop_last(), x))
}

// x is omitted under the pattern list ps (what Exclude::matches computes, by the contracts of unit `exclude`)
spec fn excluded(ps: Seq<Seq<u8>>, x: Seq<u8>) -> bool { any_match(expand_all(ps), x) }

// u itself matches one of the patterns P' (no "/**" companion involved)
spec fn direct(ps: Seq<Seq<u8>>, u: Seq<u8>) -> bool
    decreases ps.len()
{
    ps.len() > 0 && (glob_matches(anchored(ps.last()), true, u) || direct(ps.drop_last(), u))
}

// u is x, or x continues u with a separator: ancestor-or-self by WHOLE components, for u other than the root
// (for u != "/" this is exactly `under(u, x)` of apath_spec: lemma_anc_is_under)
spec fn anc(u: Seq<u8>, x: Seq<u8>) -> bool { x == u || is_byte_prefix(u.push(SLASH), x) }

// ASSUMPTION about globset 0.4 (listed in the trusted base).  A trailing "/**" is the token RecursiveSuffix, which
// globset translates to the regex `/.*` appended to the translation of what precedes it: so `G/**` accepts x iff
// x == u + "/" + v for some u accepted by G and some v  --  stated here without v: x starts with u + "/".
// (DESIGN 7 C15 writes it with v != ""; globset's `/.*` also takes the empty v, which only matters for paths
// ending in '/', and no apath does.)  Assumed for every G that parses on its own and does not itself end in an
// unfinished token (escape, class, alternation) or in '**'.
#[verifier::external_body]
proof fn axiom_globset_subtree_suffix(g: Seq<u8>, x: Seq<u8>)
    ensures
        glob_matches(g + subtree_suffix(), true, x)
            <==> exists|u: Seq<u8>| #[trigger] glob_matches(g, true, u) && is_byte_prefix(u.push(SLASH), x),
{ }

// ------------------------------------------------------------------------------------------------------
// lemmas

proof fn lemma_anc_is_under(u: Seq<u8>, x: Seq<u8>)
    ensures
        anc(u, x) ==> under(u, x),
        u != seq![SLASH] ==> (under(u, x) <==> anc(u, x)),
{ }

proof fn lemma_prefix_trans(a: Seq<u8>, b: Seq<u8>, c: Seq<u8>)
    requires is_byte_prefix(a, b), is_byte_prefix(b, c),
    ensures is_byte_prefix(a, c),
{
    assert(c.subrange(0, a.len() as int) =~= c.subrange(0, b.len() as int).subrange(0, a.len() as int));
}

proof fn lemma_anc_trans(a: Seq<u8>, b: Seq<u8>, c: Seq<u8>)
    requires anc(a, b), anc(b, c),
    ensures anc(a, c),
{
    if b == a || c == b {
    } else {
        let a1 = a.push(SLASH);
        let b1 = b.push(SLASH);
        assert(is_byte_prefix(b, b1)) by { assert(b1.subrange(0, b.len() as int) =~= b); }
        lemma_prefix_trans(a1, b, b1);
        lemma_prefix_trans(a1, b1, c);
    }
}

proof fn lemma_any_match_append2(s: Seq<GlobSpec>, a: GlobSpec, b: GlobSpec, x: Seq<u8>)
    ensures
        any_match(s + seq![a, b], x)
            == (glob_matches(b.pat, b.lit, x) || glob_matches(a.pat, a.lit, x) || any_match(s, x)),
{
    let t = s + seq![a, b];
    assert(t.last() == b);
    assert(t.drop_last() =~= s.push(a));
    assert(s.push(a).last() == a);
    assert(s.push(a).drop_last() =~= s);
    assert(any_match(s.push(a), x) == (glob_matches(a.pat, a.lit, x) || any_match(s, x)));
    assert(any_match(t, x) == (glob_matches(b.pat, b.lit, x) || any_match(s.push(a), x)));
}

// one step of the pattern list
proof fn lemma_excluded_step(ps: Seq<Seq<u8>>, x: Seq<u8>)
    requires ps.len() > 0,
    ensures
        excluded(ps, x) == (excluded(ps.drop_last(), x)
            || glob_matches(anchored(ps.last()), true, x)
            || glob_matches(anchored(ps.last()) + subtree_suffix(), true, x)),
{
    let e = expand_one(ps.last());
    assert(e =~= seq![e[0], e[1]]);
    lemma_any_match_append2(expand_all(ps.drop_last()), e[0], e[1], x);
}

// THE STATEMENT'S "it or one of its ancestors matches a pattern"
proof fn lemma_self_or_ancestor(ps: Seq<Seq<u8>>, x: Seq<u8>)
    ensures
        excluded(ps, x) <==> exists|u: Seq<u8>| #[trigger] direct(ps, u) && anc(u, x), //# C15.self_or_ancestor
    decreases ps.len()
{
    if ps.len() == 0 {
        assert(!excluded(ps, x));
        assert forall|u: Seq<u8>| !#[trigger] direct(ps, u) by { }
    } else {
        let q = ps.drop_last();
        let g = anchored(ps.last());
        lemma_self_or_ancestor(q, x);
        lemma_excluded_step(ps, x);
        axiom_globset_subtree_suffix(g, x);
        if excluded(ps, x) {
            if excluded(q, x) {
                let u = choose|u: Seq<u8>| #[trigger] direct(q, u) && anc(u, x);
                assert(direct(ps, u) && anc(u, x));
            } else if glob_matches(g, true, x) {
                assert(direct(ps, x) && anc(x, x));
            } else {
                let u = choose|u: Seq<u8>| #[trigger] glob_matches(g, true, u) && is_byte_prefix(u.push(SLASH), x);
                assert(direct(ps, u) && anc(u, x));
            }
        }
        if exists|u: Seq<u8>| #[trigger] direct(ps, u) && anc(u, x) {
            let u = choose|u: Seq<u8>| #[trigger] direct(ps, u) && anc(u, x);
            if direct(q, u) {
                assert(excluded(q, x));
            } else {
                assert(glob_matches(g, true, u));
                if x != u {
                    assert(glob_matches(g, true, u) && is_byte_prefix(u.push(SLASH), x));
                }
            }
        }
    }
}

// exclusion is inherited down the tree: this is what makes pruning at the first excluded directory (the source
// walk) and filtering every entry (Stitch::next) select the same set
proof fn lemma_excluded_monotone(ps: Seq<Seq<u8>>, u: Seq<u8>, x: Seq<u8>)
    requires excluded(ps, u), anc(u, x),
    ensures excluded(ps, x), //# C15.monotone
{
    lemma_self_or_ancestor(ps, u);
    lemma_self_or_ancestor(ps, x);
    let u0 = choose|u0: Seq<u8>| #[trigger] direct(ps, u0) && anc(u0, u);
    lemma_anc_trans(u0, u, x);
    assert(direct(ps, u0) && anc(u0, x));
}

// the same, phrased with `under` of apath_spec for any ancestor other than the root (the walk never tests the root)
proof fn lemma_excluded_monotone_under(ps: Seq<Seq<u8>>, u: Seq<u8>, x: Seq<u8>)
    requires excluded(ps, u), under(u, x), u != seq![SLASH],
    ensures excluded(ps, x), //# C15.monotone
{
    lemma_anc_is_under(u, x);
    lemma_excluded_monotone(ps, u, x);
}

// pruning == filtering: "some ancestor-or-self of x is excluded" (x is cut off by the walk) iff x itself is
// excluded (x is dropped by the per-entry filter)
proof fn lemma_prune_equals_filter(ps: Seq<Seq<u8>>, x: Seq<u8>)
    ensures
        (exists|u: Seq<u8>| #[trigger] excluded(ps, u) && anc(u, x)) <==> excluded(ps, x), //# C15.prune_equals_filter
{
    if exists|u: Seq<u8>| #[trigger] excluded(ps, u) && anc(u, x) {
        let u = choose|u: Seq<u8>| #[trigger] excluded(ps, u) && anc(u, x);
        lemma_excluded_monotone(ps, u, x);
    }
    if excluded(ps, x) {
        assert(excluded(ps, x) && anc(x, x));
    }
}

// ---- from a built set back to the pattern list ----

proof fn lemma_any_match_concat(a: Seq<GlobSpec>, b: Seq<GlobSpec>, x: Seq<u8>)
    ensures any_match(a + b, x) == (any_match(a, x) || any_match(b, x)),
    decreases b.len()
{
    if b.len() == 0 {
        assert(a + b =~= a);
    } else {
        lemma_any_match_concat(a, b.drop_last(), x);
        assert((a + b).drop_last() =~= a + b.drop_last());
        assert((a + b).last() == b.last());
    }
}

proof fn lemma_expand_all_concat(a: Seq<Seq<u8>>, b: Seq<Seq<u8>>)
    ensures expand_all(a + b) == expand_all(a) + expand_all(b),
    decreases b.len()
{
    if b.len() == 0 {
        assert(a + b =~= a);
        assert(expand_all(a) + expand_all(b) =~= expand_all(a));
    } else {
        lemma_expand_all_concat(a, b.drop_last());
        assert((a + b).drop_last() =~= a + b.drop_last());
        assert((a + b).last() == b.last());
        assert(expand_all(a + b) =~= expand_all(a) + expand_all(b));
    }
}

// a set holding exactly the expansion of the pattern list ps omits x iff x or one of its ancestors matches a
// pattern of ps: the code-side contracts (C15.pattern_expansion, C15.every_pattern_is_in_the_set,
// C15.matches_is_any_glob) meet the statement here
proof fn lemma_built_set_means_statement(globs: Seq<GlobSpec>, ps: Seq<Seq<u8>>, x: Seq<u8>)
    requires globs == expand_all(ps),
    ensures any_match(globs, x) <==> exists|u: Seq<u8>| #[trigger] direct(ps, u) && anc(u, x), //# C15.self_or_ancestor
{
    lemma_self_or_ancestor(ps, x);
}
