// ---- hunkiter_types: declarations and shims for reading a band's index (src/index/mod.rs) ----
//@@ include apath_stub.rs
//@@ include store_spec.rs

// R11: the real declarations (attributes dropped).
//@@ type src/kind.rs | enum Kind derive=Clone,Copy
//@@ end

//@@ type src/owner.rs | struct Owner
//@@ end

//@@ type src/unix_mode.rs | struct UnixMode derive=Clone,Copy
//@@ end

//@@ type src/index/entry.rs | struct IndexEntry
//@ rewrite
blockdir::Address ==> Address
//@@ end

// crate::Error: opaque here (no contract of this unit looks inside an error value).
#[verifier::external_body]
struct Error { _p: () }

// (`Result::expect` needs `E: Debug`; formatting an error is outside every contract)
#[verifier::external]
impl std::fmt::Debug for Error {
    fn fmt(&self, _f: &mut std::fmt::Formatter) -> std::fmt::Result { Ok(()) }
}

// src/lib.rs: `pub type Result<T> = std::result::Result<T, Error>;`
type Result<T> = std::result::Result<T, Error>;

// R3 shim of `IndexRead` (src/index/mod.rs): a transport pointing at one band's index directory plus a
// decompressor and counters.  What the contracts speak about is the GHOST ARCHIVE VIEW of that directory:
//   view():    hunk number -> Ok(entries) if file `hunk_relpath(n)` exists, decompresses and decodes to `entries`,
//                             Err(())     if it exists but cannot be read/decompressed/decoded,
//                             (absent key) if there is no such file;
//   listing(): Ok(numbers) = what `hunks_available` enumerates (sub-directories in name order, numeric file
//              names in order inside each), Err(()) if a directory listing fails.
// ASSUMPTION (DESIGN C08 "the archive is unchanged during the listing"): reading does not change the view.
#[verifier::external_body]
struct IndexRead { _p: () }

impl IndexRead {
    uninterp spec fn view(&self) -> Map<u32, std::result::Result<Seq<IndexEntry>, ()>>;

    uninterp spec fn listing(&self) -> std::result::Result<Seq<u32>, ()>;

    spec fn hunk(&self, n: u32) -> Option<std::result::Result<Seq<IndexEntry>, ()>> {
        if self.view().contains_key(n) { Some(self.view()[n]) } else { None }
    }

    // ASSUMED contract of IndexRead::read_hunk (src/index/mod.rs): Ok(None) iff the hunk file is not found,
    // Ok(Some(entries)) iff it is read, decompressed and decoded, Err otherwise.  (Only `stats` changes.)
    #[verifier::external_body]
    async fn read_hunk(&mut self, hunk_number: u32) -> (r: Result<Option<Vec<IndexEntry>>>)
        ensures
            final(self).view() == old(self).view(),
            final(self).listing() == old(self).listing(),
            match r {
                Ok(None) => old(self).hunk(hunk_number) is None,
                Ok(Some(v)) => old(self).hunk(hunk_number) == Some(Ok::<Seq<IndexEntry>, ()>(v@)),
                Err(_) => old(self).hunk(hunk_number) == Some(Err::<Seq<IndexEntry>, ()>(())),
            },
    { unimplemented!() }

    // ASSUMED contract of IndexRead::hunks_available (src/index/mod.rs; two iterator chains over
    // `Transport::list_dir`, not extracted): it returns the listing, and it fails when a list_dir fails.
    #[verifier::external_body]
    async fn hunks_available(&self) -> (r: Result<Vec<u32>>)
        ensures
            match r {
                Ok(v) => self.listing() == Ok::<Seq<u32>, ()>(v@),
                Err(_) => self.listing() is Err,
            },
    { unimplemented!() }
}

// R3 shim of `std::vec::IntoIter<u32>`: the hunk numbers not yet visited.
#[verifier::external_body]
struct HunkNumbers { inner: std::vec::IntoIter<u32> }

impl HunkNumbers {
    uninterp spec fn rem(&self) -> Seq<u32>;

    // std: Iterator::next on vec::IntoIter yields the elements front to back.
    #[verifier::external_body]
    fn next(&mut self) -> (r: Option<u32>)
        ensures
            old(self).rem().len() == 0 ==> r is None && final(self).rem() == old(self).rem(),
            old(self).rem().len() > 0 ==> r == Some(old(self).rem()[0]) && final(self).rem() == old(self).rem().skip(1),
    { self.inner.next() }
}

// std: `Vec::into_iter` iterates over exactly the vector's elements, in order.
#[verifier::external_body]
fn shim_into_hunk_numbers(v: Vec<u32>) -> (r: HunkNumbers)
    ensures r.rem() == v@,
{ HunkNumbers { inner: v.into_iter() } }

//@@ type src/index/mod.rs | struct IndexHunkIter
//@ rewrite
std::vec::IntoIter<u32> ==> HunkNumbers
//@@ end

// ---- R4: the comparison operators on Apath.  src/apath.rs: `impl PartialOrd for Apath { partial_cmp = Some(self.cmp(other)) }`
// and std's provided methods: `a <= b` is `matches!(a.partial_cmp(b), Some(Less | Equal))`, `a > b` is
// `matches!(.., Some(Greater))`, etc.  These helpers are VERIFIED against the contract of Apath::cmp (unit apath).

fn apath_op_le(a: &Apath, b: &Apath) -> (r: bool)
    ensures r == (apath_cmp(a@, b@) != Ordering::Greater),
{ match a.cmp(b) { Ordering::Less => true, Ordering::Equal => true, Ordering::Greater => false } }

fn apath_op_lt(a: &Apath, b: &Apath) -> (r: bool)
    ensures r == (apath_cmp(a@, b@) == Ordering::Less),
{ match a.cmp(b) { Ordering::Less => true, Ordering::Equal => false, Ordering::Greater => false } }

fn apath_op_gt(a: &Apath, b: &Apath) -> (r: bool)
    ensures r == (apath_cmp(a@, b@) == Ordering::Greater),
{ match a.cmp(b) { Ordering::Less => false, Ordering::Equal => false, Ordering::Greater => true } }

fn apath_op_ge(a: &Apath, b: &Apath) -> (r: bool)
    ensures r == (apath_cmp(a@, b@) != Ordering::Less),
{ match a.cmp(b) { Ordering::Less => false, Ordering::Equal => true, Ordering::Greater => true } }

// entries strictly increasing by apath (what C13 guarantees for every hunk conserve writes)
#[verifier::opaque]
spec fn entries_sorted(s: Seq<IndexEntry>) -> bool {
    forall|i: int, j: int| 0 <= i < j < s.len() ==> apath_cmp(#[trigger] s[i].apath@, #[trigger] s[j].apath@) == Ordering::Less
}

// R4 shim: `entries.binary_search_by_key(&after, |entry| &entry.apath)`.
// std contract of slice::binary_search_by_key: never panics; the index is in range; IF the slice is sorted by the
// key, `Ok(i)` means element i compares Equal to the key, `Err(i)` means i is the insertion point (everything
// before is Less, everything from i on is Greater).  On an unsorted slice the result is unspecified.
#[verifier::external_body]
fn shim_binary_search_by_apath(v: &Vec<IndexEntry>, key: &Apath) -> (r: std::result::Result<usize, usize>)
    ensures
        match r {
            Ok(i) => i < v.len() && (entries_sorted(v@) ==> apath_cmp(v[i as int].apath@, key@) == Ordering::Equal),
            Err(i) => i <= v.len() && (entries_sorted(v@) ==> {
                &&& forall|k: int| 0 <= k < i ==> apath_cmp(#[trigger] v[k].apath@, key@) == Ordering::Less
                &&& forall|k: int| i <= k < v.len() ==> apath_cmp(#[trigger] v[k].apath@, key@) == Ordering::Greater
            }),
        },
{ unimplemented!() /* v.binary_search_by_key(&key, |entry| &entry.apath) */ }

// R4 shim: `Vec::from(&entries[idx..])`.  std: slicing panics iff idx > len (the precondition); `Vec::from(&[T])`
// clones each element in order; IndexEntry's derived Clone is a field-wise copy.
#[verifier::external_body]
fn shim_vec_from_suffix(v: &Vec<IndexEntry>, idx: usize) -> (r: Vec<IndexEntry>)
    requires idx <= v.len(),
    ensures r@ == v@.skip(idx as int),
{ unimplemented!() /* Vec::from(&v[idx..]) */ }
