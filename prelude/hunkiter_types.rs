// ---- hunkiter_types: declarations and shims for reading a band's index (src/index/mod.rs) ----
//@@ include apath_stub.rs
//@@ include store_spec.rs

// R11: the real declarations (attributes dropped).
//@@ type src/kind.rs | enum Kind derive=Clone,Copy
//@@ end

//@@ type src/owner.rs | struct Owner
//@@ end

//@@ type src/unix_mode.rs | struct UnixMode derive=Clone,Copy
//@@ end

//@@ type src/index/entry.rs | struct IndexEntry
//@ rewrite
blockdir::Address ==> Address
//@@ end

// crate::Error: opaque here (no contract of this unit looks inside an error value).
#[verifier::external_body]
struct Error { _p: () }

// (`Result::expect` needs `E: Debug`; formatting an error is outside every contract)
#[verifier::external]
impl std::fmt::Debug for Error {
    fn fmt(&self, _f: &mut std::fmt::Formatter) -> std::fmt::Result { Ok(()) }
}

// src/lib.rs: `pub type Result<T> = std::result::Result<T, Error>;`
type Result<T> = std::result::Result<T, Error>;

// ---- IndexRead (src/index/mod.rs): the real declaration (R11): a transport pointing at one band's index directory
// plus a decompressor and counters.  What the contracts speak about is the GHOST ARCHIVE VIEW of that directory:
//   view():    hunk number -> Ok(entries) if file `hunk_relpath(n)` exists, decompresses and decodes to `entries`,
//                             Err(())     if it exists but cannot be read/decompressed/decoded,
//                             (absent key) if there is no such file;
//   listing(): Ok(numbers) = what enumerating the index directory yields (sub-directories in name order, numeric file
//              names in order inside each), Err(()) if a directory listing fails.  DEFINED below over the transport's
//              directory model; `hunks_available` is PROVED to return it (unit hunkiter).
// ASSUMPTION (DESIGN C08 "the archive is unchanged during the listing"): reading does not change the view.

// transport::Error: opaque
#[verifier::external_body]
struct TransportError { _p: () }

// thiserror `#[from] transport::Error` on crate::Error::Transport (what `?` applies); nothing is claimed about the result
impl From<TransportError> for Error {
    #[verifier::external_body]
    fn from(e: TransportError) -> (r: Error) { unimplemented!() }
}
impl vstd::std_specs::convert::FromSpecImpl<TransportError> for Error {
    closed spec fn obeys_from_spec() -> bool { false }
    closed spec fn from_spec(e: TransportError) -> Error { arbitrary() }
}

//@@ type src/transport.rs | struct DirEntry
//@@ end

// R3 shim of Transport as IndexRead uses it for listing.
#[verifier::external_body]
struct Transport { _p: () }

impl Transport {
    // what `list_dir(path)` yields during this operation: Ok(entries) or Err = the listing failed
    uninterp spec fn dir_list(&self, path: Seq<char>) -> std::result::Result<Seq<DirEntry>, ()>;

    #[verifier::external_body]
    async fn list_dir(&self, relpath: &str) -> (r: std::result::Result<Vec<DirEntry>, TransportError>)
        ensures
            r matches Ok(v) ==> self.dir_list(relpath@) == Ok::<Seq<DirEntry>, ()>(v@),
            r is Err ==> self.dir_list(relpath@) is Err,
    { unimplemented!() }
}

// src/compress/snappy.rs Decompressor, src/stats.rs IndexReadStats: only stored here
#[verifier::external_body]
struct Decompressor { _p: () }

//@@ type src/stats.rs | struct IndexReadStats
//@@ end

//@@ type src/index/mod.rs | struct IndexRead
//@@ end

// R7 contract functions (the two iterator chains of hunks_available, lifted verbatim into r7_* helpers below):
//   sorted_dir_names(es)    = es.into_iter().filter(|entry| entry.is_dir()).map(|entry| entry.name).sorted().collect_vec()
//   sorted_hunk_numbers(es) = es.into_iter().filter(|entry| entry.is_file()).filter_map(|entry| entry.name.parse::<u32>().ok()).sorted()
uninterp spec fn sorted_dir_names(es: Seq<DirEntry>) -> Seq<Seq<char>>;
uninterp spec fn sorted_hunk_numbers(es: Seq<DirEntry>) -> Seq<u32>;

// the hunk numbers found in the given sub-directories, in that order; Err if any of them cannot be listed
spec fn hunks_in_dirs(t: Transport, dirs: Seq<Seq<char>>) -> std::result::Result<Seq<u32>, ()>
    decreases dirs.len()
{
    if dirs.len() == 0 { Ok(Seq::<u32>::empty()) }
    else {
        match hunks_in_dirs(t, dirs.drop_last()) {
            Err(_) => Err(()),
            Ok(a) => match t.dir_list(dirs.last()) {
                Err(_) => Err(()),
                Ok(es) => Ok(a + sorted_hunk_numbers(es)),
            },
        }
    }
}

// a listing failure in any prefix of the sub-directories is a failure of the whole (hint form: no `requires`)
proof fn lemma_hunks_in_dirs_err(t: Transport, full: Seq<Seq<char>>, j: int)
    ensures (0 <= j <= full.len() && hunks_in_dirs(t, full.take(j)) is Err) ==> hunks_in_dirs(t, full) is Err,
    decreases full.len() - j
{
    if 0 <= j <= full.len() && hunks_in_dirs(t, full.take(j)) is Err {
        if j == full.len() {
            assert(full.take(j) =~= full);
        } else {
            assert(full.take(j + 1).drop_last() =~= full.take(j));
            lemma_hunks_in_dirs_err(t, full, j + 1);
        }
    }
}

spec fn listing_of(t: Transport) -> std::result::Result<Seq<u32>, ()> {
    match t.dir_list(Seq::<char>::empty()) {
        Err(_) => Err(()),
        Ok(root) => hunks_in_dirs(t, sorted_dir_names(root)),
    }
}

impl IndexRead {
    uninterp spec fn view(&self) -> Map<u32, std::result::Result<Seq<IndexEntry>, ()>>;

    spec fn listing(&self) -> std::result::Result<Seq<u32>, ()> { listing_of(self.transport) }

    spec fn hunk(&self, n: u32) -> Option<std::result::Result<Seq<IndexEntry>, ()>> {
        if self.view().contains_key(n) { Some(self.view()[n]) } else { None }
    }

    // ASSUMED contract of IndexRead::read_hunk (src/index/mod.rs): Ok(None) iff the hunk file is not found,
    // Ok(Some(entries)) iff it is read, decompressed and decoded, Err otherwise.  (Only `stats` changes.)
    #[verifier::external_body]
    async fn read_hunk(&mut self, hunk_number: u32) -> (r: Result<Option<Vec<IndexEntry>>>)
        ensures
            final(self).view() == old(self).view(),
            final(self).listing() == old(self).listing(),
            match r {
                Ok(None) => old(self).hunk(hunk_number) is None,
                Ok(Some(v)) => old(self).hunk(hunk_number) == Some(Ok::<Seq<IndexEntry>, ()>(v@)),
                Err(_) => old(self).hunk(hunk_number) == Some(Err::<Seq<IndexEntry>, ()>(())),
            },
    { unimplemented!() }
}

// R7 (lifted verbatim from IndexRead::hunks_available; the unit's rewrites match the chain line by line):
//     <list_dir("") result>.into_iter().filter(|entry| entry.is_dir()).map(|entry| entry.name).sorted().collect_vec()
// ASSUMED: the names of the directories among the entries, in ascending (String) order.
#[verifier::external_body]
fn r7_sorted_dir_names(entries: Vec<DirEntry>) -> (r: Vec<String>)
    ensures
        r@.len() == sorted_dir_names(entries@).len(),
        forall|i: int| 0 <= i < r@.len() ==> (#[trigger] r@[i])@ == sorted_dir_names(entries@)[i],
{ unimplemented!() }

// R7 (lifted verbatim from IndexRead::hunks_available):
//     entries.into_iter().filter(|entry| entry.is_file()).filter_map(|entry| entry.name.parse::<u32>().ok()).sorted()
// (collected, so that R4 `extend` can take it).  ASSUMED: the numbers named by the files among the entries whose
// names parse as u32, in ascending order.
#[verifier::external_body]
fn r7_sorted_hunk_numbers(entries: Vec<DirEntry>) -> (r: Vec<u32>)
    ensures r@ == sorted_hunk_numbers(entries@),
{ unimplemented!() }

// R4: `V.extend(I)` appends the items of I in order (std: Extend for Vec)
#[verifier::external_body]
fn shim_vec_extend_u32(v: &mut Vec<u32>, items: Vec<u32>)
    ensures final(v)@ == old(v)@ + items@,
{ v.extend(items) }

// R6: `for x in V` over an owned Vec<String>: the elements in order
#[verifier::external_body]
struct StringsIter { inner: std::vec::IntoIter<String> }

impl StringsIter {
    uninterp spec fn rem(&self) -> Seq<Seq<char>>;

    #[verifier::external_body]
    fn next(&mut self) -> (r: Option<String>)
        ensures
            old(self).rem().len() == 0 ==> r is None && final(self).rem() == old(self).rem(),
            old(self).rem().len() > 0 ==> (r matches Some(x) && x@ == old(self).rem()[0])
                && final(self).rem() == old(self).rem().skip(1),
    { self.inner.next() }
}

#[verifier::external_body]
fn shim_into_strings_iter(v: Vec<String>) -> (r: StringsIter)
    ensures
        r.rem().len() == v@.len(),
        forall|i: int| 0 <= i < v@.len() ==> #[trigger] r.rem()[i] == v@[i]@,
{ StringsIter { inner: v.into_iter() } }

// R3 shim of `std::vec::IntoIter<u32>`: the hunk numbers not yet visited.
#[verifier::external_body]
struct HunkNumbers { inner: std::vec::IntoIter<u32> }

impl HunkNumbers {
    uninterp spec fn rem(&self) -> Seq<u32>;

    // std: Iterator::next on vec::IntoIter yields the elements front to back.
    #[verifier::external_body]
    fn next(&mut self) -> (r: Option<u32>)
        ensures
            old(self).rem().len() == 0 ==> r is None && final(self).rem() == old(self).rem(),
            old(self).rem().len() > 0 ==> r == Some(old(self).rem()[0]) && final(self).rem() == old(self).rem().skip(1),
    { self.inner.next() }
}

// std: `Vec::into_iter` iterates over exactly the vector's elements, in order.
#[verifier::external_body]
fn shim_into_hunk_numbers(v: Vec<u32>) -> (r: HunkNumbers)
    ensures r.rem() == v@,
{ HunkNumbers { inner: v.into_iter() } }

//@@ type src/index/mod.rs | struct IndexHunkIter
//@ rewrite
std::vec::IntoIter<u32> ==> HunkNumbers
//@@ end

// ---- R4: the comparison operators on Apath.  src/apath.rs: `impl PartialOrd for Apath { partial_cmp = Some(self.cmp(other)) }`
// and std's provided methods: `a <= b` is `matches!(a.partial_cmp(b), Some(Less | Equal))`, `a > b` is
// `matches!(.., Some(Greater))`, etc.  These helpers are VERIFIED against the contract of Apath::cmp (unit apath).

fn apath_op_le(a: &Apath, b: &Apath) -> (r: bool)
    ensures r == (apath_cmp(a@, b@) != Ordering::Greater),
{ match a.cmp(b) { Ordering::Less => true, Ordering::Equal => true, Ordering::Greater => false } }

fn apath_op_lt(a: &Apath, b: &Apath) -> (r: bool)
    ensures r == (apath_cmp(a@, b@) == Ordering::Less),
{ match a.cmp(b) { Ordering::Less => true, Ordering::Equal => false, Ordering::Greater => false } }

fn apath_op_gt(a: &Apath, b: &Apath) -> (r: bool)
    ensures r == (apath_cmp(a@, b@) == Ordering::Greater),
{ match a.cmp(b) { Ordering::Less => false, Ordering::Equal => false, Ordering::Greater => true } }

fn apath_op_ge(a: &Apath, b: &Apath) -> (r: bool)
    ensures r == (apath_cmp(a@, b@) != Ordering::Less),
{ match a.cmp(b) { Ordering::Less => false, Ordering::Equal => true, Ordering::Greater => true } }

// entries strictly increasing by apath (what C13 guarantees for every hunk conserve writes)
#[verifier::opaque]
spec fn entries_sorted(s: Seq<IndexEntry>) -> bool {
    forall|i: int, j: int| 0 <= i < j < s.len() ==> apath_cmp(#[trigger] s[i].apath@, #[trigger] s[j].apath@) == Ordering::Less
}

// R4 shim: `entries.binary_search_by_key(&after, |entry| &entry.apath)`.
// std contract of slice::binary_search_by_key: never panics; the index is in range; IF the slice is sorted by the
// key, `Ok(i)` means element i compares Equal to the key, `Err(i)` means i is the insertion point (everything
// before is Less, everything from i on is Greater).  On an unsorted slice the result is unspecified.
#[verifier::external_body]
fn shim_binary_search_by_apath(v: &Vec<IndexEntry>, key: &Apath) -> (r: std::result::Result<usize, usize>)
    ensures
        match r {
            Ok(i) => i < v.len() && (entries_sorted(v@) ==> apath_cmp(v[i as int].apath@, key@) == Ordering::Equal),
            Err(i) => i <= v.len() && (entries_sorted(v@) ==> {
                &&& forall|k: int| 0 <= k < i ==> apath_cmp(#[trigger] v[k].apath@, key@) == Ordering::Less
                &&& forall|k: int| i <= k < v.len() ==> apath_cmp(#[trigger] v[k].apath@, key@) == Ordering::Greater
            }),
        },
{ unimplemented!() /* v.binary_search_by_key(&key, |entry| &entry.apath) */ }

// R4 shim: `Vec::from(&entries[idx..])`.  std: slicing panics iff idx > len (the precondition); `Vec::from(&[T])`
// clones each element in order; IndexEntry's derived Clone is a field-wise copy.
#[verifier::external_body]
fn shim_vec_from_suffix(v: &Vec<IndexEntry>, idx: usize) -> (r: Vec<IndexEntry>)
    requires idx <= v.len(),
    ensures r@ == v@.skip(idx as int),
{ unimplemented!() /* Vec::from(&v[idx..]) */ }
