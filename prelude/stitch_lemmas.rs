// ---- stitch_lemmas: the stitched listing is strictly increasing (C08 "no duplicates"), pure spec mathematics ----
// requires stitch_spec.rs

spec fn lt_pred(b: Seq<char>) -> spec_fn(IndexEntry) -> bool { |e: IndexEntry| apath_cmp(e.apath@, b) == Ordering::Less }
spec fn le_pred(b: Seq<char>) -> spec_fn(IndexEntry) -> bool { |e: IndexEntry| apath_cmp(e.apath@, b) != Ordering::Greater }
spec fn above_pred(x: Seq<char>) -> spec_fn(IndexEntry) -> bool { |e: IndexEntry| apath_cmp(x, e.apath@) == Ordering::Less }

// every entry of s sorts after `after` (if there is a resume point)
spec fn all_after(s: Seq<IndexEntry>, after: Option<Seq<char>>) -> bool {
    after matches Some(a) ==> forall|k: int| 0 <= k < s.len() ==> above_pred(a)(#[trigger] s[k])
}

proof fn lemma_filter_sorted(es: Seq<IndexEntry>, p: spec_fn(IndexEntry) -> bool)
    requires entries_sorted(es),
    ensures entries_sorted(es.filter(p)),
    decreases es.len()
{
    reveal(entries_sorted);
    reveal(Seq::filter);
    if es.len() > 0 {
        let init = es.drop_last();
        let last = es.last();
        assert(entries_sorted(init)) by {
            assert forall|i: int, j: int| 0 <= i < j < init.len() implies apath_cmp(#[trigger] init[i].apath@, #[trigger] init[j].apath@) == Ordering::Less by {
                assert(init[i] == es[i] && init[j] == es[j]);
            }
        }
        lemma_filter_sorted(init, p);
        assert forall|k: int| 0 <= k < init.len() implies lt_pred(last.apath@)(#[trigger] init[k]) by {
            assert(init[k] == es[k]);
            assert(apath_cmp(es[k].apath@, es[es.len() - 1].apath@) == Ordering::Less);
        }
        lemma_filter_all(init, p, lt_pred(last.apath@));
        let fi = init.filter(p);
        let f = es.filter(p);
        assert(f == (if p(last) { fi.push(last) } else { fi }));
        assert forall|i: int, j: int| 0 <= i < j < f.len() implies apath_cmp(#[trigger] f[i].apath@, #[trigger] f[j].apath@) == Ordering::Less by {
            if j < fi.len() {
                assert(f[i] == fi[i] && f[j] == fi[j]);
            } else {
                assert(f[i] == fi[i]);
                assert(lt_pred(last.apath@)(fi[i]));
            }
        }
    }
}

// x sorted, y sorted, everything in y above the last of x  ==>  x ++ y sorted
proof fn lemma_concat_sorted(x: Seq<IndexEntry>, y: Seq<IndexEntry>)
    requires
        entries_sorted(x),
        entries_sorted(y),
        x.len() > 0 ==> all_after(y, Some(x.last().apath@)),
    ensures entries_sorted(x + y),
{
    reveal(entries_sorted);
    let z = x + y;
    assert forall|i: int, j: int| 0 <= i < j < z.len() implies apath_cmp(#[trigger] z[i].apath@, #[trigger] z[j].apath@) == Ordering::Less by {
        if j < x.len() {
            assert(z[i] == x[i] && z[j] == x[j]);
        } else if i >= x.len() {
            assert(z[i] == y[i - x.len()] && z[j] == y[j - x.len()]);
        } else {
            assert(z[i] == x[i] && z[j] == y[j - x.len()]);
            assert(above_pred(x.last().apath@)(y[j - x.len()]));
            if i < x.len() - 1 {
                assert(apath_cmp(x[i].apath@, x[x.len() - 1].apath@) == Ordering::Less);
                lemma_ac_trans(x[i].apath@, x.last().apath@, z[j].apath@);
            }
        }
    }
}

// if every remaining hunk lies above x, so does everything the iterator will still yield
proof fn lemma_flat_elems_above(view: HunkView, rem: Seq<u32>, x: Seq<char>, after: Option<Seq<char>>)
    requires hunks_above(view, rem, x),
    ensures all_after(flat_remaining(view, rem, after), Some(x)),
    decreases rem.len()
{
    if rem.len() > 0 && view.contains_key(rem[0]) {
        lemma_flat_elems_above(view, rem.skip(1), x, after);
        let rest = flat_remaining(view, rem.skip(1), after);
        match view[rem[0]] {
            Ok(es) => {
                assert forall|k: int| 0 <= k < es.len() implies above_pred(x)(#[trigger] es[k]) by {}
                let af = after_filter(es, after);
                if let Some(a) = after { lemma_filter_all(es, gt_pred(a), above_pred(x)); }
                let f = af + rest;
                assert forall|k: int| 0 <= k < f.len() implies above_pred(x)(#[trigger] f[k]) by {
                    if k < af.len() { assert(f[k] == af[k]); } else { assert(f[k] == rest[k - af.len()]); }
                }
            },
            Err(_) => {},
        }
    }
}

// what the hunk iterator yields from a well-formed band is strictly increasing and lies after the resume point
proof fn lemma_flat_increasing(view: HunkView, rem: Seq<u32>, after: Option<Seq<char>>)
    requires hunks_wf(view, rem),
    ensures
        entries_sorted(flat_remaining(view, rem, after)),
        all_after(flat_remaining(view, rem, after), after),
    decreases rem.len()
{
    if rem.len() == 0 || !view.contains_key(rem[0]) {
        reveal(entries_sorted);
    } else {
        lemma_flat_increasing(view, rem.skip(1), after);
        let rest = flat_remaining(view, rem.skip(1), after);
        match view[rem[0]] {
            Err(_) => {},
            Ok(es) => {
                let af = after_filter(es, after);
                let f = af + rest;
                // af is sorted and after `after`
                match after {
                    Some(a) => {
                        lemma_filter_sorted(es, gt_pred(a));
                        es.filter_lemma(gt_pred(a));
                        assert forall|k: int| 0 <= k < af.len() implies above_pred(a)(#[trigger] af[k]) by {
                            assert(gt_pred(a)(af[k]));
                            lemma_ac_flip(af[k].apath@, a);
                        }
                    },
                    None => {},
                }
                // rest lies above the last of af
                if af.len() > 0 {
                    assert(es.len() > 0) by { if let Some(a) = after { es.filter_lemma(gt_pred(a)); } }
                    let top = es.last().apath@;
                    assert forall|k: int| 0 <= k < es.len() implies le_pred(top)(#[trigger] es[k]) by {
                        reveal(entries_sorted);
                        if k < es.len() - 1 { assert(apath_cmp(es[k].apath@, es[es.len() - 1].apath@) == Ordering::Less); }
                        else { lemma_apath_cmp_equal_iff_same_string(es[k].apath@, top); }
                    }
                    if let Some(a) = after { lemma_filter_all(es, gt_pred(a), le_pred(top)); }
                    assert(le_pred(top)(af[af.len() - 1]));
                    lemma_hunks_above_weaken(view, rem.skip(1), af.last().apath@, top);
                    lemma_flat_elems_above(view, rem.skip(1), af.last().apath@, after);
                }
                lemma_concat_sorted(af, rest);
                if let Some(a) = after {
                    assert forall|k: int| 0 <= k < f.len() implies above_pred(a)(#[trigger] f[k]) by {
                        if k < af.len() { assert(f[k] == af[k]); } else { assert(f[k] == rest[k - af.len()]); }
                    }
                }
            },
        }
    }
}

// C08: "The result is strictly increasing in path order (no duplicates)" — for every arrangement of complete,
// incomplete, unopenable and deleted versions and every hunk layout of a well-formed archive.
proof fn lemma_stitch_increasing(a: Archive, id: u32, after: Option<Seq<char>>)
    requires arch_wf(a),
    ensures
        entries_sorted(stitch(a, id, after)), //# C08.strictly_increasing
        all_after(stitch(a, id, after), after), //# C08.strictly_increasing
    decreases id
{
    let own = band_entries(a, id, after);
    assert(entries_sorted(own) && all_after(own, after)) by {
        if a.m_opens(id) {
            assert(hunks_wf(a.m_view(id), a.m_listing(id)));
            lemma_flat_increasing(a.m_view(id), a.m_listing(id), after);
        } else {
            reveal(entries_sorted);
        }
    }
    let after2 = last_taken(own, after);
    let tail = stitch_after(a, id, after2);
    assert(stitch(a, id, after) == own + tail);
    assert(entries_sorted(tail) && all_after(tail, after2)) by {
        if !a.m_closed(id) {
            if let Some(p) = prev_existing(a, id) {
                if p < id { lemma_stitch_increasing(a, p, after2); }
            }
        }
        if tail.len() == 0 { reveal(entries_sorted); }
    }
    lemma_concat_sorted(own, tail);
    let z = own + tail;
    if let Some(x) = after {
        assert forall|k: int| 0 <= k < z.len() implies above_pred(x)(#[trigger] z[k]) by {
            if k < own.len() {
                assert(z[k] == own[k]);
            } else {
                assert(z[k] == tail[k - own.len()]);
                if own.len() > 0 {
                    assert(above_pred(own.last().apath@)(tail[k - own.len()]));
                    assert(above_pred(x)(own[own.len() - 1]));
                    lemma_ac_trans(x, own.last().apath@, z[k].apath@);
                }
            }
        }
    }
}

// ... and so is every selection of it (a filtered strictly increasing sequence is strictly increasing): the listing
// of a version restricted to a subtree and exclusions has no duplicates and is in order (C08, C12 "in order")
proof fn lemma_listing_increasing(a: Archive, id: u32, subtree: Seq<u8>, ex: Exclude)
    requires arch_wf(a),
    ensures entries_sorted(listing_spec(a, id, subtree, ex)), //# C08.strictly_increasing,C12.subtree_in_order
{
    lemma_stitch_increasing(a, id, None);
    lemma_filter_sorted(stitch(a, id, None), sel_pred(subtree, ex));
}
