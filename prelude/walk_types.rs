// ---- walk_types: the real declarations the source walk works on (R11) ----

//@@ type src/entry.rs | enum KindMeta
//@@ end

//@@ type src/owner.rs | struct Owner
//@@ end

//@@ type src/unix_mode.rs | struct UnixMode
//@@ end

//@@ type src/source/entry.rs | struct Entry
//@@ end

//@@ type src/stats.rs | struct SourceIterStats derive=Default
//@@ end

// the debug-build order checker (src/apath.rs): `last_apath` is the real field that remembers the last emitted path
//@@ type src/apath.rs | struct CheckOrder
//@@ end

//@@ type src/apath.rs | struct DebugCheckOrder
//@@ end

//@@ type src/source.rs | struct Iter
//@ rewrite
apath::DebugCheckOrder ==> DebugCheckOrder
//@@ end
