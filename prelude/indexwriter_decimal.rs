// ---- indexwriter_decimal: decimal rendering of sequence numbers (shared by units indexwriter and band) ----
// format.md: index hunks "are named with decimal sequence numbers padded to 9 digits", their sub-directory is "padded
// to five digits"; band "numbers ... are zero-padded to four digits ... but they can be longer".

spec fn dec_digits(n: nat) -> Seq<u8>
    decreases n
{
    if n < 10 { seq![(0x30 + n) as u8] } else { dec_digits(n / 10).push((0x30 + n % 10) as u8) }
}

spec fn zeros(k: nat) -> Seq<u8> { Seq::new(k, |i: int| 0x30u8) }

// decimal digits of n, left-padded with '0' to at least `width` characters
spec fn dec_pad(n: nat, width: nat) -> Seq<u8> {
    let d = dec_digits(n);
    if d.len() >= width { d } else { zeros((width - d.len()) as nat) + d }
}

// ---- the rendering is injective: distinct numbers give distinct names (pure spec math) ----

spec fn is_digit(b: u8) -> bool { 0x30 <= b <= 0x39 }

spec fn all_digits(s: Seq<u8>) -> bool { forall|i: int| 0 <= i < s.len() ==> is_digit(#[trigger] s[i]) }

spec fn dec_value(s: Seq<u8>) -> nat
    decreases s.len()
{
    if s.len() == 0 { 0 } else { dec_value(s.drop_last()) * 10 + (s.last() - 0x30) as nat }
}

proof fn lemma_dec_digits(n: nat)
    ensures dec_value(dec_digits(n)) == n, all_digits(dec_digits(n)), dec_digits(n).len() >= 1,
    decreases n
{
    if n < 10 {
        let s = seq![(0x30 + n) as u8];
        assert(s.drop_last() =~= Seq::<u8>::empty());
        assert(dec_value(s.drop_last()) == 0);
    } else {
        lemma_dec_digits(n / 10);
        let p = dec_digits(n / 10);
        let d = (0x30 + n % 10) as u8;
        assert(p.push(d).drop_last() =~= p);
        assert(p.push(d).last() == d);
    }
}

proof fn lemma_dec_value_zeros(k: nat, d: Seq<u8>)
    ensures dec_value(zeros(k) + d) == dec_value(d),
    decreases d.len(), k
{
    if d.len() > 0 {
        assert((zeros(k) + d).drop_last() =~= zeros(k) + d.drop_last());
        lemma_dec_value_zeros(k, d.drop_last());
    } else if k > 0 {
        assert(zeros(k) + d =~= zeros(k));
        assert(zeros(k).drop_last() =~= zeros((k - 1) as nat));
        assert(zeros((k - 1) as nat) + d =~= zeros((k - 1) as nat));
        lemma_dec_value_zeros((k - 1) as nat, d);
    } else {
        assert(zeros(k) + d =~= d);
    }
}

proof fn lemma_dec_pad(n: nat, width: nat)
    ensures dec_value(dec_pad(n, width)) == n, all_digits(dec_pad(n, width)),
{
    lemma_dec_digits(n);
    let d = dec_digits(n);
    if d.len() < width { lemma_dec_value_zeros((width - d.len()) as nat, d); }
}

// the number rendered after the last '/' of a path
spec fn tail_value(p: Seq<u8>) -> nat
    decreases p.len()
{
    if p.len() == 0 || p.last() == 0x2fu8 { 0 } else { tail_value(p.drop_last()) * 10 + (p.last() - 0x30) as nat }
}

proof fn lemma_tail_value(x: Seq<u8>, b: Seq<u8>)
    requires all_digits(b),
    ensures tail_value(x.push(0x2fu8) + b) == dec_value(b),
    decreases b.len()
{
    if b.len() == 0 {
        assert(x.push(0x2fu8) + b =~= x.push(0x2fu8));
    } else {
        assert((x.push(0x2fu8) + b).drop_last() =~= x.push(0x2fu8) + b.drop_last());
        assert((x.push(0x2fu8) + b).last() == b.last());
        assert(is_digit(b[b.len() - 1]));
        lemma_tail_value(x, b.drop_last());
    }
}
