// ---- blockopen_snappy: crate `snap` 1.1 (raw format) and `bytes::BytesMut` as R3 shims, for src/compress/snappy.rs ----
// Expanded inside `mod snappy { use vstd::prelude::*; .. }` (nothing of the other modules is visible here).
// ASSUMED here: the documented behaviour of snap::raw::{max_compress_len, decompress_len, Encoder::compress,
// Decoder::decompress} and of BytesMut::{zeroed, truncate, freeze}.  PROVED in the unit: that the two wrappers size their
// buffers so that snap never refuses them, cut the buffer at the length snap reports, and hand snap's errors on.

// ---------- the model ----------
// snap_encode(d): the bytes snap's raw Encoder writes for d (ASSUMED deterministic: a function of d; DESIGN 5 `snap`).
uninterp spec fn snap_encode(d: Seq<u8>) -> Seq<u8>;

// snap_decode(c): what snap's raw Decoder makes of c when the output buffer is large enough: Some(d) = accepted, yields d;
// None = rejected (the empty input, an invalid or oversized length header, invalid element stream, produced length !=
// stated length).  The vocabulary of prelude/readhunk_crate.rs.
uninterp spec fn snap_decode(c: Seq<u8>) -> Option<Seq<u8>>;

// the uncompressed length STATED by the varint header of c (meaningful when the header is valid)
uninterp spec fn snap_declared_len(c: Seq<u8>) -> nat;

// snap: `MAX_INPUT_SIZE = u32::MAX`
spec const SNAP_MAX_INPUT_SIZE: nat = 0xffff_ffff;

// snap::raw::max_compress_len, transcribed: "Returns the maximum compressed size given the uncompressed size.  If the
// uncompressed size exceeds the maximum allowable size then this returns 0."
spec fn max_compress_len_spec(n: nat) -> nat {
    if n > SNAP_MAX_INPUT_SIZE { 0 }
    else if 32 + n + n / 6 > SNAP_MAX_INPUT_SIZE { 0 }
    else { 32 + n + n / 6 }
}

// ---------- bytes 1.x ----------
#[verifier::external_body]
struct Bytes { inner: Vec<u8> }

impl Bytes {
    uninterp spec fn view(&self) -> Seq<u8>;
}

#[verifier::external_body]
struct BytesMut { inner: Vec<u8> }

impl BytesMut {
    uninterp spec fn view(&self) -> Seq<u8>;

    // "Creates a new BytesMut containing len zeros."  Allocates (and zero-fills) len bytes at once; when the allocator
    // fails the process ABORTS (alloc::handle_alloc_error) -- not a panic, and not modelled.
    #[verifier::external_body]
    fn zeroed(len: usize) -> (r: BytesMut)
        ensures r@ == Seq::new(len as nat, |i: int| 0u8),
    { unimplemented!() }

    // "Shortens the buffer, keeping the first len bytes and dropping the rest.  If len is greater than the buffer's
    // current length, this has no effect."
    #[verifier::external_body]
    fn truncate(&mut self, len: usize)
        ensures
            final(self)@ == (if len as int <= old(self)@.len() { old(self)@.subrange(0, len as int) } else { old(self)@ }),
    { unimplemented!() }

    // "Converts self into an immutable Bytes."
    #[verifier::external_body]
    fn freeze(self) -> (r: Bytes)
        ensures r@ == self@,
    { unimplemented!() }
}

// ---------- snap::raw ----------
// snap::Error: opaque (R5)
#[verifier::external_body]
struct SnapError { _p: () }

// (`Result::unwrap`/`expect` need `E: Debug`; only reachable after an edit of the source)
#[verifier::external]
impl std::fmt::Debug for SnapError {
    fn fmt(&self, f: &mut std::fmt::Formatter<'_>) -> std::fmt::Result { f.write_str("snap error") }
}

#[verifier::external_body]
fn max_compress_len(input_len: usize) -> (r: usize)
    ensures r as nat == max_compress_len_spec(input_len as nat),
{ unimplemented!() /* snap::raw::max_compress_len(input_len) */ }

// snap::raw::decompress_len: "Returns the decompressed size (in bytes) of the compressed bytes given. ... Errors: An
// invalid Snappy header was seen.  The total space required for decompression exceeds 2^32 - 1."  (The empty input is
// Ok(0): `if input.is_empty() { return Ok(0) }`.)  Decoder::decompress begins with the same header read, so an input
// whose header is refused here is refused there too.
#[verifier::external_body]
fn decompress_len(input: &[u8]) -> (r: std::result::Result<usize, SnapError>)
    ensures
        input@.len() == 0 ==> (r matches Ok(n) && n == 0),
        r matches Ok(n) ==> n as nat <= SNAP_MAX_INPUT_SIZE && (input@.len() > 0 ==> snap_declared_len(input@) == n as nat),
        r is Err ==> snap_decode(input@) is None,
{ unimplemented!() /* snap::raw::decompress_len(input) */ }

#[verifier::external_body]
struct Encoder { _p: () }

impl Encoder {
    #[verifier::external_body]
    fn new() -> (r: Encoder)
    { unimplemented!() }

    // snap `Encoder::compress(input, output)`: "`output` must be large enough to hold the maximum possible compressed size
    // of `input`, which can be computed using `max_compress_len`.  On success, this returns the number of bytes written to
    // `output`.  Errors: The total number of bytes to compress exceeds 2^32 - 1.  `output` has length less than
    // `max_compress_len(input.len())`."  -- and in no other circumstance.  (The real parameter is `&mut [u8]`; the
    // wrappers pass `&mut BytesMut`, which derefs to it.)
    #[verifier::external_body]
    fn compress(&mut self, input: &[u8], output: &mut BytesMut) -> (r: std::result::Result<usize, SnapError>)
        ensures
            final(output)@.len() == old(output)@.len(),
            match r {
                Ok(n) => n as int <= old(output)@.len() && final(output)@.subrange(0, n as int) == snap_encode(input@),
                Err(_) => max_compress_len_spec(input@.len()) == 0 || old(output)@.len() < max_compress_len_spec(input@.len()),
            },
    { unimplemented!() }
}

#[verifier::external_body]
struct Decoder { _p: () }

impl Decoder {
    // snap `Decoder::decompress(input, output)`: "The size of `output` must be large enough to hold all decompressed bytes
    // from the `input`.  The size required can be queried with the `decompress_len` function.  On success, this returns
    // the number of bytes written to `output`.  Errors: Invalid compressed Snappy data was seen.  The total space
    // required for decompression exceeds 2^32 - 1.  `output` has length less than `decompress_len(input)`."  The empty
    // input is an error (Error::Empty); on success the count IS the stated length (`Ok(dec.dst.len())`).
    // ASSUMED (C10, DESIGN 7): on arbitrary bytes it returns Err -- it does not panic and does not write outside `output`.
    #[verifier::external_body]
    fn decompress(&mut self, input: &[u8], output: &mut BytesMut) -> (r: std::result::Result<usize, SnapError>)
        ensures
            final(output)@.len() == old(output)@.len(),
            match r {
                Ok(n) => input@.len() > 0 && n as nat == snap_declared_len(input@) && n as int <= old(output)@.len()
                    && snap_decode(input@) == Some(final(output)@.subrange(0, n as int)),
                Err(_) => snap_decode(input@) is None
                    || (input@.len() > 0 && snap_declared_len(input@) > old(output)@.len()),
            },
    { unimplemented!() }
}

// `#[derive(Default)]` on Decompressor = `Decoder::new()`
impl Decompressor {
    #[verifier::external_body]
    fn default() -> (r: Decompressor)
    { unimplemented!() }
}

// ---------- crate::Error (src/errors.rs), reduced (R5) ----------
enum Error {
    SnapCompressionError { source: SnapError },
    Other,
}

type Result<T> = std::result::Result<T, Error>;

// thiserror `SnapCompressionError { #[from] source: snap::Error }`
impl From<SnapError> for Error {
    #[verifier::external_body]
    fn from(source: SnapError) -> (r: Error)
    { Error::SnapCompressionError { source } }
}

//@@ type src/compress/snappy.rs | struct Compressor
//@@ end

//@@ type src/compress/snappy.rs | struct Decompressor
//@@ end
