// ---- localread_fs: declarations, model vocabulary and ASSUMED primitive contracts of unit `localread` ----
// Expanded INSIDE `mod lr { use super::*; .. }`; the root holds prelude/localwrite_fs.rs (ghost `FsModel`, `PathBuf`, `Url`,
// `TempDir`, `WriteMode`, `has_content`) and prelude/localread_root.rs (the two real enums).  Names declared here shadow the
// glob-imported root names: `Error`, `ErrorKind`, `Result`, `Metadata`, `Protocol` are the REAL transport-level
// declarations in this module (R11), not localwrite's reduced ones.
//
// HOW THE MODEL IS READ (rule R8; the same `FsModel` as unit localwrite):
//   files: full path text -> the bytes of the regular file that path RESOLVES to (stat(2) reading: links followed)
//   dirs:  the full path texts that resolve to a directory
//   * the key is the TEXT of the path (`PathBuf@`): "a/b", "a//b" and "a/b/" are three keys.  Every function of this unit
//     builds its paths with `Path::join` only, so two calls with the same root and relpath name the same key.
//   * anything else found in a directory (symlink, fifo, socket, a name that is not UTF-8) is NOT in the model: it shows up
//     only in the raw directory listing (`raw_listing`), with its d_type.
//   * ONE task runs to completion and nobody else touches the tree meanwhile (C06 is out of reach).
//   * ASSUMED about the archive (doc/format.md never creates one; local.rs test `list_dir_skips_symlinks`): no symlink
//     points into or out of the listed/removed sub-trees.  Without it the d_type of an entry (lstat reading) and the
//     model (stat reading) differ exactly for symlinks: the raw entry then carries FKind::Symlink and list_dir DROPS it.
// Everything `external_body` / `uninterp` below is an assumption and belongs to the trusted base of this unit.

use std::io;
use super::TransportErrorKind as ErrorKind;

// ---------- std::io::{Error, ErrorKind}: the real std types, as in prelude/leaves_types.rs (so that the header of
// ---------- transport::Error::io_error PROVED in unit leaves can be taken over verbatim with `//@@ stub`)
#[verifier::external_type_specification]
pub struct ExIoErrorKind(std::io::ErrorKind);

#[verifier::external_type_specification]
#[verifier::external_body]
pub struct ExIoError(std::io::Error);

// `kind()` of an io::Error is a function of the error value
pub uninterp spec fn io_error_kind(e: std::io::Error) -> std::io::ErrorKind;

// std `io::Error::kind` (as in prelude/leaves_types.rs) and `==` / `!=` on io::ErrorKind (a fieldless enum: derived PartialEq)
pub assume_specification[ std::io::Error::kind ](e: &std::io::Error) -> (r: std::io::ErrorKind)
    ensures r == io_error_kind(*e);

pub assume_specification[ <std::io::ErrorKind as PartialEq>::eq ](a: &std::io::ErrorKind, b: &std::io::ErrorKind) -> (r: bool)
    ensures r == (*a == *b);

// std::path::Path: the same text-viewed shim as PathBuf (R3; `&PathBuf` derefs to `&Path`)
type Path = PathBuf;

// ---------- transport::Error (src/transport/error.rs), the real declaration (R11) ----------
#[verifier::external_body]
struct ErrorSourceBox { _p: () }   // Box<dyn std::error::Error + Send + Sync>: nobody looks inside (R3)

//@@ type src/transport/error.rs | struct Error
//@ rewrite
Box<dyn StdError + Send + Sync> ==> ErrorSourceBox
//@@ end

type Result<T> = std::result::Result<T, Error>;

// what makes an error "NotFound" for the callers: decided by Error::io_error (unit leaves) from the OS error kind
spec fn nf(e: Error) -> bool { e.kind == ErrorKind::NotFound }
spec fn os_nf(e: io::Error) -> bool { io_error_kind(e) == io::ErrorKind::NotFound }

// ---------- paths ----------
// std `Path::join` / `PathBuf::push` on Unix, on the path TEXT: an absolute `rel` REPLACES the base; otherwise a
// separator is added unless the base is empty or already ends with one (so joining "" yields "<base>/").
// No normalisation of any kind: "..", ".", "//" stay in the text as they are.
spec fn pjoin(base: Seq<char>, rel: Seq<char>) -> Seq<char> {
    if rel.len() > 0 && rel[0] == '/' { rel }
    else if base.len() == 0 || base.last() == '/' { base + rel }
    else { base.push('/') + rel }
}

// the text "/../" occurs inside `rel` (what the debug_assert of full_path looks for)
spec fn has_inner_dotdot(rel: Seq<char>) -> bool {
    exists|i: int| 0 <= i && i + 4 <= rel.len() && #[trigger] rel.subrange(i, i + 4) == seq!['/', '.', '.', '/']
}

// one directory-entry name: not empty, no separator, not "." / ".." (readdir entries that std hands out)
spec fn is_name(n: Seq<char>) -> bool {
    n.len() > 0 && !n.contains('/') && n != seq!['.'] && n != seq!['.', '.']
}

// q is p itself or lies below it (textually: below = starts with p followed by a separator)
spec fn dir_prefix(p: Seq<char>) -> Seq<char> {
    if p.len() == 0 || p.last() == '/' { p } else { p.push('/') }
}
spec fn is_under(p: Seq<char>, q: Seq<char>) -> bool {
    q == p || (q.len() > dir_prefix(p).len() && q.subrange(0, dir_prefix(p).len() as int) == dir_prefix(p))
}

impl PathBuf {
    // std `Path::join(&self, rel)` (through Deref<Target=Path>)
    #[verifier::external_body]
    fn join(&self, rel: &str) -> (r: PathBuf)
        ensures r@ == pjoin(self@, rel@),
    { unimplemented!() }

    // std `Path::to_owned` / `PathBuf::clone`: the same text
    #[verifier::external_body]
    fn to_owned(&self) -> (r: PathBuf)
        ensures r@ == self@,
    { unimplemented!() }
    #[verifier::external_body]
    fn clone(&self) -> (r: PathBuf)
        ensures r@ == self@,
    { unimplemented!() }
}

// `debug_assert!(cond, "message")`: the message is dropped (R5), the condition stays a no-panic obligation
#[verifier::external_body]
fn shim_debug_assert(cond: bool)
    requires cond,
{ debug_assert!(cond) }

// std `str::contains(&str)`, for the one pattern used ("/../")
#[verifier::external_body]
fn shim_contains_dotdot(s: &str, pat: &str) -> (r: bool)
    requires pat@ == seq!['/', '.', '.', '/'],
    ensures r == has_inner_dotdot(s@),
{ s.contains(pat) }

// std `str::starts_with(char)`: not called by the unchanged source -- specified only so that an EDIT that filters names
// this way is judged by the labelled clauses (exit 1), not rejected as unsupported (exit 2).
#[verifier::external_body]
fn shim_starts_with_char(s: &str, c: char) -> (r: bool)
    ensures r == (s@.len() > 0 && s@[0] == c),
{ s.starts_with(c) }

// ---------- bytes 1.x `Bytes` (R3): an immutable byte sequence ----------
#[verifier::external_body]
struct Bytes { inner: Vec<u8> }

impl Bytes {
    uninterp spec fn view(&self) -> Seq<u8>;

    // bytes: `impl From<Vec<u8>> for Bytes` (same call syntax `Bytes::from`): the same bytes, no copy
    #[verifier::external_body]
    fn from(v: Vec<u8>) -> (r: Bytes)
        ensures r@ == v@,
    { unimplemented!() }
}

// ---------- the local transport (src/transport/local.rs), real declaration ----------
//@@ type src/transport/local.rs | struct Protocol
//@@ end

impl Protocol {
    // the full path of `relpath` below this transport's root.  DEFINED here (unit localwrite leaves it uninterpreted);
    // Protocol::full_path is PROVED to compute it (C13.full_path_is_root_joined_with_relpath).
    spec fn s_full_path(&self, relpath: Seq<char>) -> Seq<char> { pjoin(self.path@, relpath) }
}

// tokio::sync::Semaphore: the static `FD_LIMIT` (100 permits).  `acquire()` fails only on a CLOSED semaphore and
// `Semaphore::close` is called nowhere in the crate: ASSUMED Ok.  The permit has no effect any contract mentions.
#[verifier::external_body]
struct SemaphorePermit { _p: () }
#[verifier::external_body]
struct AcquireError { _p: () }
#[verifier::external]
impl std::fmt::Debug for AcquireError {
    fn fmt(&self, f: &mut std::fmt::Formatter<'_>) -> std::fmt::Result { f.write_str("acquire error") }
}
#[verifier::external_body]
async fn shim_fd_limit_acquire() -> (r: std::result::Result<SemaphorePermit, AcquireError>)
    ensures r is Ok,
{ unimplemented!() }

// ---------- std::fs::{FileType, Metadata}, std::time::SystemTime, jiff::Timestamp ----------
enum FKind { File, Dir, Symlink, Other }

#[verifier::external_body]
struct FileType { _p: () }
impl FileType {
    uninterp spec fn fkind(&self) -> FKind;
    #[verifier::external_body]
    fn is_file(&self) -> (r: bool) ensures r == (self.fkind() is File) { unimplemented!() }
    #[verifier::external_body]
    fn is_dir(&self) -> (r: bool) ensures r == (self.fkind() is Dir) { unimplemented!() }
    #[verifier::external_body]
    fn is_symlink(&self) -> (r: bool) ensures r == (self.fkind() is Symlink) { unimplemented!() }
}

#[verifier::external_body]
struct Timestamp { _p: () }       // jiff::Timestamp: only stored
#[verifier::external_body]
struct JiffError { _p: () }
#[verifier::external]
impl std::fmt::Debug for JiffError {
    fn fmt(&self, f: &mut std::fmt::Formatter<'_>) -> std::fmt::Result { f.write_str("jiff error") }
}

#[verifier::external_body]
struct SystemTime { _p: () }
impl SystemTime {
    // the instant lies inside jiff's Timestamp range (-9999-01-01 .. 9999-12-30)
    uninterp spec fn representable(&self) -> bool;

    // jiff: `impl TryFrom<SystemTime> for Timestamp` (same call syntax `.try_into()`): Err exactly outside the range
    #[verifier::external_body]
    fn try_into(self) -> (r: std::result::Result<Timestamp, JiffError>)
        ensures r is Ok <==> self.representable(),
    { unimplemented!() }
}

// std::fs::Metadata: the root shim of localwrite_fs.rs (`s_len`, `len()`), extended with what `metadata` reads
use super::Metadata as FsMetadata;
impl FsMetadata {
    uninterp spec fn s_fkind(&self) -> FKind;

    #[verifier::external_body]
    fn file_type(&self) -> (r: FileType)
        ensures r.fkind() == self.s_fkind(),
    { unimplemented!() }

    // std `Metadata::modified`: Err only on platforms without mtime.  ASSUMED (environment): the mtime the OS reports
    // for a file of the archive is representable as a jiff Timestamp.  Without this assumption `Protocol::metadata`
    // (and `Transport::is_file`, which calls it) PANICS in `.expect("modified time should be representable ..")`: see report.
    #[verifier::external_body]
    fn modified(&self) -> (r: std::result::Result<SystemTime, io::Error>)
        ensures
            r matches Ok(t) ==> t.representable(),
            r matches Err(e) ==> !os_nf(e),     // std: "Unsupported" on a platform without mtime, nothing else
    { unimplemented!() }
}

// transport::Metadata, the real declaration (R11)
//@@ type src/transport.rs | struct Metadata
//@@ end

// transport::DirEntry, the real declaration (R11)
//@@ type src/transport.rs | struct DirEntry
//@@ end

// a listed entry as the contracts see it: (name, kind, len)
type EntView = (Seq<char>, Kind, Option<u64>);
spec fn de_view(e: DirEntry) -> EntView { (e.name@, e.kind, e.len) }
spec fn views(es: Seq<DirEntry>) -> Seq<EntView> { es.map_values(|e: DirEntry| de_view(e)) }

// ---------- raw directory listings: opendir(3)/readdir(3) as wrapped by tokio::fs::read_dir ----------
// What one of the two per-entry lookups yields DURING THIS LISTING:
//   Ok(x)     it succeeds with x
//   Vanished  it fails with ENOENT (io NotFound): the entry went away after readdir returned its name
//   Fault     it fails with any other error (EACCES, EIO, ELOOP ..)
enum Lookup<T> { Ok(T), Vanished, Fault }

// One raw entry, as THIS listing sees it:
//   name      Some(text) if the OS name is UTF-8, None otherwise (`OsString::into_string` fails)
//   ftype     what `DirEntry::file_type()` yields (d_type, else lstat: links NOT followed)
//   stat_len  what `DirEntry::metadata()` yields (fstatat, links not followed): the length
// (the two lookups are made after the entry was read: "what they will yield" is fixed per entry because nobody else
//  touches the tree during the operation)
struct RawEnt {
    name: Option<Seq<char>>,
    ftype: Lookup<FKind>,
    stat_len: Lookup<u64>,
}

// what enumerating directory `d` yields in state `m` (order included: whatever order the file system uses)
uninterp spec fn raw_listing(m: FsModel, d: Seq<char>) -> Seq<RawEnt>;
// where the entry of child `n` sits in that listing (Skolem function of the completeness half below)
uninterp spec fn raw_index(m: FsModel, d: Seq<char>, n: Seq<char>) -> int;

// the child this entry names is in the model (as a regular file or as a directory)
spec fn in_model(m: FsModel, p: Seq<char>) -> bool { m.files.contains_key(p) || m.dirs.contains(p) }

// an entry never claims more than the model holds, and differs from it only by being a symlink.
// THE NotFound EXEMPTION, in a static model: the model does not change during the listing, so a child that IS in the model
// cannot "vanish": a lookup may come back Vanished (ENOENT) only for an entry that is NOT in the model (a name that
// somebody outside the model removed between readdir and the lookup).  Any other failure (Fault) is possible for every
// entry.
spec fn raw_sound(m: FsModel, d: Seq<char>, e: RawEnt) -> bool {
    e.name matches Some(n) ==> {
        &&& is_name(n)
        &&& (e.ftype == Lookup::Ok(FKind::File) ==> m.files.contains_key(pjoin(d, n)))
        &&& (e.ftype == Lookup::Ok(FKind::Dir) ==> m.dirs.contains(pjoin(d, n)))
        &&& (e.ftype == Lookup::Ok(FKind::File) && e.stat_len is Ok ==> e.stat_len->Ok_0 as int == m.files[pjoin(d, n)].len())
        &&& (m.files.contains_key(pjoin(d, n)) && e.ftype is Ok ==> (e.ftype->Ok_0 is File || e.ftype->Ok_0 is Symlink))
        &&& (m.dirs.contains(pjoin(d, n)) && !m.files.contains_key(pjoin(d, n)) && e.ftype is Ok
                ==> (e.ftype->Ok_0 is Dir || e.ftype->Ok_0 is Symlink))
        &&& (in_model(m, pjoin(d, n)) ==> !(e.ftype is Vanished) && !(e.stat_len is Vanished))
    }
}

// readdir returns every name of the directory ("." and ".." are skipped by std), and nothing that is not there
spec fn listing_wf(m: FsModel, d: Seq<char>, ents: Seq<RawEnt>) -> bool {
    &&& forall|i: int| 0 <= i < ents.len() ==> raw_sound(m, d, #[trigger] ents[i])
    &&& forall|n: Seq<char>| is_name(n) && (m.files.contains_key(pjoin(d, n)) || m.dirs.contains(pjoin(d, n)))
            ==> 0 <= #[trigger] raw_index(m, d, n) < ents.len() && ents[raw_index(m, d, n)].name == Some(n)
}

#[verifier::external_body]
struct OsString { _p: () }
impl OsString {
    uninterp spec fn utf8(&self) -> Option<Seq<char>>;

    // std `OsString::into_string`: Ok(text) iff the name is valid UTF-8
    #[verifier::external_body]
    fn into_string(self) -> (r: std::result::Result<String, OsString>)
        ensures
            self.utf8() matches Some(n) ==> (r matches Ok(s) && s@ == n),
            self.utf8() is None ==> r is Err,
    { unimplemented!() }
}

// tokio::fs::DirEntry (R3 type rename `tokio::fs::DirEntry` -> `TokioDirEntry`: transport::DirEntry owns the short name)
#[verifier::external_body]
struct TokioDirEntry { _p: () }
impl TokioDirEntry {
    uninterp spec fn raw(&self) -> RawEnt;

    #[verifier::external_body]
    fn file_name(&self) -> (r: OsString)
        ensures r.utf8() == self.raw().name,
    { unimplemented!() }

    #[verifier::external_body]
    async fn file_type(&self) -> (r: std::result::Result<FileType, io::Error>)
        ensures
            self.raw().ftype matches Lookup::Ok(k) ==> (r matches Ok(t) && t.fkind() == k),
            self.raw().ftype is Vanished ==> (r matches Err(e) && os_nf(e)),
            self.raw().ftype is Fault ==> (r matches Err(e) && !os_nf(e)),
    { unimplemented!() }

    #[verifier::external_body]
    async fn metadata(&self) -> (r: std::result::Result<FsMetadata, io::Error>)
        ensures
            self.raw().stat_len matches Lookup::Ok(l) ==> (r matches Ok(m) && m.s_len() == l),
            self.raw().stat_len is Vanished ==> (r matches Err(e) && os_nf(e)),
            self.raw().stat_len is Fault ==> (r matches Err(e) && !os_nf(e)),
    { unimplemented!() }
}

// tokio::fs::ReadDir: `rem()` = the raw entries not handed out yet
#[verifier::external_body]
struct ReadDir { _p: () }
impl ReadDir {
    uninterp spec fn rem(&self) -> Seq<RawEnt>;

    // `next_entry()`: the next raw entry, Ok(None) at the end -- and ONLY at the end; an Err (readdir failed) says
    // nothing about what is left.
    #[verifier::external_body]
    async fn next_entry(&mut self) -> (r: std::result::Result<Option<TokioDirEntry>, io::Error>)
        ensures
            r matches Ok(Some(e)) ==> old(self).rem().len() > 0 && e.raw() == old(self).rem()[0]
                && final(self).rem() == old(self).rem().skip(1),
            r matches Ok(None) ==> old(self).rem().len() == 0 && final(self).rem() == old(self).rem(),
            // getdents(2) reports ENOENT only for a directory that was deleted while open: excluded by "nobody else
            // touches the tree during the operation"
            r matches Err(e) ==> !os_nf(e),
    { unimplemented!() }
}

// ---------- tokio::fs free functions (each runs the std::fs equivalent on the blocking pool) ----------
// all read-only primitives leave the model as it is
spec fn unchanged(a: &FsModel, b: &FsModel) -> bool { a.files == b.files && a.dirs == b.dirs }

// tokio::fs::read(path) = open(O_RDONLY) + read to end: Ok(bytes) is the WHOLE content of the regular file the path
// resolves to; ENOENT (io NotFound) only when nothing is there.  Any other failure (EACCES, EISDIR, EIO ..) has
// another kind.
#[verifier::external_body]
async fn shim_tokio_read(path: &PathBuf, Tracked(w): Tracked<&mut FsModel>) -> (r: std::result::Result<Vec<u8>, io::Error>)
    ensures
        unchanged(old(w), final(w)),
        r matches Ok(v) ==> old(w).files.contains_key(path@) && v@ == old(w).files[path@],
        r matches Err(e) ==> (os_nf(e) ==> !old(w).files.contains_key(path@) && !old(w).dirs.contains(path@)),
{ unimplemented!() }

// tokio::fs::metadata(path) = stat(2), links followed: it reports a regular file / a directory exactly when the path
// resolves to one in the model, with the file's length; ENOENT only when nothing is there.
#[verifier::external_body]
async fn shim_tokio_stat(path: &PathBuf, Tracked(w): Tracked<&mut FsModel>) -> (r: std::result::Result<FsMetadata, io::Error>)
    ensures
        unchanged(old(w), final(w)),
        r matches Ok(m) ==> {
            &&& (m.s_fkind() is File <==> old(w).files.contains_key(path@))
            &&& (m.s_fkind() is Dir <==> old(w).dirs.contains(path@) && !old(w).files.contains_key(path@))
            &&& !(m.s_fkind() is Symlink)
            &&& (m.s_fkind() is File ==> m.s_len() as int == old(w).files[path@].len())
        },
        r matches Err(e) ==> (os_nf(e) ==> !old(w).files.contains_key(path@) && !old(w).dirs.contains(path@)),
{ unimplemented!() }

// tokio::fs::symlink_metadata(path) = lstat(2), links NOT followed.  Not called by the unchanged source: specified so
// that an edit from `metadata` to `symlink_metadata` is judged.  What it says relates to the model only one way: a path
// that resolves to a regular file is, seen by lstat, a regular file OR a symlink.
#[verifier::external_body]
async fn shim_tokio_lstat(path: &PathBuf, Tracked(w): Tracked<&mut FsModel>) -> (r: std::result::Result<FsMetadata, io::Error>)
    ensures
        unchanged(old(w), final(w)),
        r matches Ok(m) ==> {
            &&& (m.s_fkind() is File ==> old(w).files.contains_key(path@) && m.s_len() as int == old(w).files[path@].len())
            &&& (m.s_fkind() is Dir ==> old(w).dirs.contains(path@))
        },
        r matches Err(e) ==> (os_nf(e) ==> !old(w).files.contains_key(path@) && !old(w).dirs.contains(path@)),
{ unimplemented!() }

// tokio::fs::read_dir(path) = opendir(3): Ok only on a directory; the entries it will hand out are the raw listing of
// that directory in the current state, which is sound and complete for the model (listing_wf).
#[verifier::external_body]
async fn shim_tokio_read_dir(path: &PathBuf, Tracked(w): Tracked<&mut FsModel>) -> (r: std::result::Result<ReadDir, io::Error>)
    ensures
        unchanged(old(w), final(w)),
        r matches Ok(rd) ==> old(w).dirs.contains(path@) && rd.rem() == raw_listing(*old(w), path@)
            && listing_wf(*old(w), path@, rd.rem()),
        r matches Err(e) ==> (os_nf(e) ==> !old(w).files.contains_key(path@) && !old(w).dirs.contains(path@)),
{ unimplemented!() }

// tokio::fs::remove_file(path) = unlink(2): on Ok exactly that name is gone, on Err nothing changed (the same contract
// as localwrite_fs.rs::shim_tokio_remove_file, with the real std::io::Error as error type and the ENOENT clause).
#[verifier::external_body]
async fn shim_tokio_unlink(path: &PathBuf, Tracked(w): Tracked<&mut FsModel>) -> (r: std::result::Result<(), io::Error>)
    ensures
        final(w).dirs == old(w).dirs,
        r is Ok ==> old(w).files.contains_key(path@) && final(w).files == old(w).files.remove(path@),
        r is Err ==> final(w).files == old(w).files,
        r matches Err(e) ==> (os_nf(e) ==> !old(w).files.contains_key(path@) && !old(w).dirs.contains(path@)),
{ unimplemented!() }

// nothing at or below `p` is left
spec fn gone_under(m: &FsModel, p: Seq<char>) -> bool {
    forall|q: Seq<char>| #[trigger] is_under(p, q) ==> !m.files.contains_key(q) && !m.dirs.contains(q)
}
// everything that is not at or below `p` is exactly as before
spec fn same_outside(a: &FsModel, b: &FsModel, p: Seq<char>) -> bool {
    forall|q: Seq<char>| !#[trigger] is_under(p, q) ==> {
        &&& a.files.contains_key(q) == b.files.contains_key(q)
        &&& (a.files.contains_key(q) ==> a.files[q] == b.files[q])
        &&& a.dirs.contains(q) == b.dirs.contains(q)
    }
}
// at or below `p` things only disappear: whatever is still there was there, with the same bytes
spec fn only_removed_under(a: &FsModel, b: &FsModel, p: Seq<char>) -> bool {
    forall|q: Seq<char>| #[trigger] is_under(p, q) ==> {
        &&& (b.files.contains_key(q) ==> a.files.contains_key(q) && a.files[q] == b.files[q])
        &&& (b.dirs.contains(q) ==> a.dirs.contains(q))
    }
}

// tokio::fs::remove_dir_all(path) = std::fs::remove_dir_all: removes the directory after removing all its contents,
// never following a symlink; stops at the first failure (Err: the sub-tree is PARTLY gone).  It never creates or
// rewrites anything and never touches a name that is not at or below `path`.
#[verifier::external_body]
async fn shim_tokio_remove_dir_all(path: &PathBuf, Tracked(w): Tracked<&mut FsModel>) -> (r: std::result::Result<(), io::Error>)
    ensures
        same_outside(old(w), final(w), path@),
        only_removed_under(old(w), final(w), path@),
        r is Ok ==> gone_under(final(w), path@),
{ unimplemented!() }

// ---------- url::Url::join, std::path::absolute, Url::from_directory_path ----------
#[verifier::external_body]
struct UrlParseError { _p: () }
#[verifier::external]
impl std::fmt::Debug for UrlParseError {
    fn fmt(&self, f: &mut std::fmt::Formatter<'_>) -> std::fmt::Result { f.write_str("url parse error") }
}

// url 2.x accepts `rel` as a relative reference (fails e.g. on "//[" or "//h:port-that-is-no-number/")
uninterp spec fn url_joinable(rel: Seq<char>) -> bool;
// the directory a file: URL built by `from_directory_path` names
impl Url {
    #[verifier::external_body]
    fn join(&self, input: &str) -> (r: std::result::Result<Url, UrlParseError>)
        ensures url_joinable(input@) ==> r is Ok,
    { unimplemented!() }
}

// std::path::absolute(p): "Errors if the path is empty or the current directory cannot be determined" (the latter only
// matters for a relative path); on Ok the result is absolute.  url::Url::from_directory_path(p): Err(()) iff p is not
// absolute (Unix).
uninterp spec fn can_absolutize(p: Seq<char>) -> bool;
spec fn is_absolute_text(p: Seq<char>) -> bool { p.len() > 0 && p[0] == '/' }

#[verifier::external_body]
fn shim_path_absolute(p: &Path) -> (r: std::result::Result<PathBuf, io::Error>)
    ensures can_absolutize(p@) ==> (r matches Ok(a) && is_absolute_text(a@)),
{ unimplemented!() }

impl Url {
    #[verifier::external_body]
    fn from_directory_path(p: PathBuf) -> (r: std::result::Result<Url, ()>)
        ensures is_absolute_text(p@) ==> r is Ok,
    { unimplemented!() }
}

// std: `Option<Arc<T>>::clone` (a reference count; nothing any contract mentions)
#[verifier::external_body]
fn shim_opt_arc_clone<T>(x: &Option<std::sync::Arc<T>>) -> (r: Option<std::sync::Arc<T>>)
    ensures r == *x,
{ x.clone() }

// std: `Arc::clone`
#[verifier::external_body]
fn shim_arc_clone<T>(x: &std::sync::Arc<T>) -> (r: std::sync::Arc<T>)
    ensures r == *x,
{ std::sync::Arc::clone(x) }

// ---------- transport::Transport (src/transport.rs), the real declaration ----------
// R3/R11 type rewrite: `protocol: Arc<dyn Protocol + 'static>` becomes `Arc<Protocol>` with Protocol = the LOCAL back end
// (dynamic dispatch cannot be verified; what is proved about the wrappers is proved for a local archive).  The call
// recorder (`Arc<Mutex<Recording>>`, test-only) is opaque.
#[verifier::external_body]
struct RecordingCell { _p: () }

//@@ type src/transport.rs | struct Transport
//@ rewrite
[n=1] Arc<dyn Protocol + 'static> ==> Arc<Protocol>
[n=1] Arc<Mutex<Recording>> ==> Arc<RecordingCell>
//@@ end

// `sub_path` of a sub-transport, as Transport::chdir computes it (used by call recording only)
spec fn sub_join(s: Seq<char>, r: Seq<char>) -> Seq<char> {
    if r.len() == 0 { s } else if s.len() == 0 { r } else { s + seq!['/'] + r }
}

impl Transport {
    spec fn s_full_path(&self, relpath: Seq<char>) -> Seq<char> { self.protocol.s_full_path(relpath) }
}

// ---------- the function list_dir is proved against ----------
// what collect_tokio_dir_entry makes of one raw entry:
//   Ok(Some(v))  listed as v
//   Ok(None)     left out: a name that is not UTF-8, a symlink / special file, an entry that vanished
//   Err(())      the entry cannot be examined (a lookup fails with anything but NotFound): the LISTING fails
spec fn collect_spec(e: RawEnt) -> std::result::Result<Option<EntView>, ()> {
    match e.name {
        None => Ok(None),
        Some(n) => match e.ftype {
            Lookup::Ok(FKind::Dir) => Ok(Some((n, Kind::Dir, None::<u64>))),
            Lookup::Ok(FKind::File) => match e.stat_len {
                Lookup::Ok(l) => Ok(Some((n, Kind::File, Some(l)))),
                Lookup::Vanished => Ok(None),
                Lookup::Fault => Err(()),
            },
            Lookup::Ok(_) => Ok(None),
            Lookup::Vanished => Ok(None),
            Lookup::Fault => Err(()),
        },
    }
}

// every entry can be examined
spec fn no_fault(ents: Seq<RawEnt>) -> bool {
    forall|i: int| 0 <= i < ents.len() ==> collect_spec(#[trigger] ents[i]) is Ok
}

spec fn collected(ents: Seq<RawEnt>) -> Seq<EntView>
    decreases ents.len()
{
    if ents.len() == 0 { Seq::<EntView>::empty() }
    else {
        match collect_spec(ents.last()) {
            Ok(Some(v)) => collected(ents.drop_last()).push(v),
            _ => collected(ents.drop_last()),
        }
    }
}

// the raw entry is a symlink (d_type reading): the one kind of child of the model that a listing leaves out
spec fn symlink_entry(e: RawEnt) -> bool { e.ftype == Lookup::Ok(FKind::Symlink) }

// every listed entry is in the model, with its kind and (files) its length: nothing invented
spec fn entry_sound(m: FsModel, d: Seq<char>, v: EntView) -> bool {
    &&& is_name(v.0)
    &&& (v.1 == Kind::File || v.1 == Kind::Dir)
    &&& (v.1 == Kind::File ==> m.files.contains_key(pjoin(d, v.0)) && v.2 is Some
            && v.2->Some_0 as int == m.files[pjoin(d, v.0)].len())
    &&& (v.1 == Kind::Dir ==> m.dirs.contains(pjoin(d, v.0)) && v.2 is None)
}

proof fn lemma_collected_sound(m: FsModel, d: Seq<char>, ents: Seq<RawEnt>)
    requires forall|i: int| 0 <= i < ents.len() ==> raw_sound(m, d, #[trigger] ents[i]),
    ensures forall|j: int| 0 <= j < collected(ents).len() ==> entry_sound(m, d, #[trigger] collected(ents)[j]),
    decreases ents.len()
{
    if ents.len() > 0 {
        let p = ents.drop_last();
        assert forall|i: int| 0 <= i < p.len() implies raw_sound(m, d, #[trigger] p[i]) by {
            assert(p[i] == ents[i]);
        }
        lemma_collected_sound(m, d, p);
        assert(raw_sound(m, d, ents[ents.len() - 1]));
        assert(ents.last() == ents[ents.len() - 1]);
        assert forall|j: int| 0 <= j < collected(ents).len() implies entry_sound(m, d, #[trigger] collected(ents)[j]) by {
            if j < collected(p).len() {
                assert(collected(ents)[j] == collected(p)[j]);
            } else {
                assert(collect_spec(ents.last()) matches Ok(Some(_)));
                assert(collected(ents)[j] == collect_spec(ents.last())->Ok_0->Some_0);
            }
        }
    }
}

// an entry that collect_spec keeps is in the result
proof fn lemma_collected_has(ents: Seq<RawEnt>, i: int)
    requires 0 <= i < ents.len(), collect_spec(ents[i]) matches Ok(Some(_)),
    ensures collected(ents).contains(collect_spec(ents[i])->Ok_0->Some_0),
    decreases ents.len()
{
    let p = ents.drop_last();
    if i == ents.len() - 1 {
        let c = collected(ents);
        assert(c[c.len() - 1] == collect_spec(ents[i])->Ok_0->Some_0);
    } else {
        lemma_collected_has(p, i);
        assert(p[i] == ents[i]);
        let x = collect_spec(ents[i])->Ok_0->Some_0;
        let k = choose|k: int| 0 <= k < collected(p).len() && collected(p)[k] == x;
        assert(collected(ents)[k] == x);
    }
}

// none dropped: EVERY child of `d` in the model (a regular file or a directory under a UTF-8 name) is listed, with its
// kind and length -- unless its raw entry is a symlink (see the head of this file).  No "readable" side condition: an
// entry that cannot be examined makes the listing fail (no_fault), it is never left out.
spec fn listing_complete(m: FsModel, d: Seq<char>, vs: Seq<EntView>) -> bool {
    forall|n: Seq<char>| is_name(n) && !symlink_entry(raw_listing(m, d)[#[trigger] raw_index(m, d, n)]) ==> {
        &&& (m.files.contains_key(pjoin(d, n))
                ==> vs.contains((n, Kind::File, Some(m.files[pjoin(d, n)].len() as u64))))
        &&& (m.dirs.contains(pjoin(d, n)) && !m.files.contains_key(pjoin(d, n))
                ==> vs.contains((n, Kind::Dir, None::<u64>)))
    }
}
spec fn listing_sound(m: FsModel, d: Seq<char>, vs: Seq<EntView>) -> bool {
    forall|j: int| 0 <= j < vs.len() ==> entry_sound(m, d, #[trigger] vs[j])
}

proof fn lemma_listing_exact(m: FsModel, d: Seq<char>)
    requires listing_wf(m, d, raw_listing(m, d)), no_fault(raw_listing(m, d)),
    ensures
        listing_complete(m, d, collected(raw_listing(m, d))),
        listing_sound(m, d, collected(raw_listing(m, d))),
{
    let ents = raw_listing(m, d);
    lemma_collected_sound(m, d, ents);
    assert forall|n: Seq<char>| is_name(n) && !symlink_entry(ents[#[trigger] raw_index(m, d, n)]) implies ({
        &&& (m.files.contains_key(pjoin(d, n))
                ==> collected(ents).contains((n, Kind::File, Some(m.files[pjoin(d, n)].len() as u64))))
        &&& (m.dirs.contains(pjoin(d, n)) && !m.files.contains_key(pjoin(d, n))
                ==> collected(ents).contains((n, Kind::Dir, None::<u64>)))
    }) by {
        let i = raw_index(m, d, n);
        if m.files.contains_key(pjoin(d, n)) || m.dirs.contains(pjoin(d, n)) {
            assert(0 <= i < ents.len() && ents[i].name == Some(n));
            assert(raw_sound(m, d, ents[i]));
            assert(collect_spec(ents[i]) is Ok);
            assert(in_model(m, pjoin(d, n)));
            if m.files.contains_key(pjoin(d, n)) {
                assert(ents[i].ftype == Lookup::Ok(FKind::File));
                assert(ents[i].stat_len is Ok);
                let l = ents[i].stat_len->Ok_0;
                assert(l as int == m.files[pjoin(d, n)].len());
                assert(collect_spec(ents[i]) == Ok::<Option<EntView>, ()>(Some((n, Kind::File, Some(l)))));
                lemma_collected_has(ents, i);
            } else {
                assert(ents[i].ftype == Lookup::Ok(FKind::Dir));
                assert(collect_spec(ents[i]) == Ok::<Option<EntView>, ()>(Some((n, Kind::Dir, None::<u64>))));
                lemma_collected_has(ents, i);
            }
        }
    }
}
