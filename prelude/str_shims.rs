// ---- str_shims: ASSUMED contracts for std `str` functions that vstd does not specify (R4). ----
// Each body is the one-line forwarding call; only the contract is new.  Listed in the trusted base.

#[verifier::external_body]
struct SplitIter<'a> { inner: std::str::Split<'a, char> }

impl<'a> SplitIter<'a> {
    uninterp spec fn rem(&self) -> Seq<Seq<u8>>;

    #[verifier::external_body]
    fn next(&mut self) -> (r: Option<&'a str>)
        ensures
            old(self).rem().len() == 0 ==> r.is_none() && final(self).rem() == old(self).rem(),
            old(self).rem().len() > 0 ==> r.is_some() && r.unwrap().spec_bytes() == old(self).rem()[0]
                && final(self).rem() == old(self).rem().skip(1),
    { self.inner.next() }
}

// std: `str::split(char)` yields the substrings between separators (at least one item).
#[verifier::external_body]
fn shim_split<'a>(s: &'a str, c: char) -> (r: SplitIter<'a>)
    requires c == '/',
    ensures r.rem() == split_spec(s.spec_bytes(), 0x2f),
{ SplitIter { inner: s.split(c) } }

// std: `impl Ord for str` is byte-wise lexicographic.
#[verifier::external_body]
fn shim_str_cmp(a: &str, b: &str) -> (r: Ordering)
    ensures r == lex_cmp(a.spec_bytes(), b.spec_bytes()),
{ a.cmp(b) }

// std: `str == str` is byte equality.
#[verifier::external_body]
fn shim_str_eq(a: &str, b: &str) -> (r: bool)
    ensures r == (a.spec_bytes() == b.spec_bytes()),
{ a == b }

// std: `str::starts_with(char)` for an ASCII char: first byte equals it.
#[verifier::external_body]
fn shim_starts_with_char(s: &str, c: char) -> (r: bool)
    requires (c as u32) < 0x80,
    ensures r == (s.spec_bytes().len() > 0 && s.spec_bytes()[0] == c as u8),
{ s.starts_with(c) }

#[verifier::external_body]
fn shim_ends_with_char(s: &str, c: char) -> (r: bool)
    requires (c as u32) < 0x80,
    ensures r == (s.spec_bytes().len() > 0 && s.spec_bytes().last() == c as u8),
{ s.ends_with(c) }

// std: `str::contains(char)` for an ASCII char: some byte equals it (ASCII bytes never occur inside
// a multi-byte UTF-8 sequence).
#[verifier::external_body]
fn shim_contains_char(s: &str, c: char) -> (r: bool)
    requires (c as u32) < 0x80,
    ensures r == s.spec_bytes().contains(c as u8),
{ s.contains(c) }

// std: `str::starts_with(&str)`: byte prefix.
#[verifier::external_body]
fn shim_starts_with_str(s: &str, p: &str) -> (r: bool)
    ensures r == is_byte_prefix(p.spec_bytes(), s.spec_bytes()),
{ s.starts_with(p) }

// std: `s.chars().nth(n)`: the n-th *character* (Unicode scalar), not the n-th byte.
#[verifier::external_body]
fn shim_chars_nth(s: &str, n: usize) -> (r: Option<char>)
    ensures r == (if n < s@.len() { Some(s@[n as int]) } else { None }),
{ s.chars().nth(n) }

// std: `String::len` is the length in bytes of the UTF-8 encoding (always fits usize).
pub assume_specification[ String::len ](s: &String) -> (r: usize)
    ensures r as int == vstd::utf8::encode_utf8(s@).len();

// std: `String::as_bytes` is the UTF-8 encoding.
pub assume_specification[ String::as_bytes ](s: &String) -> (r: &[u8])
    ensures r@ == vstd::utf8::encode_utf8(s@);

// std: `&s[1..]` when the first byte is ASCII (so that 1 is a char boundary): the bytes after the first.
// (std panics iff 1 is not a char boundary; the precondition states the no-panic condition.)
#[verifier::external_body]
fn shim_str_tail1(s: &str) -> (r: &str)
    requires s.spec_bytes().len() >= 1, s.spec_bytes()[0] < 0x80,
    ensures r.spec_bytes() == s.spec_bytes().skip(1),
{ &s[1..] }

proof fn lemma_dot_bytes()
    ensures ".".spec_bytes() == seq![0x2eu8], "..".spec_bytes() == seq![0x2eu8, 0x2eu8],
{
    reveal_strlit(".");
    reveal_strlit("..");
    vstd::utf8::is_ascii_chars_encode_utf8("."@);
    vstd::utf8::is_ascii_chars_encode_utf8(".."@);
    assert(".".spec_bytes() =~= seq![0x2eu8]);
    assert("..".spec_bytes() =~= seq![0x2eu8, 0x2eu8]);
}

// std: `str::len` is the byte length (vstd's own spec clips it to usize; a str always fits).
#[verifier::external_body]
fn shim_str_len(s: &str) -> (r: usize)
    ensures r as int == s.spec_bytes().len(),
{ s.len() }

proof fn lemma_slash_bytes()
    ensures "/".spec_bytes() == seq![0x2fu8], vstd::utf8::encode_utf8(seq!['/']) == seq![0x2fu8],
{
    reveal_strlit("/");
    vstd::utf8::is_ascii_chars_encode_utf8("/"@);
    assert("/"@ =~= seq!['/']);
    assert("/".spec_bytes() =~= seq![0x2fu8]);
}
