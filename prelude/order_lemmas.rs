// ---- order_lemmas: lex_cmp, seq_lex_cmp and doc_cmp are total orders (pure spec math; C11) ----
// requires apath_spec.rs

spec fn flip(o: Ordering) -> Ordering {
    match o { Ordering::Less => Ordering::Greater, Ordering::Equal => Ordering::Equal, Ordering::Greater => Ordering::Less }
}

proof fn lemma_lex_eq(a: Seq<u8>, b: Seq<u8>)
    ensures (lex_cmp(a, b) == Ordering::Equal) <==> (a == b),
    decreases a.len()
{
    if a.len() == 0 || b.len() == 0 {
        if a.len() == 0 && b.len() == 0 { assert(a =~= b); }
    } else if a[0] == b[0] {
        lemma_lex_eq(a.skip(1), b.skip(1));
        if a.skip(1) == b.skip(1) {
            assert(a =~= seq![a[0]] + a.skip(1));
            assert(b =~= seq![b[0]] + b.skip(1));
        }
        if a == b { assert(a.skip(1) =~= b.skip(1)); }
    } else {
        assert(a != b);
    }
}

proof fn lemma_lex_flip(a: Seq<u8>, b: Seq<u8>)
    ensures lex_cmp(b, a) == flip(lex_cmp(a, b)),
    decreases a.len()
{
    if a.len() > 0 && b.len() > 0 && a[0] == b[0] { lemma_lex_flip(a.skip(1), b.skip(1)); }
}

proof fn lemma_lex_trans(a: Seq<u8>, b: Seq<u8>, c: Seq<u8>)
    requires lex_cmp(a, b) != Ordering::Greater, lex_cmp(b, c) != Ordering::Greater,
    ensures lex_cmp(a, c) != Ordering::Greater,
        (lex_cmp(a, b) == Ordering::Less || lex_cmp(b, c) == Ordering::Less) ==> lex_cmp(a, c) == Ordering::Less,
    decreases a.len()
{
    if a.len() > 0 && b.len() > 0 && c.len() > 0 && a[0] == b[0] && b[0] == c[0] {
        lemma_lex_trans(a.skip(1), b.skip(1), c.skip(1));
    }
}

proof fn lemma_seqlex_eq(a: Seq<Seq<u8>>, b: Seq<Seq<u8>>)
    ensures (seq_lex_cmp(a, b) == Ordering::Equal) <==> (a == b),
    decreases a.len()
{
    if a.len() == 0 || b.len() == 0 {
        if a.len() == 0 && b.len() == 0 { assert(a =~= b); }
    } else {
        lemma_lex_eq(a[0], b[0]);
        if lex_cmp(a[0], b[0]) == Ordering::Equal {
            lemma_seqlex_eq(a.skip(1), b.skip(1));
            if a.skip(1) == b.skip(1) {
                assert(a =~= seq![a[0]] + a.skip(1));
                assert(b =~= seq![b[0]] + b.skip(1));
            }
            if a == b { assert(a.skip(1) =~= b.skip(1)); }
        } else {
            assert(a != b);
        }
    }
}

proof fn lemma_seqlex_flip(a: Seq<Seq<u8>>, b: Seq<Seq<u8>>)
    ensures seq_lex_cmp(b, a) == flip(seq_lex_cmp(a, b)),
    decreases a.len()
{
    if a.len() > 0 && b.len() > 0 {
        lemma_lex_flip(a[0], b[0]);
        if lex_cmp(a[0], b[0]) == Ordering::Equal { lemma_seqlex_flip(a.skip(1), b.skip(1)); }
    }
}

proof fn lemma_seqlex_trans(a: Seq<Seq<u8>>, b: Seq<Seq<u8>>, c: Seq<Seq<u8>>)
    requires seq_lex_cmp(a, b) != Ordering::Greater, seq_lex_cmp(b, c) != Ordering::Greater,
    ensures seq_lex_cmp(a, c) != Ordering::Greater,
        (seq_lex_cmp(a, b) == Ordering::Less || seq_lex_cmp(b, c) == Ordering::Less) ==> seq_lex_cmp(a, c) == Ordering::Less,
    decreases a.len()
{
    if a.len() > 0 && b.len() > 0 && c.len() > 0 {
        lemma_lex_eq(a[0], b[0]);
        lemma_lex_eq(b[0], c[0]);
        lemma_lex_eq(a[0], c[0]);
        if lex_cmp(a[0], b[0]) == Ordering::Equal && lex_cmp(b[0], c[0]) == Ordering::Equal {
            lemma_seqlex_trans(a.skip(1), b.skip(1), c.skip(1));
        } else {
            lemma_lex_trans(a[0], b[0], c[0]);
        }
    }
}

// ---- the documented order is a strict total order on component sequences (len >= 1) ----

proof fn lemma_doc_eq(a: Seq<Seq<u8>>, b: Seq<Seq<u8>>)
    requires a.len() >= 1, b.len() >= 1,
    ensures (doc_cmp(a, b) == Ordering::Equal) <==> (a == b), //# C11.equal_iff_same_path
{
    lemma_seqlex_eq(a.drop_last(), b.drop_last());
    lemma_lex_eq(a.last(), b.last());
    if a.drop_last() == b.drop_last() && a.last() == b.last() {
        assert(a =~= a.drop_last().push(a.last()));
        assert(b =~= b.drop_last().push(b.last()));
    }
}

proof fn lemma_doc_flip(a: Seq<Seq<u8>>, b: Seq<Seq<u8>>)
    requires a.len() >= 1, b.len() >= 1,
    ensures doc_cmp(b, a) == flip(doc_cmp(a, b)), //# C11.order_antisymmetric_and_total
{
    lemma_seqlex_flip(a.drop_last(), b.drop_last());
    lemma_lex_flip(a.last(), b.last());
}

proof fn lemma_doc_trans(a: Seq<Seq<u8>>, b: Seq<Seq<u8>>, c: Seq<Seq<u8>>)
    requires a.len() >= 1, b.len() >= 1, c.len() >= 1,
        doc_cmp(a, b) != Ordering::Greater, doc_cmp(b, c) != Ordering::Greater,
    ensures doc_cmp(a, c) != Ordering::Greater, //# C11.order_transitive
        (doc_cmp(a, b) == Ordering::Less || doc_cmp(b, c) == Ordering::Less) ==> doc_cmp(a, c) == Ordering::Less, //# C11.order_transitive
{
    let (da, db, dc) = (a.drop_last(), b.drop_last(), c.drop_last());
    lemma_seqlex_eq(da, db);
    lemma_seqlex_eq(db, dc);
    lemma_seqlex_eq(da, dc);
    lemma_seqlex_trans(da, db, dc);
    if seq_lex_cmp(da, db) == Ordering::Equal && seq_lex_cmp(db, dc) == Ordering::Equal {
        lemma_lex_trans(a.last(), b.last(), c.last());
    }
}

// equal strings <=> equal apaths (C11: "equal paths and only equal paths compare equal")
proof fn lemma_split_injective(s: Seq<u8>, t: Seq<u8>, sep: u8)
    requires split_spec(s, sep) == split_spec(t, sep),
    ensures s == t,
    decreases s.len()
{
    lemma_split_nonempty(s, sep);
    lemma_split_nonempty(t, sep);
    if s.len() == 0 {
        if t.len() > 0 {
            // split(t) has either >1 pieces or a non-empty last piece
            lemma_split_nonempty(t.drop_last(), sep);
            if t.last() == sep {
                assert(split_spec(t, sep).len() >= 2);
            } else {
                assert(split_spec(t, sep).last().len() >= 1);
            }
        }
    } else if t.len() == 0 {
        lemma_split_nonempty(s.drop_last(), sep);
        if s.last() == sep {
            assert(split_spec(s, sep).len() >= 2);
        } else {
            assert(split_spec(s, sep).last().len() >= 1);
        }
    } else {
        let ps = split_spec(s.drop_last(), sep);
        let pt = split_spec(t.drop_last(), sep);
        lemma_split_nonempty(s.drop_last(), sep);
        lemma_split_nonempty(t.drop_last(), sep);
        // last piece empty <=> string ends with sep
        lemma_split_pieces_no_sep(s.drop_last(), sep);
        lemma_split_pieces_no_sep(t.drop_last(), sep);
        if s.last() == sep {
            assert(split_spec(s, sep).last().len() == 0);
            if t.last() != sep { assert(split_spec(t, sep).last().len() >= 1); }
            assert(t.last() == sep);
            assert(ps =~= split_spec(s, sep).drop_last());
            assert(pt =~= split_spec(t, sep).drop_last());
            lemma_split_injective(s.drop_last(), t.drop_last(), sep);
        } else {
            assert(split_spec(s, sep).last().len() >= 1);
            if t.last() == sep { assert(split_spec(t, sep).last().len() == 0); }
            assert(t.last() != sep);
            let ls = split_spec(s, sep).last();
            let lt = split_spec(t, sep).last();
            assert(ls == ps.last().push(s.last()));
            assert(lt == pt.last().push(t.last()));
            assert(ls.last() == s.last() && lt.last() == t.last());
            assert(ps.last() =~= ls.drop_last());
            assert(pt.last() =~= lt.drop_last());
            assert(ps.drop_last() =~= split_spec(s, sep).drop_last());
            assert(pt.drop_last() =~= split_spec(t, sep).drop_last());
            assert(ps =~= ps.drop_last().push(ps.last()));
            assert(pt =~= pt.drop_last().push(pt.last()));
            lemma_split_injective(s.drop_last(), t.drop_last(), sep);
        }
        assert(s =~= s.drop_last().push(s.last()));
        assert(t =~= t.drop_last().push(t.last()));
    }
}

proof fn lemma_split_pieces_no_sep(s: Seq<u8>, sep: u8)
    ensures forall|i: int| 0 <= i < split_spec(s, sep).len() ==> !(#[trigger] split_spec(s, sep)[i]).contains(sep),
    decreases s.len()
{
    if s.len() == 0 {
    } else {
        lemma_split_pieces_no_sep(s.drop_last(), sep);
        lemma_split_nonempty(s.drop_last(), sep);
        let p = split_spec(s.drop_last(), sep);
        if s.last() != sep {
            let q = p.last().push(s.last());
            assert(!q.contains(sep)) by {
                if q.contains(sep) {
                    let i = choose|i: int| 0 <= i < q.len() && q[i] == sep;
                    if i < p.last().len() { assert(p.last()[i] == sep); assert(p.last().contains(sep)); }
                }
            }
        }
    }
}

proof fn lemma_apath_cmp_equal_iff_same_string(a: Seq<char>, b: Seq<char>)
    ensures (apath_cmp(a, b) == Ordering::Equal) <==> (a == b), //# C11.equal_iff_same_path
{
    lemma_split_nonempty(bytes_of(a), SLASH);
    lemma_split_nonempty(bytes_of(b), SLASH);
    lemma_doc_eq(str_comps(a), str_comps(b));
    if str_comps(a) == str_comps(b) {
        lemma_split_injective(bytes_of(a), bytes_of(b), SLASH);
        lemma_bytes_injective(a, b);
    }
}
