// ---- blockdir_shims: ASSUMED contracts of what BlockDir is built on (rules R3, R4, R5, R9) ----
// Every item here is trusted; each says what real thing it abstracts.  Bodies are never verified.

// ---------- bytes 1.x `Bytes`: an immutable byte sequence (R3) ----------
#[verifier::external_body]
pub struct Bytes { inner: Vec<u8> }

impl Bytes {
    pub uninterp spec fn view(&self) -> Seq<u8>;

    // bytes: `Bytes::len`
    #[verifier::external_body]
    fn len(&self) -> (r: usize)
        ensures r as int == self@.len(),
    { self.inner.len() }

    // bytes: `Bytes::slice(range)` panics unless `begin <= end <= len`; returns those bytes.
    #[verifier::external_body]
    fn slice(&self, range: core::ops::Range<usize>) -> (r: Bytes)
        requires
            range.start <= range.end, //# C10.slice_in_bounds
            range.end as int <= self@.len(), //# C10.slice_in_bounds
        ensures r@ == self@.subrange(range.start as int, range.end as int),
    { Bytes { inner: self.inner[range].to_vec() } }
}

// bytes: `impl Deref<Target=[u8]> for Bytes`
impl core::ops::Deref for Bytes {
    type Target = [u8];
    #[verifier::external_body]
    fn deref(&self) -> (r: &[u8])
        ensures r@ == self@,
    { &self.inner[..] }
}

// bytes: `Clone` is a copy of the value
impl Clone for Bytes {
    #[verifier::external_body]
    fn clone(&self) -> (r: Self)
        ensures r@ == self@,
    { Bytes { inner: self.inner.clone() } }
}

// ---------- blake2_rfc / hex: BlockHash::hash_bytes, Display (src/blockhash.rs; R3, R10) ----------
impl BlockHash {
    // `BlockHash::from(blake2b(64, &[], bytes))`: BLAKE2b-512 of the bytes (deterministic; assumed collision-free
    // in store_spec.rs).
    #[verifier::external_body]
    fn hash_bytes(bytes: &[u8]) -> (r: BlockHash)
        ensures r@ == hash_of(bytes@),
    { unimplemented!() }

    // `impl Display for BlockHash` = `hex::encode(&self.bin[..])`; `to_string()` is std's blanket ToString.
    #[verifier::external_body]
    fn to_string(&self) -> (r: String)
        ensures sbytes(r@) == hex(self@),
    { unimplemented!() }
}

// `impl PartialEq for BlockHash` = `self.bin[..] == other.bin[..]` (call-site redirection of `a != b`, R4)
#[verifier::external_body]
fn hash_eq(a: &BlockHash, b: &BlockHash) -> (r: bool)
    ensures r == (a@ == b@),
{ a.bin[..] == b.bin[..] }

// ---------- std str / format! (R4, R5) ----------
// std: `&s[..n]` panics unless n <= len and n is a char boundary; for an all-ASCII string every index is one.
#[verifier::external_body]
fn shim_str_prefix(s: &str, n: usize) -> (r: &str)
    requires
        n as int <= s.spec_bytes().len(), //# C10.subdir_slice_in_bounds
        ascii(s.spec_bytes()), //# C10.subdir_slice_on_char_boundary
    ensures r.spec_bytes() == s.spec_bytes().subrange(0, n as int),
{ &s[..n] }

// std: `format!("{}/{}", a, b)` is a, '/', b concatenated.
#[verifier::external_body]
fn shim_fmt_slash(a: &str, b: &str) -> (r: String)
    ensures sbytes(r@) == a.spec_bytes().push(SLASH_B) + b.spec_bytes(),
{ format!("{}/{}", a, b) }

// ---------- errors (R5: payload content is never mentioned by a contract; discriminants are kept) ----------
#[verifier::external_body]
struct OpaqueError { inner: u8 }

// transport::Error
#[verifier::external_body]
struct TransportError { inner: u8 }

// crate::Error: only the variants the extracted bodies construct are spelled out; all others are `Other`.
enum Error {
    BlockCorrupt { hash: BlockHash },
    BlockTooShort { hash: BlockHash, actual_len: usize, referenced_len: usize },
    Other(OpaqueError),
}

// crate::Result
type Result<T> = std::result::Result<T, Error>;

// `#[from] transport::Error` on crate::Error::Transport
impl From<TransportError> for Error {
    #[verifier::external_body]
    fn from(e: TransportError) -> (r: Error)
    { unimplemented!() }
}

// ---------- src/compress/snappy.rs over crate `snap` (R3) ----------
#[verifier::external_body]
struct Compressor { inner: u8 }

impl Compressor {
    #[verifier::external_body]
    fn new() -> Compressor { unimplemented!() }

    // snap `Encoder::compress`: deterministic; errors only for inputs over 4 GiB.
    #[verifier::external_body]
    fn compress(&mut self, input: &[u8]) -> (r: Result<Bytes>)
        ensures r is Ok ==> r->Ok_0@ == snappy(input@),
    { unimplemented!() }
}

#[verifier::external_body]
struct Decompressor { inner: u8 }

impl Decompressor {
    #[verifier::external_body]
    fn new() -> Decompressor { unimplemented!() }

    // snap `Decoder::decompress`: on arbitrary (possibly damaged) input it returns either an error or whatever
    // the stream decodes to.  Nothing relates the output to any stored content except through the hash check.
    // ASSUMED (C10): returns Err rather than panicking on garbage.
    #[verifier::external_body]
    fn decompress(&mut self, input: &[u8]) -> (r: Result<Bytes>)
        ensures r is Ok ==> snappy_decodes(input@, r->Ok_0@),
    { unimplemented!() }
}

// ---------- monitor (R1: counting calls are dropped; the parameter stays) ----------
trait Monitor { }

// ---------- transport (R3): the block directory's Transport instance ----------
//@@ type src/transport.rs | enum WriteMode derive=Clone,Copy
//@@ end

#[verifier::external_body]
struct Metadata { inner: u8 }

#[verifier::external_body]
struct Transport { inner: u8 }

impl Transport {
    // Create a directory (and parents); Ok if it already exists.  In this unit every directory created through
    // the block directory's transport is the three-hex-digit subdirectory of a block that was looked up and found
    // absent ("Storing existing block should do no IO").
    #[verifier::external_body]
    async fn create_dir(&self, relpath: &str) -> (r: std::result::Result<(), TransportError>)
        requires subdir_create_ok(relpath.spec_bytes()), //# C14.no_io_when_present,C13.block_subdir
    { unimplemented!() }

    // Write a whole file.  Ok means the file now holds exactly `content` (DESIGN 4.3).  Preconditions: what the
    // block directory may write, and how (C07: backup-path writes are create-new).
    #[verifier::external_body]
    async fn write(&self, relpath: &str, content: &[u8], mode: WriteMode) -> (r: std::result::Result<(), TransportError>)
        requires
            mode == WriteMode::CreateNew, //# C07.backup_writes_are_create_new
            block_write_ok(relpath.spec_bytes(), content@), //# C13.block_named_by_hash_of_uncompressed_content,C07.block_written_only_if_absent,C14.no_write_when_present
        ensures r is Ok ==> stored(relpath.spec_bytes(), content@),
    { unimplemented!() }

    // Read a whole file.  Ok means the file held exactly these bytes when read.
    #[verifier::external_body]
    async fn read(&self, path: &str) -> (r: std::result::Result<Bytes, TransportError>)
        ensures r is Ok ==> stored(path.spec_bytes(), r->Ok_0@),
    { unimplemented!() }

    // Delete a file: a guarded destructive primitive (DESIGN 4.4).
    #[verifier::external_body]
    async fn remove_file(&self, relpath: &str) -> (r: std::result::Result<(), TransportError>)
        requires removal_ok(relpath.spec_bytes()), //# C05.remove_only_planned_block_after_forgetting
    { unimplemented!() }

    #[verifier::external_body]
    async fn metadata(&self, relpath: &str) -> (r: std::result::Result<Metadata, TransportError>)
    { unimplemented!() }
}

// ---------- R9 lock erasure: RwLock<HashSet<BlockHash>> and RwLock<LruCache<BlockHash, Bytes>> ----------
// `self.exists.read().unwrap()` / `.write().unwrap()` / `self.cache.write().expect("Lock cache")` are erased
// (ASSUMED: the locks are never poisoned - no holder panics - and one task runs at a time), leaving a direct
// method call on the shim.  The lock invariant (DESIGN 4.5) is carried by the method contracts.

// the present-set.  Invariant: every member is a stored block.
#[verifier::external_body]
struct ExistsSet { inner: u8 }

impl ExistsSet {
    // recorded(h): h has been observed to be, or been made, a member of this set (positive knowledge).
    uninterp spec fn recorded(&self, h: Seq<u8>) -> bool;

    // HashSet::contains
    #[verifier::external_body]
    fn contains(&self, h: &BlockHash) -> (r: bool)
        ensures
            r ==> has_block(h@) && self.recorded(h@),
            !r ==> looked_up_absent(h@),
    { unimplemented!() }

    // HashSet::insert under the write lock
    #[verifier::external_body]
    fn insert(&self, h: BlockHash) -> (r: bool)
        requires has_block(h@), //# C04.caches_only_after_successful_write,C03.present_set_sound
        ensures self.recorded(h@),
    { unimplemented!() }

    // HashSet::remove under the write lock
    #[verifier::external_body]
    fn remove(&self, h: &BlockHash) -> (r: bool)
        ensures forgotten_in_set(h@),
    { unimplemented!() }
}

// the content cache.  Invariant: an entry under key h holds the content whose hash is h, and h is a stored block.
#[verifier::external_body]
struct BlockCache { inner: u8 }

impl BlockCache {
    // LruCache::put under the write lock
    #[verifier::external_body]
    fn put(&self, h: BlockHash, data: Bytes) -> (r: Option<Bytes>)
        requires
            hash_of(data@) == h@, //# C10.cache_holds_verified_content
            has_block(h@), //# C04.caches_only_after_successful_write
    { unimplemented!() }

    // LruCache::get under the write lock
    #[verifier::external_body]
    fn get(&self, h: &BlockHash) -> (r: Option<&Bytes>)
        ensures r is Some ==> hash_of(r->Some_0@) == h@ && has_block(h@),
    { unimplemented!() }

    // LruCache::pop under the write lock
    #[verifier::external_body]
    fn pop(&self, h: &BlockHash) -> (r: Option<Bytes>)
        ensures forgotten_in_cache(h@),
    { unimplemented!() }
}

// AtomicUsize statistics of BlockDirStats: pure counters (R1), never read by a contract.
#[verifier::external_body]
struct OpaqueCounter { inner: u8 }

// std::time::Duration inside BackupStats: never touched here.
#[verifier::external_body]
struct OpaqueDuration { inner: u8 }

//@@ type src/blockdir.rs | struct BlockDirStats
//@ rewrite
[n=*] AtomicUsize ==> OpaqueCounter
//@@ end

//@@ type src/blockdir.rs | struct BlockDir
//@ rewrite
[n=1] RwLock<LruCache<BlockHash, Bytes>> ==> BlockCache
[n=1] RwLock<HashSet<BlockHash>> ==> ExistsSet
//@@ end

//@@ type src/backup.rs | struct BackupStats
//@ rewrite
[n=*] Duration ==> OpaqueDuration
//@@ end
