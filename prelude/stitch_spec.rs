// ---- stitch_spec: the stitched listing of a version (C08), written from the property statement ----
// "listing version N yields N's own entries and, if N is incomplete, continues with the entries of the nearest
//  earlier existing version that sort after the last path taken so far, recursively, stopping at the first complete
//  version or when no earlier version exists."  Then: "for every N and every subtree/exclusion filter".
// requires stitch_types.rs, order_lemmas.rs, hunkiter_spec.rs

// the nearest earlier existing version
spec fn prev_existing(a: Archive, n: u32) -> Option<u32>
    decreases n
{
    if n == 0 { None }
    else if a.m_exists((n - 1) as u32) { Some((n - 1) as u32) }
    else { prev_existing(a, (n - 1) as u32) }
}

// ... which is: the greatest existing id below n, or none (validation of the definition against the statement)
proof fn lemma_prev_existing_greatest_below(a: Archive, n: u32)
    ensures
        match prev_existing(a, n) {
            Some(p) => p < n && a.m_exists(p) && forall|q: u32| p < q < n ==> !a.m_exists(q),
            None => forall|q: u32| q < n ==> !a.m_exists(q),
        },
    decreases n
{
    if n > 0 { lemma_prev_existing_greatest_below(a, (n - 1) as u32); }
}

// version `id`'s own entries that sort after `after` (nothing if the version cannot be opened)
spec fn band_entries(a: Archive, id: u32, after: Option<Seq<char>>) -> Seq<IndexEntry> {
    if a.m_opens(id) { flat_remaining(a.m_view(id), a.m_listing(id), after) } else { Seq::<IndexEntry>::empty() }
}

// "the last path taken so far"
spec fn last_taken(s: Seq<IndexEntry>, after: Option<Seq<char>>) -> Option<Seq<char>> {
    if s.len() > 0 { Some(s.last().apath@) } else { after }
}

// THE STITCHED LISTING of version `id`, resuming after `after`, before the subtree/exclusion filter
spec fn stitch(a: Archive, id: u32, after: Option<Seq<char>>) -> Seq<IndexEntry>
    decreases id
{
    let own = band_entries(a, id, after);
    own + (if a.m_closed(id) { Seq::<IndexEntry>::empty() } else {
        match prev_existing(a, id) {
            Some(p) => if p < id { stitch(a, p, last_taken(own, after)) } else { Seq::<IndexEntry>::empty() },
            None => Seq::<IndexEntry>::empty(),
        }
    })
}

// what follows version `id` once its own entries are exhausted and `last` is the last path taken
spec fn stitch_after(a: Archive, id: u32, last: Option<Seq<char>>) -> Seq<IndexEntry> {
    if a.m_closed(id) { Seq::<IndexEntry>::empty() } else {
        match prev_existing(a, id) {
            Some(p) => if p < id { stitch(a, p, last) } else { Seq::<IndexEntry>::empty() },
            None => Seq::<IndexEntry>::empty(),
        }
    }
}

// C12 + C15: the selection applied to the stitched listing: under `subtree` by whole components, and not excluded
spec fn sel_pred(subtree: Seq<u8>, ex: Exclude) -> spec_fn(IndexEntry) -> bool {
    |e: IndexEntry| under(subtree, e.apath.bytes()) && !ex.excluded(e.apath@)
}

// THE LISTING of version `id` restricted to `subtree` minus exclusions (what Archive::iter_entries promises)
spec fn listing_spec(a: Archive, id: u32, subtree: Seq<u8>, ex: Exclude) -> Seq<IndexEntry> {
    stitch(a, id, None).filter(sel_pred(subtree, ex))
}

// ---------------- archive well-formedness assumed by the listing (C13's guarantee) ----------------

spec fn entries_valid(s: Seq<IndexEntry>) -> bool {
    forall|k: int| 0 <= k < s.len() ==> (#[trigger] s[k]).apath.valid()
}

spec fn view_valid(view: HunkView) -> bool {
    forall|n: u32| #[trigger] view.contains_key(n) ==> (view[n] matches Ok(es) ==> entries_valid(es))
}

spec fn arch_wf(a: Archive) -> bool {
    forall|id: u32| hunks_wf(#[trigger] a.m_view(id), a.m_listing(id)) && view_valid(a.m_view(id))
}

// ---------------- what a Stitch still has to yield, by state ----------------

spec fn rem_in(a: Archive, id: u32, buf: Seq<IndexEntry>, hview: HunkView, hrem: Seq<u32>, hafter: Option<Seq<char>>,
               last: Option<Seq<char>>) -> Seq<IndexEntry> {
    let cur = buf + flat_remaining(hview, hrem, hafter);
    cur + stitch_after(a, id, last_taken(cur, last))
}

spec fn rem_state(a: Archive, st: State, last: Option<Seq<char>>) -> Seq<IndexEntry> {
    match st {
        State::Done => Seq::<IndexEntry>::empty(),
        State::BeforeBand(b) => stitch(a, b.0, last),
        State::InBand { band_id, buffered_entries, index_hunks } =>
            rem_in(a, band_id.0, buffered_entries.rem(), index_hunks.index.view(), index_hunks.hunks.rem(),
                   opt_apath_view(index_hunks.after), last),
        State::AfterBand(b) => stitch_after(a, b.0, last),
    }
}

// state invariant: the hunk iterator's archive is well-formed, buffered entries are valid, and `last_apath` is the
// last entry of the most recently loaded non-empty hunk
spec fn state_wf(st: State, last: Option<Seq<char>>) -> bool {
    match st {
        State::InBand { band_id, buffered_entries, index_hunks } => {
            &&& hunks_wf(index_hunks.index.view(), index_hunks.hunks.rem())
            &&& view_valid(index_hunks.index.view())
            &&& entries_valid(buffered_entries.rem())
            &&& (buffered_entries.rem().len() > 0 ==> last == Some(buffered_entries.rem().last().apath@))
        },
        _ => true,
    }
}

// C10: a band that failed to open is never passed over silently: state AfterBand(b) is only reached after b was
// opened or its failure was reported
spec fn state_reported(a: Archive, st: State) -> bool {
    match st {
        State::InBand { band_id, buffered_entries, index_hunks } => a.m_opens(band_id.0),
        State::AfterBand(b) => a.m_opens(b.0) || open_failure_reported(a, b.0),
        _ => true,
    }
}

// termination measure: (band id, state rank, hunks left, buffered left), lexicographic
spec fn state_rank(st: State) -> (nat, nat, nat, nat) {
    match st {
        State::Done => (0, 0, 0, 0),
        State::BeforeBand(b) => (b.0 as nat, 3, 0, 0),
        State::InBand { band_id, buffered_entries, index_hunks } =>
            (band_id.0 as nat, 2, index_hunks.hunks.rem().len(), buffered_entries.rem().len()),
        State::AfterBand(b) => (b.0 as nat, 1, 0, 0),
    }
}

impl Stitch {
    spec fn last_view(&self) -> Option<Seq<char>> { opt_apath_view(self.last_apath) }

    spec fn wf(&self) -> bool {
        &&& self.subtree.valid()
        &&& arch_wf(self.archive)
        &&& state_wf(self.state, self.last_view())
    }

    // the entries still to be yielded
    spec fn remaining(&self) -> Seq<IndexEntry> {
        rem_state(self.archive, self.state, self.last_view()).filter(sel_pred(self.subtree.bytes(), self.exclude))
    }
}

// ---------------- lemmas ----------------

proof fn lemma_filter_cons(e: IndexEntry, rest: Seq<IndexEntry>, p: spec_fn(IndexEntry) -> bool)
    ensures (seq![e] + rest).filter(p) == (if p(e) { seq![e] + rest.filter(p) } else { rest.filter(p) }),
{
    Seq::filter_distributes_over_add(seq![e], rest, p);
    reveal(Seq::filter);
    assert(seq![e] =~= Seq::<IndexEntry>::empty().push(e));
    assert(Seq::<IndexEntry>::empty().filter(p) =~= Seq::<IndexEntry>::empty());
    assert(seq![e].drop_last() =~= Seq::<IndexEntry>::empty());
    if p(e) {
        assert(seq![e].filter(p) =~= seq![e]);
    } else {
        assert(seq![e].filter(p) =~= Seq::<IndexEntry>::empty());
        assert(Seq::<IndexEntry>::empty() + rest.filter(p) =~= rest.filter(p));
    }
}

// a property of every element of a sequence also holds for every element of any filtering of it
proof fn lemma_filter_all(es: Seq<IndexEntry>, p: spec_fn(IndexEntry) -> bool, q: spec_fn(IndexEntry) -> bool)
    requires forall|k: int| 0 <= k < es.len() ==> q(#[trigger] es[k]),
    ensures forall|k: int| 0 <= k < es.filter(p).len() ==> q(#[trigger] es.filter(p)[k]),
    decreases es.len()
{
    reveal(Seq::filter);
    if es.len() > 0 {
        let init = es.drop_last();
        assert forall|k: int| 0 <= k < init.len() implies q(#[trigger] init[k]) by { assert(init[k] == es[k]); }
        lemma_filter_all(init, p, q);
        assert(q(es[es.len() - 1]));
        let f = es.filter(p);
        let fi = init.filter(p);
        assert(f == (if p(es.last()) { fi.push(es.last()) } else { fi }));
        assert forall|k: int| 0 <= k < f.len() implies q(#[trigger] f[k]) by {
            if k < fi.len() { assert(f[k] == fi[k]); }
        }
    }
}

spec fn valid_pred() -> spec_fn(IndexEntry) -> bool { |e: IndexEntry| e.apath.valid() }

// everything the hunk iterator will still yield has a valid apath
proof fn lemma_flat_valid(view: HunkView, rem: Seq<u32>, after: Option<Seq<char>>)
    requires view_valid(view),
    ensures entries_valid(flat_remaining(view, rem, after)),
    decreases rem.len()
{
    if rem.len() > 0 && view.contains_key(rem[0]) {
        lemma_flat_valid(view, rem.skip(1), after);
        if let Ok(es) = view[rem[0]] {
            assert(entries_valid(es));
            if let Some(a) = after {
                assert forall|k: int| 0 <= k < es.len() implies valid_pred()(#[trigger] es[k]) by {}
                lemma_filter_all(es, gt_pred(a), valid_pred());
                assert(entries_valid(after_filter(es, after))) by {
                    assert forall|k: int| 0 <= k < es.filter(gt_pred(a)).len() implies (#[trigger] es.filter(gt_pred(a))[k]).apath.valid() by {
                        assert(valid_pred()(es.filter(gt_pred(a))[k]));
                    }
                }
            }
        }
    }
}

// hint form for the body of Stitch::next: a hunk handed out by the iterator consists of valid entries
proof fn hint_loaded_hunk_valid(view: HunkView, rem: Seq<u32>, after: Option<Seq<char>>, v: Seq<IndexEntry>, rest: Seq<IndexEntry>)
    ensures (view_valid(view) && flat_remaining(view, rem, after) == v + rest) ==> entries_valid(v),
{
    if view_valid(view) && flat_remaining(view, rem, after) == v + rest {
        lemma_flat_valid(view, rem, after);
        assert forall|k: int| 0 <= k < v.len() implies (#[trigger] v[k]).apath.valid() by {
            assert((v + rest)[k] == v[k]);
        }
    }
}
