// ---- store_spec: shared vocabulary for content-addressed storage (DESIGN.md 4.1, 4.3) ----
// A block hash is viewed as its 64 bytes (Seq<u8>).  `hash_of` is BLAKE2b-512, ASSUMED collision-free.
// `has_block(h)` is monotone knowledge: "a block named h has been durably stored (and not deleted while this
// operation runs)".  It appears only positively: as a postcondition of completed store/contains operations
// and as a precondition of later writes.  Its negation is never asserted.

uninterp spec fn hash_of(data: Seq<u8>) -> Seq<u8>;

uninterp spec fn has_block(h: Seq<u8>) -> bool;

// ASSUMPTION (listed in the trusted base): BLAKE2b is treated as injective, so a block's content and
// length are functions of its hash.
#[verifier::external_body]
proof fn axiom_hash_injective(a: Seq<u8>, b: Seq<u8>)
    ensures hash_of(a) == hash_of(b) ==> a == b,
{ }

// the content whose hash is h
spec fn blk(h: Seq<u8>) -> Seq<u8> { choose|d: Seq<u8>| hash_of(d) == h }

proof fn lemma_blk_of_hash(d: Seq<u8>)
    ensures blk(hash_of(d)) == d,
{
    let e = choose|e: Seq<u8>| hash_of(e) == hash_of(d);
    axiom_hash_injective(e, d);
}

spec fn blen(h: Seq<u8>) -> int { blk(h).len() as int }

//@@ type src/blockhash.rs | struct BlockHash
//@ rewrite
[n=*] BLAKE_HASH_SIZE_BYTES ==> 64
//@@ end

impl BlockHash {
    pub closed spec fn view(&self) -> Seq<u8> { self.bin@ }
}

//@@ type src/blockdir.rs | struct Address
//@@ end

impl Address {
    // the address lies inside its (known) block
    spec fn in_block(&self) -> bool {
        has_block(self.hash@) && self.start as int + self.len as int <= blen(self.hash@)
    }
    // the bytes it denotes
    spec fn slice(&self) -> Seq<u8> {
        blk(self.hash@).subrange(self.start as int, self.start as int + self.len as int)
    }
}

// concatenation of the slices of a list of addresses = the content of a file entry (format.md)
spec fn content_of(addrs: Seq<Address>) -> Seq<u8>
    decreases addrs.len()
{
    if addrs.len() == 0 { Seq::<u8>::empty() } else { content_of(addrs.drop_last()) + addrs.last().slice() }
}

spec fn addrs_valid(addrs: Seq<Address>) -> bool {
    forall|i: int| 0 <= i < addrs.len() ==> (#[trigger] addrs[i]).in_block()
}

spec fn total_len(addrs: Seq<Address>) -> int
    decreases addrs.len()
{
    if addrs.len() == 0 { 0 } else { total_len(addrs.drop_last()) + addrs.last().len as int }
}

// Clone of a hash/address is a copy of the value (std derive(Clone) on plain data).
impl Clone for BlockHash {
    #[verifier::external_body]
    fn clone(&self) -> (r: Self)
        ensures r@ == self@,
    { BlockHash { bin: self.bin } }
}
