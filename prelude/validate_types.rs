// ---- validate_types: declarations and shims for unit `validate` (C09, C10) ----
//
// ENCODING OF "silent on healthy archives, loud on damage" (DESIGN 7 C09), ONE generated text for both sides:
//
//  * `reported(t)` is monotone knowledge (DESIGN 4.3): "an error with tag t was handed to Monitor::error".  It is
//    the ONLY postcondition of the `MonitorArc::error` shim and of no other function, it is never negated and never
//    assumed, so inside a verified function `reported(t)` can only be known on a path on which a call
//    `monitor.error(e)` with `tag_of(e) == t` (by this function or by a callee whose contract says so) has already
//    returned.  Damage-side postconditions have the shape  `<damage condition> ==> reported(<tag>)`.
//
//  * `healthy_ctx()` is an UNINTERPRETED boolean constant.  Every top-level function has the precondition
//    `healthy_ctx() ==> <its part of the archive is healthy>` and the error shim has `requires !healthy_ctx()`.
//    Verus proves each function for both values of the constant:
//      healthy_ctx() == true : the precondition says the archive is healthy and the error shim has `requires
//                              false`, i.e. every `monitor.error` call site is proved UNREACHABLE (silent side);
//      healthy_ctx() == false: the precondition is void, `monitor.error` is callable anywhere, and the damage-side
//                              postconditions are proved for arbitrary archives (loud side).
//    A false alarm (an error reported although the archive model is healthy) therefore fails the precondition of
//    `MonitorArc::error` at that call site, labelled C09.silent_when_healthy.
//
//  * The archive is reached through `&self` handles, so its content is described by uninterpreted, timeless spec
//    functions of the `Archive` value (`sp_*` below): the outcome of every read is a function of the archive.
//    This is the stated side condition of C09: nothing else writes the archive while validate runs (C06 is out of
//    reach) and reads do not fail transiently ("fault-free operations"); a transient I/O error is modelled as
//    damage (it IS reported: every Err is either passed to monitor.error or returned).

//@@ type src/bandid.rs | struct BandId derive=Clone,Copy,PartialEq,Eq,Structural
//@@ end

//@@ type src/kind.rs | enum Kind derive=Clone,Copy,PartialEq,Eq,Structural
//@@ end

//@@ type src/owner.rs | struct Owner
//@@ end

//@@ type src/unix_mode.rs | struct UnixMode derive=Clone,Copy
//@@ end

//@@ type src/index/entry.rs | struct IndexEntry
//@ rewrite
blockdir::Address ==> Address
//@@ end

//@@ type src/validate.rs | struct ValidateOptions
//@@ end

//@@ type src/band.rs | enum BandSelectionPolicy
//@@ end

//@@ type src/transport.rs | struct DirEntry
//@@ end

// the two file names `Band::validate` looks for (cut from src/lib.rs like declarations, so an edit is seen)
//@@ type src/lib.rs | static BAND_HEAD_FILENAME
//@ rewrite
static BAND_HEAD_FILENAME: &str ==> const BAND_HEAD_FILENAME: &'static str
//@@ end

// ---- crate::Error (R3/R5): reduced to the variants that an extracted body constructs or that a contract of this
// unit distinguishes; every other variant, and every payload this unit does not speak about, is `Other`.
enum Error {
    BlockMissing { hash: BlockHash },
    BlockTooShort { hash: BlockHash, actual_len: usize, referenced_len: usize },
    BandHeadMissing { band_id: BandId },
    InvalidMetadata { details: String },
    Other(OpaqueError),
}
type Result<T> = std::result::Result<T, Error>;

#[verifier::external_body]
struct OpaqueError { _p: () }

// What an observer of the monitor can tell about a reported error (payload texts are opaque: R5).
enum ErrTag {
    BlockMissing(Seq<u8>),
    BlockTooShort(Seq<u8>, usize, usize),       // hash, actual_len, referenced_len
    BandHeadMissing(BandId),
    InvalidMetadata,
    Other(OpaqueError),
}

spec fn tag_of(e: Error) -> ErrTag {
    match e {
        Error::BlockMissing { hash } => ErrTag::BlockMissing(hash@),
        Error::BlockTooShort { hash, actual_len, referenced_len } => ErrTag::BlockTooShort(hash@, actual_len, referenced_len),
        Error::BandHeadMissing { band_id } => ErrTag::BandHeadMissing(band_id),
        Error::InvalidMetadata { details } => ErrTag::InvalidMetadata,
        Error::Other(o) => ErrTag::Other(o),
    }
}

uninterp spec fn healthy_ctx() -> bool;

uninterp spec fn reported(t: ErrTag) -> bool;

// ---- Arc<dyn Monitor> (R3).  `count`, `start_task` and the Task methods are progress reporting (dropped, R1);
// `error` is THE observable of C09 and is kept. ----
#[verifier::external_body]
struct MonitorArc { _p: () }

impl Clone for MonitorArc {
    #[verifier::external_body]
    fn clone(&self) -> (r: Self)
    { unimplemented!() }  // Arc::clone
}

impl MonitorArc {
    // Monitor::error(&self, error): "A non-fatal error occurred."  See the encoding note at the top of this file.
    #[verifier::external_body]
    fn error(&self, error: Error)
        requires
            !healthy_ctx(), //# C09.silent_when_healthy
        ensures
            reported(tag_of(error)),
    { unimplemented!() }
}

// ---- std::collections::HashMap keyed by BlockHash (R3: same-named shim type, so bodies and signatures are
// unchanged).  View: a finite map from the 64 hash bytes to the value.  ASSUMED contracts = the documented
// behaviour of std's HashMap for a key type whose Hash/Eq are byte equality (src/blockhash.rs: both are written over
// `bin`).  Bodies are `unimplemented!()` because the Verus copy of BlockHash has no Hash/Eq impl; the forwarding call
// is named in the comment of each method. ----
#[verifier::external_body]
#[verifier::reject_recursive_types(K)]
#[verifier::reject_recursive_types(V)]
struct HashMap<K, V> { inner: std::collections::HashMap<K, V> }

impl<V> HashMap<BlockHash, V> {
    uninterp spec fn view(&self) -> Map<Seq<u8>, V>;

    // HashMap::new: "Creates an empty HashMap."
    #[verifier::external_body]
    fn new() -> (r: Self)
        ensures r@ == Map::<Seq<u8>, V>::empty(),
    { unimplemented!() }

    // HashMap::get: "Returns a reference to the value corresponding to the key."
    #[verifier::external_body]
    fn get<'a>(&'a self, k: &BlockHash) -> (r: Option<&'a V>)
        ensures r == (if self@.contains_key(k@) { Some(&self@[k@]) } else { None::<&V> }),
    { unimplemented!() }

    // HashMap::keys: "An iterator visiting all keys in arbitrary order."  (each key exactly once)
    #[verifier::external_body]
    fn keys<'a>(&'a self) -> (r: KeysIter<'a, V>)
        ensures r.rem() == self@.dom(),
    { unimplemented!() }

    // <&HashMap as IntoIterator>::into_iter == HashMap::iter: "An iterator visiting all key-value pairs in
    // arbitrary order.  The iterator element type is (&'a K, &'a V)."
    #[verifier::external_body]
    fn iter<'a>(&'a self) -> (r: MapIter<'a, V>)
        ensures r.rem() == self@.dom(), r.map() == self@,
    { unimplemented!() }

    // <HashMap as IntoIterator>::into_iter: "consuming iterator ... each key-value pair out of the map in
    // arbitrary order."
    #[verifier::external_body]
    fn into_iter(self) -> (r: MapIntoIter<V>)
        ensures r.rem() == self@.dom(), r.map() == self@,
    { unimplemented!() }
}

// R6 iterators over a map: `rem()` is the (finite: vstd's Set is finite) set of keys not yet yielded; `next` yields one of them (arbitrary order),
// removes it, and returns None exactly when none is left.
#[verifier::external_body]
#[verifier::reject_recursive_types(V)]
struct KeysIter<'a, V> { inner: std::collections::hash_map::Keys<'a, BlockHash, V> }

impl<'a, V> KeysIter<'a, V> {
    uninterp spec fn rem(&self) -> Set<Seq<u8>>;

    #[verifier::external_body]
    fn next(&mut self) -> (r: Option<&'a BlockHash>)
        ensures
            match r {
                None => old(self).rem() =~= Set::<Seq<u8>>::empty() && final(self).rem() == old(self).rem(),
                Some(k) => old(self).rem().contains(k@) && final(self).rem() == old(self).rem().remove(k@),
            },
    { unimplemented!() }
}

#[verifier::external_body]
#[verifier::reject_recursive_types(V)]
struct MapIter<'a, V> { inner: std::collections::hash_map::Iter<'a, BlockHash, V> }

impl<'a, V> MapIter<'a, V> {
    uninterp spec fn rem(&self) -> Set<Seq<u8>>;
    uninterp spec fn map(&self) -> Map<Seq<u8>, V>;

    #[verifier::external_body]
    fn next(&mut self) -> (r: Option<(&'a BlockHash, &'a V)>)
        ensures
            final(self).map() == old(self).map(),
            match r {
                None => old(self).rem() =~= Set::<Seq<u8>>::empty() && final(self).rem() == old(self).rem(),
                Some(p) => old(self).rem().contains(p.0@) && old(self).map().contains_key(p.0@)
                    && old(self).map()[p.0@] == *p.1 && final(self).rem() == old(self).rem().remove(p.0@),
            },
    { unimplemented!() }
}

#[verifier::external_body]
#[verifier::reject_recursive_types(V)]
struct MapIntoIter<V> { inner: std::collections::hash_map::IntoIter<BlockHash, V> }

impl<V> MapIntoIter<V> {
    uninterp spec fn rem(&self) -> Set<Seq<u8>>;
    uninterp spec fn map(&self) -> Map<Seq<u8>, V>;

    #[verifier::external_body]
    fn next(&mut self) -> (r: Option<(BlockHash, V)>)
        ensures
            final(self).map() == old(self).map(),
            match r {
                None => old(self).rem() =~= Set::<Seq<u8>>::empty() && final(self).rem() == old(self).rem(),
                Some(p) => old(self).rem().contains(p.0@) && old(self).map().contains_key(p.0@)
                    && old(self).map()[p.0@] == p.1 && final(self).rem() == old(self).rem().remove(p.0@),
            },
    { unimplemented!() }
}

// R4: std::cmp::max / std::cmp::min at u64 ("Compares and returns the maximum / minimum of two values").
#[verifier::external_body]
fn cmp_max(a: u64, b: u64) -> (r: u64)
    ensures r == (if a >= b { a } else { b }),
{ std::cmp::max(a, b) }

#[verifier::external_body]
fn cmp_min(a: u64, b: u64) -> (r: u64)
    ensures r == (if a <= b { a } else { b }),
{ std::cmp::min(a, b) }

// R4: the std idiom   M.entry(K).and_modify(|l| *l = F(*l, X)).or_insert(Y)
// (Verus has no spec for Entry::and_modify and rejects the `&mut` closure parameter).  The three pieces of the
// idiom are redirected here line by line; F stays a parameter so that an edit of the combining function is seen.
// ASSUMED (std docs of entry/and_modify/or_insert): if K is present its value v becomes F(v, X), otherwise K is
// inserted with Y; no other key changes.
#[verifier::external_body]
fn shim_entry_and_modify_or_insert<F: Fn(u64, u64) -> u64>(m: &mut HashMap<BlockHash, u64>, k: BlockHash, f: F, x: u64, y: u64)
    requires
        forall|l: u64| call_requires(f, (l, x)),
    ensures
        old(m)@.contains_key(k@) ==> call_ensures(f, (old(m)@[k@], x), final(m)@[k@])
            && final(m)@ == old(m)@.insert(k@, final(m)@[k@]),
        !old(m)@.contains_key(k@) ==> final(m)@ == old(m)@.insert(k@, y),
{ unimplemented!() }  // m.entry(k).and_modify(|l| *l = f(*l, x)).or_insert(y);

// R6: `for x in V` over an owned Vec: the elements in order.
#[verifier::external_body]
#[verifier::reject_recursive_types(T)]
struct VecIntoIter<T> { inner: std::vec::IntoIter<T> }

impl<T> VecIntoIter<T> {
    uninterp spec fn rem(&self) -> Seq<T>;

    #[verifier::external_body]
    fn next(&mut self) -> (r: Option<T>)
        ensures
            old(self).rem().len() == 0 ==> r is None && final(self).rem() == old(self).rem(),
            old(self).rem().len() > 0 ==> r == Some(old(self).rem()[0])
                && final(self).rem() == old(self).rem().skip(1),
    { self.inner.next() }
}

#[verifier::external_body]
fn shim_vec_into_iter<T>(v: Vec<T>) -> (r: VecIntoIter<T>)
    ensures r.rem() == v@,
{ VecIntoIter { inner: v.into_iter() } }

// R5: the text of an error payload (`format!(..)` inside an `Error::X { details: .. }`): no contract speaks about it.
#[verifier::external_body]
fn shim_opaque_text() -> (r: String)
{ unimplemented!() }

// `Some(&x) = E`  ==>  `Some(x) = shim_opt_copied(E)`: Option<&T>::copied for a Copy T (verified, not assumed).
fn shim_opt_copied(o: Option<&usize>) -> (r: Option<usize>)
    ensures r == (match o { Some(x) => Some(*x), None => None::<usize> }),
{
    match o { Some(x) => Some(*x), None => None }
}
