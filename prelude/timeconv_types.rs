// ---- timeconv_types: the real declarations the timeconv functions work on (R11), plus their spec projections ----

//@@ type src/kind.rs | enum Kind derive=Clone,Copy,PartialEq,Eq,Structural
//@@ end

//@@ type src/entry.rs | enum KindMeta
//@@ end

//@@ type src/owner.rs | struct Owner
//@@ end

//@@ type src/unix_mode.rs | struct UnixMode derive=Clone,Copy
//@@ end

// the real constant (cut from the source like a type declaration, so that an edit of the mask is seen)
//@@ type src/unix_mode.rs | const MODE_BITS
//@@ end

// source::Entry (src/source/entry.rs)
//@@ type src/source/entry.rs | struct Entry
//@@ end

//@@ type src/index/entry.rs | struct IndexEntry
//@ rewrite
blockdir::Address ==> Address
//@@ end

impl UnixMode {
    // the recorded mode bits (None: the entry carries no mode)
    pub closed spec fn bits(&self) -> Option<u32> { self.0 }
}

//@@ type src/bandid.rs | struct BandId derive=Clone,Copy
//@@ end

// std::fs::Permissions on unix: `PermissionsExt::mode` returns the st_mode bits this value was built from.
#[verifier::external_type_specification]
#[verifier::external_body]
pub struct ExPermissions(std::fs::Permissions);

pub uninterp spec fn perm_mode(p: std::fs::Permissions) -> u32;

pub assume_specification[ <std::fs::Permissions as std::os::unix::fs::PermissionsExt>::mode ](p: &std::fs::Permissions) -> (r: u32)
    ensures r == perm_mode(*p);

// the Kind a KindMeta stands for (doc comment of KindMeta: "Per-kind metadata")
spec fn kind_of(m: KindMeta) -> Kind {
    match m {
        KindMeta::File { .. } => Kind::File,
        KindMeta::Dir => Kind::Dir,
        KindMeta::Symlink { .. } => Kind::Symlink,
        KindMeta::Unknown => Kind::Unknown,
    }
}

// the symlink target a KindMeta carries: only symlinks have one
spec fn target_of(m: KindMeta) -> Option<Seq<char>> {
    match m {
        KindMeta::Symlink { target } => Some(target@),
        _ => None,
    }
}

spec fn opt_str_view(o: Option<&str>) -> Option<Seq<char>> {
    match o { Some(s) => Some(s@), None => None }
}

spec fn opt_string_view(o: Option<String>) -> Option<Seq<char>> {
    match o { Some(s) => Some(s@), None => None }
}

impl Owner {
    pub closed spec fn view(&self) -> (Option<Seq<char>>, Option<Seq<char>>) {
        (opt_string_view(self.user), opt_string_view(self.group))
    }
}

// std derive(Clone) on plain data: a field-wise copy.
impl Clone for Owner {
    #[verifier::external_body]
    fn clone(&self) -> (r: Self)
        ensures r@ == self@,
    { Owner { user: self.user.clone(), group: self.group.clone() } }
}

// std: `impl<T: Clone> ToOwned for T { fn to_owned(&self) -> T { self.clone() } }`
pub assume_specification<T: Clone>[ <T as std::borrow::ToOwned>::to_owned ](x: &T) -> (r: T)
    ensures call_ensures(T::clone, (x,), r);

// R7 lifted one-liner (verbatim text of IndexEntry::size's argument).  std `Sum for u64` is a fold with `+`:
// it panics on overflow when overflow checks are on (debug / test builds) and wraps otherwise, so "no overflow"
// is its no-panic AND its correctness condition.
#[verifier::external_body]
fn lifted_sum_addr_lens(addrs: &Vec<Address>) -> (r: u64)
    requires
        total_len(addrs@) <= u64::MAX, //# C10.size_sum_no_overflow
    ensures
        r as int == total_len(addrs@),
{ addrs.iter().map(|a| a.len).sum() }

// R7 lifted one-liner for the saturating variant (not in the pinned tree; decides a fixed `size`).
#[verifier::external_body]
fn lifted_saturating_sum_addr_lens(addrs: &Vec<Address>) -> (r: u64)
    ensures
        r as int == (if total_len(addrs@) <= u64::MAX { total_len(addrs@) } else { u64::MAX as int }),
{ addrs.iter().fold(0u64, |s, a| s.saturating_add(a.len)) }
