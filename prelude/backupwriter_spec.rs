// ---- backupwriter_spec: the invariant of BackupWriter and the lemmas that compose the callee contracts ----
//@@ include backupwriter_types.rs

// ---- copied from units/indexwriter.vu (the spec vocabulary of IndexWriter lives in the unit file there) ----
impl DebugCheckOrder {
    spec fn last(&self) -> Option<Apath> { self.0.last_apath }
}

impl IndexWriter {
    spec fn last_written(&self) -> Option<Apath> { self.check_order.last() }

    spec fn tid(&self) -> int { self.transport.id() }

    spec fn inv(&self) -> bool {
        &&& self.sequence as int == self.hunks_written as int
        &&& entries_ok(self.entries@)
        &&& (self.sequence % 10000 != 0 ==> dir_created(self.tid(), subdir_path_spec(self.sequence as nat)))
        &&& forall|k: nat| k < self.sequence ==> #[trigger] hunk_written(self.tid(), k)
    }

    spec fn ordered(&self) -> bool {
        &&& all_after(self.last_written(), self.entries@)
        &&& distinct_apaths(self.entries@)
    }

    spec fn wf(&self) -> bool { self.inv() && self.ordered() }
}

// ---- paths as character strings (the combiner's `held_paths` is a multiset of them) ----
spec fn path_lt(p: Seq<char>, q: Seq<char>) -> bool { doc_cmp(str_comps(p), str_comps(q)) == Ordering::Less }

spec fn path_valid(p: Seq<char>) -> bool { valid_bytes(bytes_of(p)) }

proof fn lemma_path_lt_is_apath_lt(a: Apath, b: Apath)
    ensures apath_lt(a, b) == path_lt(a@, b@), a.valid() == path_valid(a@),
{ }

proof fn lemma_path_lt_irrefl(p: Seq<char>)
    ensures !path_lt(p, p),
{
    lemma_split_nonempty(bytes_of(p), SLASH);
    lemma_doc_eq(str_comps(p), str_comps(p));
}

proof fn lemma_path_lt_trans(p: Seq<char>, q: Seq<char>, r: Seq<char>)
    requires path_lt(p, q), path_lt(q, r),
    ensures path_lt(p, r),
{
    lemma_split_nonempty(bytes_of(p), SLASH);
    lemma_split_nonempty(bytes_of(q), SLASH);
    lemma_split_nonempty(bytes_of(r), SLASH);
    lemma_doc_trans(str_comps(p), str_comps(q), str_comps(r));
}

// what BackupWriter::wf() says about a multiset of held paths, relative to the last written path
spec fn held_ok(m: vstd::multiset::Multiset<Seq<char>>, lw: Option<Apath>) -> bool {
    &&& forall|p: Seq<char>| #[trigger] m.count(p) > 0 ==> path_valid(p) && (lw is Some ==> path_lt(lw.unwrap()@, p))
    &&& forall|p: Seq<char>| #[trigger] m.count(p) <= 1
}

spec fn held_below(m: vstd::multiset::Multiset<Seq<char>>, x: Seq<char>) -> bool {
    forall|p: Seq<char>| #[trigger] m.count(p) > 0 ==> path_lt(p, x)
}

spec fn queue_below(es: Seq<IndexEntry>, x: Seq<char>) -> bool {
    forall|i: int| 0 <= i < es.len() ==> path_lt((#[trigger] es[i]).apath@, x)
}

spec fn queue_not_held(es: Seq<IndexEntry>, m: vstd::multiset::Multiset<Seq<char>>) -> bool {
    forall|i: int| 0 <= i < es.len() ==> m.count((#[trigger] es[i]).apath@) == 0
}

//@@ type src/backup.rs | struct BackupWriter
//@@ end

impl BackupWriter {
    spec fn held(&self) -> vstd::multiset::Multiset<Seq<char>> { self.file_combiner.held_paths() }

    // holds on EVERY exit of every method, error exits included (DESIGN 4.2)
    spec fn inv(&self) -> bool {
        &&& self.index_writer.inv()
        &&& self.file_combiner.wf()
        &&& self.band.wf()
        &&& self.index_writer.tid() == self.band.index_tid()
    }

    // every pending entry (index-writer queue, combiner queue, combiner finished) has a valid path that sorts after
    // everything already written, and the pending paths are pairwise distinct (C03-O4, C11)
    spec fn pending_ok(&self) -> bool {
        &&& self.index_writer.ordered()
        &&& held_ok(self.held(), self.index_writer.last_written())
        &&& queue_not_held(self.index_writer.entries@, self.held())
    }

    // holds on every exit except an Err of flush_group/finish (after which the writer is abandoned)
    spec fn wf(&self) -> bool { self.inv() && self.pending_ok() }

    // everything written or pending sorts strictly before x
    spec fn pending_below(&self, x: Seq<char>) -> bool {
        &&& (self.index_writer.last_written() matches Some(l) ==> path_lt(l@, x))
        &&& queue_below(self.index_writer.entries@, x)
        &&& held_below(self.held(), x)
    }

    // nothing is pending anywhere
    spec fn nothing_pending(&self) -> bool {
        &&& self.index_writer.entries@.len() == 0
        &&& self.file_combiner.queue@.len() == 0
        &&& self.file_combiner.finished@.len() == 0
        &&& self.file_combiner.buf@.len() == 0
    }

    // number of entries pending (what flush_group will write into the next hunk)
    spec fn pending_count(&self) -> nat {
        self.index_writer.entries@.len() + self.file_combiner.queue@.len() + self.file_combiner.finished@.len()
    }
}

// ---- "an entry for path p is in a hunk file that has been written into index directory tid" (monotone knowledge
// derived from indexwriter's `file_written`; DESIGN 4.3) ----
spec fn recorded_in(tid: int, n: nat, es: Seq<IndexEntry>, i: int, p: Seq<char>) -> bool {
    file_written(tid, hunk_path_spec(n), snappy(json_of(es))) && 0 <= i < es.len() && es[i].apath@ == p
}

spec fn entry_recorded(tid: int, p: Seq<char>) -> bool {
    exists|n: nat, es: Seq<IndexEntry>, i: int| #[trigger] recorded_in(tid, n, es, i, p)
}

// what pending entries there are, by path
spec fn pending_has(w: BackupWriter, p: Seq<char>) -> bool {
    entry_paths(w.index_writer.entries@).contains(p) || w.held().count(p) > 0
}

// the hunk that flush_group wrote holds every entry that was pending
proof fn lemma_flushed_recorded(tid: int, n: nat, q: Seq<IndexEntry>, d: Seq<IndexEntry>, m: vstd::multiset::Multiset<Seq<char>>, p: Seq<char>)
    requires
        held(d, Seq::<QueuedFile>::empty()) == m,
        is_sorted_perm(sorted_of(q + d), q + d),
        file_written(tid, hunk_path_spec(n), snappy(json_of(sorted_of(q + d)))),
        entry_paths(q).contains(p) || m.count(p) > 0,
    ensures
        entry_recorded(tid, p),
{
    let all = q + d;
    let s = sorted_of(all);
    let idx: int;
    if entry_paths(q).contains(p) {
        let i = choose|i: int| 0 <= i < entry_paths(q).len() && entry_paths(q)[i] == p;
        idx = i;
        assert(all[idx] == q[i]);
    } else {
        let ps = entry_paths(d) + queue_paths(Seq::<QueuedFile>::empty());
        assert(ps =~= entry_paths(d));
        ps.to_multiset_ensures();
        assert(ps.contains(p));
        let j = choose|j: int| 0 <= j < ps.len() && ps[j] == p;
        idx = q.len() + j;
        assert(all[idx] == d[j]);
    }
    assert(all[idx].apath@ == p);
    let k = lemma_perm_member(s, all, idx);
    assert(recorded_in(tid, n, s, k, p));
}

// one more pending entry: nothing that was pending is lost, and the new path is pending
proof fn lemma_pending_has_grows(w0: BackupWriter, w1: BackupWriter, src: Entry)
    requires one_entry_added(w0, w1, src),
    ensures
        forall|p: Seq<char>| pending_has(w0, p) ==> #[trigger] pending_has(w1, p),
        pending_has(w1, src.apath@),
{
    let e0 = w0.index_writer.entries@;
    let e1 = w1.index_writer.entries@;
    if stored_combined(w0, w1, src) {
    } else {
        assert(entry_paths(e1)[e1.len() - 1] == src.apath@);
        assert forall|p: Seq<char>| pending_has(w0, p) implies #[trigger] pending_has(w1, p) by {
            if entry_paths(e0).contains(p) {
                let i = choose|i: int| 0 <= i < entry_paths(e0).len() && entry_paths(e0)[i] == p;
                assert(e1.drop_last()[i] == e1[i]);
                assert(entry_paths(e1)[i] == p);
            }
        }
    }
}

// the version is complete and holds an entry for every source entry of a known kind
spec fn version_complete(tid: int, dir: Seq<u8>, n: nat, listing: Seq<SourceEntry>) -> bool {
    &&& tail_written(dir, Some(n as u64))
    &&& forall|k: nat| k < n ==> #[trigger] hunk_written(tid, k)
    &&& forall|j: int| 0 <= j < listing.len() && !((#[trigger] listing[j]).kind_meta is Unknown)
            ==> entry_recorded(tid, listing[j].apath@)
}

// the number of hunk files this writer will have written once everything pending is flushed (C13: the true count)
spec fn final_hunk_count(w: BackupWriter) -> nat {
    (w.index_writer.hunks_written + (if w.pending_count() > 0 { 1int } else { 0int })) as nat
}

// ---- the outcomes of copy_file (C02 / C14) ----
// the entry pushed for `src` when the basis content is reused: the basis addresses, the source's metadata
spec fn reused(w0: BackupWriter, w1: BackupWriter, src: Entry, b: IndexEntry) -> bool {
    &&& w1.index_writer.entries@.len() == w0.index_writer.entries@.len() + 1
    &&& w1.index_writer.entries@.drop_last() == w0.index_writer.entries@
    &&& w1.index_writer.entries@.last().apath@ == src.apath@
    &&& w1.index_writer.entries@.last().addrs@ == b.addrs@                 // C14.unchanged_file_reuses_addresses
    &&& w1.file_combiner == w0.file_combiner                                // C14.unchanged_file_writes_nothing
    &&& w1.stats.written_blocks == w0.stats.written_blocks                  // C14.unchanged_file_writes_nothing
}

// the entry was built from the bytes read NOW and pushed directly (large or empty file)
spec fn stored_direct(w0: BackupWriter, w1: BackupWriter, src: Entry) -> bool {
    &&& w1.index_writer.entries@.len() == w0.index_writer.entries@.len() + 1
    &&& w1.index_writer.entries@.drop_last() == w0.index_writer.entries@
    &&& w1.index_writer.entries@.last().apath@ == src.apath@
    &&& content_ok(w1.index_writer.entries@.last())
    &&& w1.file_combiner == w0.file_combiner
}

// the file's current bytes went into the combiner (whose wf() says its entries hold src_bytes of their path)
spec fn stored_combined(w0: BackupWriter, w1: BackupWriter, src: Entry) -> bool {
    &&& w1.index_writer.entries@ == w0.index_writer.entries@
    &&& w1.held() == w0.held().insert(src.apath@)
}

// exactly one entry for `src` became pending
spec fn one_entry_added(w0: BackupWriter, w1: BackupWriter, src: Entry) -> bool {
    ||| (w1.index_writer.entries@.len() == w0.index_writer.entries@.len() + 1
            && w1.index_writer.entries@.drop_last() == w0.index_writer.entries@
            && w1.index_writer.entries@.last().apath@ == src.apath@
            && w1.held() == w0.held())
    ||| stored_combined(w0, w1, src)
}

// no entry became pending
spec fn nothing_added(w0: BackupWriter, w1: BackupWriter) -> bool {
    &&& w1.index_writer.entries@ == w0.index_writer.entries@
    &&& w1.held().subset_of(w0.held())
}

// the entry is the source entry's metadata and carries no content (the contract of IndexEntry::metadata_from, unit
// timeconv: same instant, path, kind, target, mode, owner; no blocks)
spec fn metadata_of(e: IndexEntry, s: Entry) -> bool {
    &&& entry_instant(e.mtime, e.mtime_nanos) == s.mtime.total_nanos()
    &&& e.mtime_nanos < NPS
    &&& e.apath@ == s.apath@
    &&& e.kind == kind_of(s.kind_meta)
    &&& opt_string_view(e.target) == target_of(s.kind_meta)
    &&& e.unix_mode == s.unix_mode
    &&& e.owner@ == s.owner@
    &&& e.addrs@.len() == 0
}

// exactly one entry, the metadata of `src`, was pushed directly; nothing else moved
spec fn metadata_entry_added(w0: BackupWriter, w1: BackupWriter, src: Entry) -> bool {
    &&& w1.index_writer.entries@.len() == w0.index_writer.entries@.len() + 1
    &&& w1.index_writer.entries@.drop_last() == w0.index_writer.entries@
    &&& metadata_of(w1.index_writer.entries@.last(), src)
    &&& w1.file_combiner == w0.file_combiner
    &&& w1.stats == w0.stats
}

// (C02.unchanged_heuristic_is_kind_mtime_size) written from the property statement
spec fn heur_same(n: EntryView, b: EntryView) -> bool {
    n.kind == b.kind && n.mtime == b.mtime && n.size == b.size
}

// validity of the basis entry's addresses (ArchiveInv of the basis, DESIGN C02/C03-O1): every address lies inside
// its block.  Whether the block is still PRESENT is what copy_file checks at run time.
spec fn basis_addrs_in_blocks(b: IndexEntry) -> bool {
    forall|i: int| 0 <= i < b.addrs@.len() ==> (#[trigger] b.addrs@[i]).start as int + b.addrs@[i].len as int <= blen(b.addrs@[i].hash@)
}

// ---- multiset lemmas ----
proof fn lemma_empty_held()
    ensures forall|p: Seq<char>| #[trigger] held(Seq::<IndexEntry>::empty(), Seq::<QueuedFile>::empty()).count(p) == 0,
{
    let s = entry_paths(Seq::<IndexEntry>::empty()) + queue_paths(Seq::<QueuedFile>::empty());
    assert(s =~= Seq::<Seq<char>>::empty());
    s.to_multiset_ensures();
    vstd::multiset::lemma_multiset_empty_len(s.to_multiset());
}

// after a successful push of `x` into the combiner (held' == held.insert(x)) everything stays in order
proof fn lemma_held_insert(m: vstd::multiset::Multiset<Seq<char>>, lw: Option<Apath>, es: Seq<IndexEntry>, x: Seq<char>)
    requires
        held_ok(m, lw),
        queue_not_held(es, m),
        path_valid(x),
        lw is Some ==> path_lt(lw.unwrap()@, x),
        held_below(m, x),
        queue_below(es, x),
    ensures
        held_ok(m.insert(x), lw),
        queue_not_held(es, m.insert(x)),
        forall|y: Seq<char>| held_below(m, y) && path_lt(x, y) ==> #[trigger] held_below(m.insert(x), y),
{
    let m1 = m.insert(x);
    lemma_path_lt_irrefl(x);
    assert forall|p: Seq<char>| #[trigger] m1.count(p) > 0 implies path_valid(p) && (lw is Some ==> path_lt(lw.unwrap()@, p)) by {
        if p != x { assert(m.count(p) > 0); }
    }
    assert forall|p: Seq<char>| #[trigger] m1.count(p) <= 1 by {
        if p == x { if m.count(x) > 0 { assert(path_lt(x, x)); } } else { assert(m.count(p) <= 1); }
    }
    assert forall|i: int| 0 <= i < es.len() implies m1.count((#[trigger] es[i]).apath@) == 0 by {
        assert(path_lt(es[i].apath@, x));
        assert(m.count(es[i].apath@) == 0);
    }
    assert forall|y: Seq<char>| held_below(m, y) && path_lt(x, y) implies #[trigger] held_below(m1, y) by {
        assert forall|p: Seq<char>| #[trigger] m1.count(p) > 0 implies path_lt(p, y) by {
            if p != x { assert(m.count(p) > 0); }
        }
    }
}

// losing paths (an error exit) keeps everything in order
proof fn lemma_held_subset(m0: vstd::multiset::Multiset<Seq<char>>, m1: vstd::multiset::Multiset<Seq<char>>, lw: Option<Apath>, es: Seq<IndexEntry>)
    requires
        m1.subset_of(m0),
        held_ok(m0, lw),
        queue_not_held(es, m0),
    ensures
        held_ok(m1, lw),
        queue_not_held(es, m1),
        forall|y: Seq<char>| held_below(m0, y) ==> #[trigger] held_below(m1, y),
{
    assert forall|p: Seq<char>| #[trigger] m1.count(p) > 0 implies path_valid(p) && (lw is Some ==> path_lt(lw.unwrap()@, p)) by {
        assert(m1.count(p) <= m0.count(p));
        assert(m0.count(p) > 0);
    }
    assert forall|p: Seq<char>| #[trigger] m1.count(p) <= 1 by {
        assert(m1.count(p) <= m0.count(p));
        assert(m0.count(p) <= 1);
    }
    assert forall|i: int| 0 <= i < es.len() implies m1.count((#[trigger] es[i]).apath@) == 0 by {
        assert(m1.count(es[i].apath@) <= m0.count(es[i].apath@));
    }
    assert forall|y: Seq<char>| held_below(m0, y) implies #[trigger] held_below(m1, y) by {
        assert forall|p: Seq<char>| #[trigger] m1.count(p) > 0 implies path_lt(p, y) by {
            assert(m1.count(p) <= m0.count(p));
            assert(m0.count(p) > 0);
        }
    }
}

// a path above everything pending is not among the pending paths
proof fn lemma_fresh_path(m: vstd::multiset::Multiset<Seq<char>>, es: Seq<IndexEntry>, x: Seq<char>)
    requires
        held_below(m, x),
        queue_below(es, x),
    ensures
        m.count(x) == 0,
        forall|i: int| 0 <= i < es.len() ==> (#[trigger] es[i]).apath@ != x,
{
    lemma_path_lt_irrefl(x);
    if m.count(x) > 0 { assert(path_lt(x, x)); }
    assert forall|i: int| 0 <= i < es.len() implies (#[trigger] es[i]).apath@ != x by {
        assert(path_lt(es[i].apath@, x));
    }
}

// one entry with path x was pushed directly into the index writer's queue
proof fn lemma_queue_pushed(m: vstd::multiset::Multiset<Seq<char>>, es0: Seq<IndexEntry>, es1: Seq<IndexEntry>, x: Seq<char>)
    requires
        es1.len() == es0.len() + 1,
        es1.drop_last() == es0,
        es1.last().apath@ == x,
        queue_not_held(es0, m),
        m.count(x) == 0,
    ensures
        queue_not_held(es1, m),
        forall|y: Seq<char>| queue_below(es0, y) && path_lt(x, y) ==> #[trigger] queue_below(es1, y),
{
    assert forall|i: int| 0 <= i < es1.len() implies m.count((#[trigger] es1[i]).apath@) == 0 by {
        if i < es0.len() { assert(es1[i] == es1.drop_last()[i]); }
    }
    assert forall|y: Seq<char>| queue_below(es0, y) && path_lt(x, y) implies #[trigger] queue_below(es1, y) by {
        assert forall|i: int| 0 <= i < es1.len() implies path_lt((#[trigger] es1[i]).apath@, y) by {
            if i < es0.len() { assert(es1[i] == es1.drop_last()[i]); }
        }
    }
}

// what the combiner hands back on drain is fit for IndexWriter::append_entries (C03-O1, C03-O4, C11)
proof fn lemma_drained_ready(lw: Option<Apath>, q: Seq<IndexEntry>, es: Seq<IndexEntry>, m: vstd::multiset::Multiset<Seq<char>>)
    requires
        held(es, Seq::<QueuedFile>::empty()) == m,
        held_ok(m, lw),
        queue_not_held(q, m),
        distinct_apaths(q),
        all_in_block(es),
        all_content_ok(es),
    ensures
        entries_ok(es),
        all_after(lw, es),
        distinct_apaths(q + es),
        forall|y: Seq<char>| held_below(m, y) ==> #[trigger] queue_below(es, y),
{
    reveal(entries_ok);
    reveal(all_after);
    reveal(distinct_apaths);
    let s = entry_paths(es) + queue_paths(Seq::<QueuedFile>::empty());
    assert(s =~= entry_paths(es));
    s.to_multiset_ensures();
    assert forall|i: int| 0 <= i < es.len() implies m.count((#[trigger] es[i]).apath@) > 0 by {
        assert(s[i] == es[i].apath@);
        assert(s.contains(s[i]));
    }
    assert forall|x: Seq<char>| s.to_multiset().contains(x) implies s.to_multiset().count(x) == 1 by {
        assert(m.count(x) <= 1);
    }
    s.lemma_multiset_has_no_duplicates_conv();
    assert forall|i: int| 0 <= i < es.len() implies entry_ok(#[trigger] es[i]) by {
        assert(m.count(es[i].apath@) > 0);
        assert(content_ok(es[i]));
        assert(addrs_valid(es[i].addrs@));
        assert(es[i].target is None);
        lemma_path_lt_is_apath_lt(es[i].apath, es[i].apath);
    }
    if lw is Some {
        assert forall|i: int| 0 <= i < es.len() implies apath_lt(lw.unwrap(), #[trigger] es[i].apath) by {
            assert(m.count(es[i].apath@) > 0);
        }
    }
    let all = q + es;
    assert forall|i: int, j: int| 0 <= i < all.len() && 0 <= j < all.len() && i != j
        implies (#[trigger] all[i]).apath@ != (#[trigger] all[j]).apath@ by {
        if i < q.len() && j < q.len() {
            assert(all[i] == q[i] && all[j] == q[j]);
        } else if i < q.len() {
            assert(all[i] == q[i] && all[j] == es[j - q.len()]);
            assert(m.count(q[i].apath@) == 0);
            assert(m.count(es[j - q.len()].apath@) > 0);
        } else if j < q.len() {
            assert(all[j] == q[j] && all[i] == es[i - q.len()]);
            assert(m.count(q[j].apath@) == 0);
            assert(m.count(es[i - q.len()].apath@) > 0);
        } else {
            let a = i - q.len();
            let b = j - q.len();
            assert(all[i] == es[a] && all[j] == es[b]);
            assert(s[a] == es[a].apath@ && s[b] == es[b].apath@);
            assert(s[a] != s[b]);
        }
    }
    assert forall|y: Seq<char>| held_below(m, y) implies #[trigger] queue_below(es, y) by {
        assert forall|i: int| 0 <= i < es.len() implies path_lt((#[trigger] es[i]).apath@, y) by {
            assert(m.count(es[i].apath@) > 0);
        }
    }
}

// after a hunk holding exactly `all` has been written, the new last_written is one of them: still below y
proof fn lemma_last_written_below(all: Seq<IndexEntry>, lw1: Apath, y: Seq<char>)
    requires
        all.len() > 0,
        is_sorted_perm(sorted_of(all), all),
        lw1@ == sorted_of(all).last().apath@,
        queue_below(all, y),
    ensures
        path_lt(lw1@, y),
{
    let s = sorted_of(all);
    s.to_multiset_ensures();
    all.to_multiset_ensures();
    assert(s.len() == all.len());
    let k = lemma_perm_member(all, s, s.len() - 1);
    assert(all[k] == s.last());
    assert(path_lt(all[k].apath@, y));
}

proof fn lemma_queue_below_concat(a: Seq<IndexEntry>, b: Seq<IndexEntry>, y: Seq<char>)
    requires queue_below(a, y), queue_below(b, y),
    ensures queue_below(a + b, y),
{
    assert forall|i: int| 0 <= i < (a + b).len() implies path_lt((#[trigger] (a + b)[i]).apath@, y) by {
        if i < a.len() { assert((a + b)[i] == a[i]); } else { assert((a + b)[i] == b[i - a.len()]); }
    }
}
