// ---- stitch_types: declarations and shims for src/index/stitch.rs ----
//@@ include hunkiter_types.rs
//@@ include str_shims.rs

//@@ type src/bandid.rs | struct BandId derive=Clone,Copy
//@@ end

// std (not specified by vstd): `Result::unwrap_or`.
pub assume_specification<T, E>[ std::result::Result::<T, E>::unwrap_or ](r: std::result::Result<T, E>, default: T) -> (o: T)
    ensures o == (match r { Ok(v) => v, Err(_) => default });

// ---- R3 shim of `Archive` (src/archive.rs): opaque handle; the contracts speak about the ABSTRACT ARCHIVE it points
// to, given by uninterpreted functions of (archive, band number).  The archive is assumed unchanged while a listing
// runs (DESIGN C08), so each is a function, not a state:
//   m_exists(id)   `is_file("bNNNN/BANDHEAD")` answers Ok(true)        ("the version exists")
//   m_closed(id)   `is_file("bNNNN/BANDTAIL")` answers Ok(true)        ("the version is complete")
//   m_opens(id)    `Band::open` succeeds (head readable, version and flags supported)
//   m_view(id), m_listing(id)   the band's index directory: hunk number -> content, and the listed hunk numbers
// A transport error on is_file counts as "no" here, exactly as `unwrap_or(false)` treats it; reporting such errors
// is C10's business, not C08's.
#[verifier::external_body]
struct Archive { _p: () }

impl Archive {
    uninterp spec fn m_exists(&self, id: u32) -> bool;
    uninterp spec fn m_closed(&self, id: u32) -> bool;
    uninterp spec fn m_opens(&self, id: u32) -> bool;
    uninterp spec fn m_view(&self, id: u32) -> Map<u32, std::result::Result<Seq<IndexEntry>, ()>>;
    uninterp spec fn m_listing(&self, id: u32) -> Seq<u32>;

    // ASSUMED contract of Archive::band_exists (transport is_file on the band head)
    #[verifier::external_body]
    async fn band_exists(&self, band_id: BandId) -> (r: Result<bool>)
        ensures (r matches Ok(b) && b) == self.m_exists(band_id.0),
    { unimplemented!() }

    // ASSUMED contract of Archive::band_is_closed (transport is_file on the band tail)
    #[verifier::external_body]
    async fn band_is_closed(&self, band_id: BandId) -> (r: Result<bool>)
        ensures (r matches Ok(b) && b) == self.m_closed(band_id.0),
    { unimplemented!() }
}

// `#[derive(Clone)]` on Archive: a second handle on the same transport, i.e. the same abstract archive.
impl Clone for Archive {
    #[verifier::external_body]
    fn clone(&self) -> (r: Self)
        ensures r == *self,
    { unimplemented!() }
}

// An error value may be "band `id` of archive `a` failed to open" (what Band::open returns).
impl Error {
    uninterp spec fn open_failure(&self) -> Option<(Archive, u32)>;
}

// Monotone knowledge (DESIGN 4.3; appears only positively): the failure to open that band was handed to the monitor.
uninterp spec fn open_failure_reported(a: Archive, id: u32) -> bool;

// ---- R3 shim of `Band` (src/band.rs) as far as stitching uses it.
#[verifier::external_body]
struct Band { _p: () }

impl Band {
    uninterp spec fn m_view(&self) -> Map<u32, std::result::Result<Seq<IndexEntry>, ()>>;
    uninterp spec fn m_listing(&self) -> Seq<u32>;

    // ASSUMED contract of Band::open: Ok exactly when the abstract band opens, and then the band stands for that
    // band's index; Err carries the failure.
    #[verifier::external_body]
    async fn open(archive: &Archive, band_id: BandId) -> (r: Result<Band>)
        ensures
            match r {
                Ok(band) => archive.m_opens(band_id.0) && band.m_view() == archive.m_view(band_id.0)
                    && band.m_listing() == archive.m_listing(band_id.0),
                Err(e) => !archive.m_opens(band_id.0) && e.open_failure() == Some((*archive, band_id.0)),
            },
    { unimplemented!() }

    // ASSUMED contract of Band::index: a reader on the band's index directory.  `listing() is Ok` is the
    // assumption "reads succeed" of DESIGN C08 for the directory listing (what happens when it fails is the C10
    // obligation of IndexRead::iter_available_hunks, unit hunkiter).
    #[verifier::external_body]
    fn index(&self) -> (r: IndexRead)
        ensures
            r.view() == self.m_view(),
            r.listing() == Ok::<Seq<u32>, ()>(self.m_listing()),
    { unimplemented!() }
}

// ---- R3 shim of `Exclude` (src/excludes.rs, unit `exclude`): which apaths the glob set matches is uninterpreted here.
#[verifier::external_body]
struct Exclude { _p: () }

impl Exclude {
    uninterp spec fn excluded(&self, a: Seq<char>) -> bool;

    #[verifier::external_body]
    fn matches(&self, apath: &Apath) -> (r: bool)
        ensures r == self.excluded(apath@),
    { unimplemented!() }

    // Exclude::nothing(): "Exclude nothing" (an empty glob set)
    #[verifier::external_body]
    fn nothing() -> (r: Exclude)
        ensures forall|a: Seq<char>| !r.excluded(a),
    { unimplemented!() }
}

// ---- R3 shim of `Arc<dyn Monitor>`: only `error` is used.  Reporting is recorded as monotone knowledge.
#[verifier::external_body]
struct MonitorRef { _p: () }

impl MonitorRef {
    #[verifier::external_body]
    fn error(&self, error: Error)
        ensures error.open_failure() matches Some(f) ==> open_failure_reported(f.0, f.1),
    { unimplemented!() }
}

// ---- R3 shim of `Peekable<std::vec::IntoIter<IndexEntry>>`: the entries of the loaded hunk not yet handed out.
#[verifier::external_body]
struct BufferedEntries { _p: () }

impl BufferedEntries {
    uninterp spec fn rem(&self) -> Seq<IndexEntry>;

    // std: Iterator::next on Peekable<vec::IntoIter<T>> yields the elements front to back.
    #[verifier::external_body]
    fn next(&mut self) -> (r: Option<IndexEntry>)
        ensures
            old(self).rem().len() == 0 ==> r is None && final(self).rem() == old(self).rem(),
            old(self).rem().len() > 0 ==> r == Some(old(self).rem()[0]) && final(self).rem() == old(self).rem().skip(1),
    { unimplemented!() }
}

// std: `v.into_iter().peekable()` iterates over exactly the vector's elements, in order.
#[verifier::external_body]
fn shim_buffer_entries(v: Vec<IndexEntry>) -> (r: BufferedEntries)
    ensures r.rem() == v@,
{ unimplemented!() /* v.into_iter().peekable() */ }

// R7: `hunk.last().map(|entry| entry.apath.clone())` — the same expression with the closure's contract written out
// (Verus knows nothing about an unannotated closure).  VERIFIED, not assumed.
fn lifted_last_apath(hunk: &Vec<IndexEntry>) -> (r: Option<Apath>)
    ensures
        match r {
            Some(a) => hunk@.len() > 0 && a@ == hunk@.last().apath@,
            None => hunk@.len() == 0,
        },
{
    hunk.last().map(|entry: &IndexEntry| -> (a: Apath) ensures a@ == entry.apath@ { entry.apath.clone() })
}

impl Apath {
    // ASSUMED contract of Apath::root (src/apath.rs: `"/".into()`).
    #[verifier::external_body]
    fn root() -> (r: Apath)
        ensures r@ == seq!['/'],
    { unimplemented!() }
}

impl BandId {
    // Used only by mutants (`previous()` replaced by `next_sibling()`): src/bandid.rs `BandId(self.0 + 1)`.
    #[verifier::external_body]
    fn next_sibling(&self) -> (r: BandId)
        requires self.0 < u32::MAX,
        ensures r.0 == self.0 + 1,
    { unimplemented!() }
}

//@@ type src/index/stitch.rs | enum State
//@ rewrite
Peekable<std::vec::IntoIter<IndexEntry>> ==> BufferedEntries
//@@ end

//@@ type src/index/stitch.rs | struct Stitch
//@ rewrite
Arc<dyn Monitor> ==> MonitorRef
//@@ end
