// ---- exclude_shims: ASSUMED contracts for the globset crate (0.4) and for the std pieces add_pattern uses (R3-R5).
// Each shim type carries a ghost description (pattern text, literal_separator flag, list of globs); the only
// thing assumed about MATCHING is `GlobSet::is_match == any_match(..)` over the uninterpreted `glob_matches`.
//@@ include exclude_spec.rs
//@@ include str_shims.rs
//@@ include apath_type.rs

// globset::Error (pattern text that does not parse) and conserve::Error (only the variant add_pattern builds)
#[verifier::external_body]
struct GlobError { inner: u8 }

enum Error {
    ParseGlob { source: GlobError },
    Other,
}
type Result<T> = std::result::Result<T, Error>;

// `?` on gsb.build() converts through `impl From<globset::Error> for Error` (#[from] on Error::ParseGlob)
impl From<GlobError> for Error {
    #[verifier::external_body]
    fn from(source: GlobError) -> (r: Error)
    { Error::ParseGlob { source } }
}

// globset::Glob: one compiled pattern
#[verifier::external_body]
struct Glob { inner: u8 }
impl Glob {
    uninterp spec fn spec(&self) -> GlobSpec;
}

// globset::GlobBuilder::new(pat) / .literal_separator(yes) / .build()
// new: all options off (globset default: literal_separator false).  build: Ok carries exactly the text and option
// given; Err when the text does not parse.  Nothing is assumed about WHICH texts parse.
#[verifier::external_body]
struct GlobBuilder { inner: u8 }
impl GlobBuilder {
    uninterp spec fn pat(&self) -> Seq<u8>;
    uninterp spec fn lit(&self) -> bool;

    #[verifier::external_body]
    fn new(glob: &str) -> (r: GlobBuilder)
        ensures r.pat() == glob.spec_bytes(), r.lit() == false,
    { unimplemented!() }

    #[verifier::external_body]
    fn literal_separator(&mut self, yes: bool) -> (r: &mut GlobBuilder)
        ensures (*r).pat() == old(self).pat(), (*r).lit() == yes, *final(self) == *final(r),
    { unimplemented!() }

    #[verifier::external_body]
    fn build(&self) -> (r: std::result::Result<Glob, GlobError>)
        ensures r is Ok ==> r->Ok_0.spec() == (GlobSpec { pat: self.pat(), lit: self.lit() }),
    { unimplemented!() }
}

// globset::GlobSetBuilder: new() is empty, add(g) appends, build() keeps the list
#[verifier::external_body]
struct GlobSetBuilder { inner: u8 }
impl GlobSetBuilder {
    uninterp spec fn pats(&self) -> Seq<GlobSpec>;

    #[verifier::external_body]
    fn new() -> (r: GlobSetBuilder)
        ensures r.pats() == Seq::<GlobSpec>::empty(),
    { unimplemented!() }

    #[verifier::external_body]
    fn add(&mut self, pat: Glob) -> (r: &mut GlobSetBuilder)
        ensures (*r).pats() == old(self).pats().push(pat.spec()), *final(self) == *final(r),
    { unimplemented!() }

    #[verifier::external_body]
    fn build(&self) -> (r: std::result::Result<GlobSet, GlobError>)
        ensures r is Ok ==> r->Ok_0.pats() == self.pats(),
    { unimplemented!() }
}

// globset::GlobSet: is_match(path) <=> some glob of the set matches the path's bytes
#[verifier::external_body]
struct GlobSet { inner: u8 }
impl GlobSet {
    uninterp spec fn pats(&self) -> Seq<GlobSpec>;

    #[verifier::external_body]
    fn empty() -> (r: GlobSet)
        ensures r.pats() == Seq::<GlobSpec>::empty(),
    { unimplemented!() }

    // real signature: is_match<P: AsRef<Path>>(&self, path: P); called with an Apath (AsRef<Path> = its text)
    #[verifier::external_body]
    fn is_match(&self, path: Apath) -> (r: bool)
        ensures r == any_match(self.pats(), path.bytes()),
    { unimplemented!() }
}

// ---- std pieces -------------------------------------------------------------------------------------

// things that `format!("{x}")` prints as their text
trait StrLike {
    spec fn text(&self) -> Seq<u8>;
}
impl StrLike for &str {
    spec fn text(&self) -> Seq<u8> { self.spec_bytes() }
}
impl StrLike for String {
    spec fn text(&self) -> Seq<u8> { vstd::utf8::encode_utf8(self@) }
}

// R5: format!("<pre>{x}<post>") is the concatenation of the three pieces
#[verifier::external_body]
fn shim_fmt3<S: StrLike>(pre: &str, x: &S, post: &str) -> (r: String)
    ensures vstd::utf8::encode_utf8(r@) == pre.spec_bytes() + x.text() + post.spec_bytes(),
{ unimplemented!() }

// Cow<str> is replaced by String (rewrite): Cow::Borrowed(s) / Cow::Owned(s) both denote the text s
#[verifier::external_body]
fn shim_cow_borrowed(s: &str) -> (r: String)
    ensures vstd::utf8::encode_utf8(r@) == s.spec_bytes(),
{ s.to_string() }

fn shim_cow_owned(s: String) -> (r: String)
    ensures r == s,
{ s }

// `<&A as Into<Apath>>::into` (impls: &str, &String, &Apath ...): the apath with the text of `a`
uninterp spec fn apath_text<A: ?Sized>(a: &A) -> Seq<u8>;

#[verifier::external_body]
fn shim_into_apath<A: ?Sized>(a: &A) -> (r: Apath)
    ensures r.bytes() == apath_text(a),
{ unimplemented!() }

proof fn lemma_affix_bytes()
    ensures
        "**/".spec_bytes() == anywhere_prefix(),
        "/**".spec_bytes() == subtree_suffix(),
        "".spec_bytes() == Seq::<u8>::empty(),
{
    reveal_strlit("**/");
    reveal_strlit("/**");
    reveal_strlit("");
    vstd::utf8::is_ascii_chars_encode_utf8("**/"@);
    vstd::utf8::is_ascii_chars_encode_utf8("/**"@);
    vstd::utf8::is_ascii_chars_encode_utf8(""@);
    assert("**/".spec_bytes() =~= anywhere_prefix());
    assert("/**".spec_bytes() =~= subtree_suffix());
    assert("".spec_bytes() =~= Seq::<u8>::empty());
}

// ---- pieces used only by Exclude::from_patterns_and_files ----------------------------------------------

// R6: `for x in E` is `let mut it = IntoIterator::into_iter(E); loop { match it.next() { Some(x) => .., None => break } }`.
// The items an IntoIterator value will yield are a ghost sequence; next() pops its head.
uninterp spec fn items_of<I: IntoIterator>(i: I) -> Seq<I::Item>;

#[verifier::external_body]
#[verifier::reject_recursive_types(I)]
struct ShimIter<I: IntoIterator> { inner: I::IntoIter }

impl<I: IntoIterator> ShimIter<I> {
    uninterp spec fn rem(&self) -> Seq<I::Item>;

    #[verifier::external_body]
    fn next(&mut self) -> (r: Option<I::Item>)
        ensures
            old(self).rem().len() == 0 ==> r.is_none() && final(self).rem() == old(self).rem(),
            old(self).rem().len() > 0 ==> r.is_some() && r.unwrap() == old(self).rem()[0]
                && final(self).rem() == old(self).rem().skip(1),
    { self.inner.next() }
}

#[verifier::external_body]
fn shim_into_iter<I: IntoIterator>(i: I) -> (r: ShimIter<I>)
    ensures r.rem() == items_of(i),
{ ShimIter { inner: i.into_iter() } }

// `<A as AsRef<str>>::as_ref`: the text a pattern argument stands for
uninterp spec fn as_ref_text<A>(a: A) -> Seq<u8>;

#[verifier::external_body]
fn shim_as_ref_str<A: AsRef<str>>(a: &A) -> (r: &str)
    ensures r.spec_bytes() == as_ref_text(*a),
{ a.as_ref() }

spec fn pattern_texts<A>(s: Seq<A>) -> Seq<Seq<u8>> { Seq::new(s.len(), |i: int| as_ref_text(s[i])) }

// the patterns found in an exclude-from file (its non-comment, non-blank lines, trimmed): not modelled further
uninterp spec fn file_patterns<P>(path: P) -> Seq<Seq<u8>>;

spec fn file_globs<P>(paths: Seq<P>) -> Seq<GlobSpec>
    decreases paths.len()
{
    if paths.len() == 0 { Seq::<GlobSpec>::empty() }
    else { file_globs(paths.drop_last()) + expand_all(file_patterns(paths.last())) }
}

// ASSUMED contract of excludes.rs::add_patterns_from_file (not under contract in this unit: its `for` head is an
// iterator chain over fs::read_to_string): on Ok every pattern of the file went through add_pattern, in order.
#[verifier::external_body]
fn shim_add_patterns_from_file<P: AsRef<std::path::Path>>(gsb: &mut GlobSetBuilder, path: &P) -> (r: Result<()>)
    ensures r is Ok ==> final(gsb).pats() == old(gsb).pats() + expand_all(file_patterns(*path)),
{ unimplemented!() }

proof fn lemma_expand_all_push(ps: Seq<Seq<u8>>, p: Seq<u8>)
    ensures expand_all(ps.push(p)) == expand_all(ps) + expand_one(p),
{
    assert(ps.push(p).drop_last() =~= ps);
}

proof fn lemma_pattern_texts_step<A>(all: Seq<A>, k: int)
    requires 0 <= k < all.len(),
    ensures pattern_texts(all.take(k + 1)) == pattern_texts(all.take(k)).push(as_ref_text(all[k])),
{
    assert(pattern_texts(all.take(k + 1)) =~= pattern_texts(all.take(k)).push(as_ref_text(all[k])));
}

proof fn lemma_file_globs_step<P>(all: Seq<P>, k: int)
    requires 0 <= k < all.len(),
    ensures file_globs(all.take(k + 1)) == file_globs(all.take(k)) + expand_all(file_patterns(all[k])),
{
    assert(all.take(k + 1).drop_last() =~= all.take(k));
}

// all patterns of a list of exclude-from files, in order
spec fn all_file_patterns<P>(paths: Seq<P>) -> Seq<Seq<u8>>
    decreases paths.len()
{
    if paths.len() == 0 { Seq::<Seq<u8>>::empty() } else { all_file_patterns(paths.drop_last()) + file_patterns(paths.last()) }
}

// the set built by from_patterns_and_files(E, F) is the expansion of ONE pattern list: E's texts then F's lines
proof fn lemma_file_globs_is_expansion<P>(paths: Seq<P>)
    ensures file_globs(paths) == expand_all(all_file_patterns(paths)),
    decreases paths.len()
{
    if paths.len() > 0 {
        lemma_file_globs_is_expansion(paths.drop_last());
        lemma_expand_all_concat(all_file_patterns(paths.drop_last()), file_patterns(paths.last()));
    }
}

proof fn lemma_built_set_is_one_pattern_list<A, P>(es: Seq<A>, fs: Seq<P>)
    ensures expand_all(pattern_texts(es)) + file_globs(fs) == expand_all(pattern_texts(es) + all_file_patterns(fs)),
{
    lemma_file_globs_is_expansion(fs);
    lemma_expand_all_concat(pattern_texts(es), all_file_patterns(fs));
}
