// ---- gc_shims: vocabulary and shims for unit `gc` (DESIGN 3 R3/R4/R6/R7, 4.3, 4.4, 7 C05, 7 C07 last bullet) ----
//@@ include select_types.rs
//@@ include store_spec.rs

// Contracts proved in unit `select` (modular: only the contract is visible here).
impl Archive {
//@@ stub select src/archive.rs | impl Archive | list_band_ids
//@@ stub select src/archive.rs | impl Archive | last_band_id
}

// ------------------------------------------------------------------------------------------------
// BlockHash as a HashSet key.  src/blockhash.rs implements PartialEq/Hash on the 64 hash bytes.
// ASSUMED: those impls obey vstd's key model (equal keys <=> equal values, deterministic hash).
impl PartialEq for BlockHash {
    #[verifier::external_body]
    fn eq(&self, o: &Self) -> bool { self.bin == o.bin }
}
impl Eq for BlockHash {}
impl std::hash::Hash for BlockHash {
    #[verifier::external_body]
    fn hash<H: std::hash::Hasher>(&self, state: &mut H) { self.bin.hash(state) }
}
#[verifier::external_body]
proof fn axiom_blockhash_key_model()
    ensures vstd::std_specs::hash::obeys_key_model::<BlockHash>(),
{ }

// ------------------------------------------------------------------------------------------------
// What an index says.  R3: IndexEntry (src/index/entry.rs) is opaque here; only its `addrs` matter.
#[verifier::external_body]
struct IndexEntry { _p: () }
impl IndexEntry {
    uninterp spec fn addrs(&self) -> Seq<Address>;
}

// all addresses of a hunk, in order  (== hunk.into_iter().flat_map(|entry| entry.addrs))
spec fn flat_addrs(hunk: Seq<IndexEntry>) -> Seq<Address>
    decreases hunk.len()
{
    if hunk.len() == 0 { Seq::<Address>::empty() } else { flat_addrs(hunk.drop_last()) + hunk.last().addrs() }
}

spec fn addrs_hashes(s: Seq<Address>) -> Set<BlockHash>
    decreases s.len()
{
    if s.len() == 0 { Set::<BlockHash>::empty() } else { addrs_hashes(s.drop_last()).insert(s.last().hash) }
}

// every hash named by any entry of a hunk
spec fn hunk_hashes(hunk: Seq<IndexEntry>) -> Set<BlockHash> { addrs_hashes(flat_addrs(hunk)) }

spec fn hunks_hashes(hs: Seq<Seq<IndexEntry>>) -> Set<BlockHash>
    decreases hs.len()
{
    if hs.len() == 0 { Set::<BlockHash>::empty() } else { hunks_hashes(hs.drop_last()).union(hunk_hashes(hs.last())) }
}

impl Archive {
    // EVERY index hunk present in band `b` (decoded), in hunk-number order -- the thing C05 quantifies over:
    // "no block referenced by any remaining version".  Not "the hunks some reader managed to read".
    uninterp spec fn hunks_of(&self, b: BandId) -> Seq<Seq<IndexEntry>>;
    // the block files present in d/ when the operation listed them
    uninterp spec fn present_blocks(&self) -> Set<BlockHash>;
}

spec fn band_hashes(a: Archive, b: BandId) -> Set<BlockHash> { hunks_hashes(a.hunks_of(b)) }

spec fn bands_hashes(a: Archive, ids: Seq<BandId>) -> Set<BlockHash>
    decreases ids.len()
{
    if ids.len() == 0 { Set::<BlockHash>::empty() } else { bands_hashes(a, ids.drop_last()).union(band_hashes(a, ids.last())) }
}

// C05 vocabulary: h is named by some version that exists and is not being deleted
spec fn referenced_by_kept(a: Archive, delete: Seq<BandId>, h: BlockHash) -> bool {
    exists|b: BandId| a.band_set().contains(b) && !delete.contains(b) && #[trigger] band_hashes(a, b).contains(h)
}

spec fn is_subseq<T>(a: Seq<T>, b: Seq<T>) -> bool
    decreases b.len()
{
    if a.len() == 0 { true }
    else if b.len() == 0 { false }
    else { (a.last() == b.last() && is_subseq(a.drop_last(), b.drop_last())) || is_subseq(a, b.drop_last()) }
}

proof fn lemma_subseq_hashes(a: Seq<Seq<IndexEntry>>, b: Seq<Seq<IndexEntry>>)
    requires is_subseq(a, b),
    ensures hunks_hashes(a).subset_of(hunks_hashes(b)),
    decreases b.len()
{
    if a.len() == 0 {
    } else if b.len() == 0 {
    } else if a.last() == b.last() && is_subseq(a.drop_last(), b.drop_last()) {
        lemma_subseq_hashes(a.drop_last(), b.drop_last());
    } else {
        lemma_subseq_hashes(a, b.drop_last());
    }
}

proof fn lemma_subseq_refl<T>(a: Seq<T>)
    ensures is_subseq(a, a),
    decreases a.len()
{
    if a.len() > 0 { lemma_subseq_refl(a.drop_last()); }
}

proof fn lemma_addrs_hashes_push(s: Seq<Address>, x: Address)
    ensures addrs_hashes(s.push(x)) == addrs_hashes(s).insert(x.hash),
{
    assert(s.push(x).drop_last() =~= s);
}

proof fn lemma_hunks_hashes_push(hs: Seq<Seq<IndexEntry>>, h: Seq<IndexEntry>)
    ensures hunks_hashes(hs.push(h)) == hunks_hashes(hs).union(hunk_hashes(h)),
{
    assert(hs.push(h).drop_last() =~= hs);
}

proof fn lemma_bands_hashes_push(a: Archive, ids: Seq<BandId>, b: BandId)
    ensures bands_hashes(a, ids.push(b)) == bands_hashes(a, ids).union(band_hashes(a, b)),
{
    assert(ids.push(b).drop_last() =~= ids);
}

proof fn lemma_bands_hashes_has(a: Archive, s: Seq<BandId>, i: int, h: BlockHash)
    requires 0 <= i < s.len(), band_hashes(a, s[i]).contains(h),
    ensures bands_hashes(a, s).contains(h),
    decreases s.len()
{
    if i < s.len() - 1 { lemma_bands_hashes_has(a, s.drop_last(), i, h); }
}

proof fn lemma_kept_refs(a: Archive, keep: Seq<BandId>, delete: Seq<BandId>, h: BlockHash)
    requires forall|b: BandId| keep.contains(b) <==> (a.band_set().contains(b) && !delete.contains(b)),
    ensures bands_hashes(a, keep).contains(h) <==> referenced_by_kept(a, delete, h),
{
    if bands_hashes(a, keep).contains(h) {
        let i = lemma_bands_hashes_witness(a, keep, h);
        assert(keep.contains(keep[i]));
        assert(band_hashes(a, keep[i]).contains(h));
    }
    if referenced_by_kept(a, delete, h) {
        let b = choose|b: BandId| a.band_set().contains(b) && !delete.contains(b) && #[trigger] band_hashes(a, b).contains(h);
        assert(keep.contains(b));
        let i = choose|i: int| 0 <= i < keep.len() && keep[i] == b;
        lemma_bands_hashes_has(a, keep, i, h);
    }
}

proof fn lemma_bands_hashes_witness(a: Archive, s: Seq<BandId>, h: BlockHash) -> (i: int)
    requires bands_hashes(a, s).contains(h),
    ensures 0 <= i < s.len() && band_hashes(a, s[i]).contains(h),
    decreases s.len()
{
    if s.len() == 0 { 0 }
    else if band_hashes(a, s.last()).contains(h) { s.len() - 1 }
    else { lemma_bands_hashes_witness(a, s.drop_last(), h) }
}

// ------------------------------------------------------------------------------------------------
// Reading an index.  R3 shims for IndexRead / IndexHunkIter (src/index/mod.rs).
//
// THE MODELLING POINT (C05 "a storage read fails while it is working out what is referenced"):
// the real `IndexHunkIter::next` does `Err(_err) => continue` on a hunk that cannot be read or decoded and
// `Ok(None) => return None` on the first listed-but-missing hunk.  So what it yields is a SUB-SEQUENCE of the
// band's hunks, and a caller cannot tell whether anything was skipped.  The contract of `next` says exactly
// that and nothing more.  `try_next` is the contract of the proposed fallible variant (see report): it
// yields every hunk in order, and `Ok(None)` means all of them were yielded.
#[verifier::external_body]
struct IndexRead { _p: () }

#[verifier::external_body]
struct IndexHunkIter { _p: () }

impl IndexHunkIter {
    // every hunk present in the band this iterator reads
    uninterp spec fn all(&self) -> Seq<Seq<IndexEntry>>;
    // the hunks yielded so far
    uninterp spec fn taken(&self) -> Seq<Seq<IndexEntry>>;
    // an upper bound of the number of calls that can still return a hunk (the listing is finite)
    uninterp spec fn left(&self) -> nat;

    #[verifier::external_body]
    async fn next(&mut self) -> (r: Option<Vec<IndexEntry>>)
        requires is_subseq(old(self).taken(), old(self).all()),
        ensures
            final(self).all() == old(self).all(),
            is_subseq(final(self).taken(), final(self).all()),
            r matches Some(h) ==> final(self).taken() == old(self).taken().push(h@) && final(self).left() < old(self).left(),
            r is None ==> final(self).taken() == old(self).taken(),
    { unimplemented!() }

    // Contract of the PROPOSED fallible variant (valid for an iterator that has only ever been advanced with
    // `try_next`): it never skips, so `Ok(None)` means every hunk of the band has been yielded; a hunk that
    // cannot be read or decoded is an `Err`.
    #[verifier::external_body]
    async fn try_next(&mut self) -> (r: Result<Option<Vec<IndexEntry>>>)
        requires is_subseq(old(self).taken(), old(self).all()),
        ensures
            final(self).all() == old(self).all(),
            is_subseq(final(self).taken(), final(self).all()),
            r matches Ok(Some(h)) ==> final(self).taken() == old(self).taken().push(h@) && final(self).left() < old(self).left(),
            r matches Ok(None) ==> final(self).taken() == old(self).taken() && final(self).taken() == final(self).all(),
    { unimplemented!() }
}

impl IndexRead {
    uninterp spec fn band_home(&self) -> Archive;
    uninterp spec fn band_sid(&self) -> BandId;

    // Contract of the fallible constructor (proved in unit `hunkiter`: Ok(r) ⇒ r's hunk numbers are the
    // complete listing of the index directory; a listing failure is an Err).  In gc's vocabulary: on Ok the
    // iterator ranges over every hunk present in the band.
    #[verifier::external_body]
    async fn try_iter_available_hunks(self) -> (r: Result<IndexHunkIter>)
        ensures
            r matches Ok(it) ==> it.all() == self.band_home().hunks_of(self.band_sid())
                && it.taken() == Seq::<Seq<IndexEntry>>::empty(),
            r matches Err(e) ==> e is Other,
    { unimplemented!() }
}

impl Band {
    #[verifier::external_body]
    fn index(&self) -> (r: IndexRead)
        ensures r.band_home() == self.home(), r.band_sid() == self.sid(),
    { unimplemented!() }
}

// R7 (lifted verbatim from `Archive::referenced_blocks`):   hunk.into_iter().flat_map(|entry| entry.addrs)
// collected, so that R6 can iterate it.  ASSUMED contract: concatenation of the entries' address lists.
#[verifier::external_body]
fn r7_flat_addrs(hunk: Vec<IndexEntry>) -> (r: Vec<Address>)
    ensures r@ == flat_addrs(hunk@),
{ unimplemented!() }

// ------------------------------------------------------------------------------------------------
// R6 iterator shims (std slice::Iter / vec::IntoIter / hash_set::Iter): `rem()` = what is still to come.
#[verifier::external_body]
#[verifier::reject_recursive_types(T)]
struct RefIter<'a, T> { inner: std::slice::Iter<'a, T> }

impl<'a, T> RefIter<'a, T> {
    uninterp spec fn rem(&self) -> Seq<T>;

    #[verifier::external_body]
    fn next(&mut self) -> (r: Option<&'a T>)
        ensures
            old(self).rem().len() == 0 ==> r is None && final(self).rem() == old(self).rem(),
            old(self).rem().len() > 0 ==> r == Some(&old(self).rem()[0]) && final(self).rem() == old(self).rem().skip(1),
    { self.inner.next() }
}

// `for x in S` / `S.iter()` for a slice S
#[verifier::external_body]
fn shim_iter_slice<'a, T>(s: &'a [T]) -> (r: RefIter<'a, T>)
    ensures r.rem() == s@,
{ RefIter { inner: s.iter() } }

// `for x in &V` for a Vec V
#[verifier::external_body]
fn shim_iter_vec<'a, T>(v: &'a Vec<T>) -> (r: RefIter<'a, T>)
    ensures r.rem() == v@,
{ RefIter { inner: v.iter() } }

#[verifier::external_body]
#[verifier::reject_recursive_types(T)]
struct OwnIter<T> { inner: std::vec::IntoIter<T> }

impl<T> OwnIter<T> {
    uninterp spec fn rem(&self) -> Seq<T>;

    #[verifier::external_body]
    fn next(&mut self) -> (r: Option<T>)
        ensures
            old(self).rem().len() == 0 ==> r is None && final(self).rem() == old(self).rem(),
            old(self).rem().len() > 0 ==> r == Some(old(self).rem()[0]) && final(self).rem() == old(self).rem().skip(1),
    { self.inner.next() }
}

// `for x in V` for a Vec V (by value)
#[verifier::external_body]
fn shim_into_iter<T>(v: Vec<T>) -> (r: OwnIter<T>)
    ensures r.rem() == v@,
{ OwnIter { inner: v.into_iter() } }

// `for h in V` (V: Vec<&BlockHash>, by value) and `for h in &S` (S: HashSet<BlockHash>): both yield &BlockHash
#[verifier::external_body]
struct HashRefIter<'a> { inner: std::vec::IntoIter<&'a BlockHash> }

impl<'a> HashRefIter<'a> {
    uninterp spec fn rem(&self) -> Seq<BlockHash>;

    #[verifier::external_body]
    fn next(&mut self) -> (r: Option<&'a BlockHash>)
        ensures
            old(self).rem().len() == 0 ==> r is None && final(self).rem() == old(self).rem(),
            old(self).rem().len() > 0 ==> r == Some(&old(self).rem()[0]) && final(self).rem() == old(self).rem().skip(1),
    { self.inner.next() }
}

#[verifier::external_body]
fn shim_into_iter_hashrefs<'a>(v: Vec<&'a BlockHash>) -> (r: HashRefIter<'a>)
    ensures r.rem() == derefs(v@),
{ HashRefIter { inner: v.into_iter() } }

// every element once, in some order
#[verifier::external_body]
fn shim_iter_set<'a>(s: &'a HashSet<BlockHash>) -> (r: HashRefIter<'a>)
    ensures r.rem().no_duplicates(), r.rem().to_set() == s@,
{ unimplemented!() }

// ------------------------------------------------------------------------------------------------
// R4 shims (std / itertools)
spec fn derefs(s: Seq<&BlockHash>) -> Seq<BlockHash> { s.map_values(|p: &BlockHash| *p) }

// std Vec::retain(|b| !D.contains(b)): keeps, in order, exactly the elements for which the closure is true.
#[verifier::external_body]
fn shim_retain_not_in(v: &mut Vec<BandId>, d: &[BandId])
    ensures
        final(v)@ == old(v)@.filter(|b: BandId| !d@.contains(b)),
        forall|b: BandId| final(v)@.contains(b) <==> old(v)@.contains(b) && !d@.contains(b),
{ v.retain(|b| !d.contains(b)) }

// std Vec::retain(|b| D.contains(b))  (only reachable after an edit of the source)
#[verifier::external_body]
fn shim_retain_in(v: &mut Vec<BandId>, d: &[BandId])
    ensures
        final(v)@ == old(v)@.filter(|b: BandId| d@.contains(b)),
        forall|b: BandId| final(v)@.contains(b) <==> old(v)@.contains(b) && d@.contains(b),
{ v.retain(|b| d.contains(b)) }

// std HashSet::difference + itertools collect_vec: the elements of A that are not in B, each once.
#[verifier::external_body]
fn shim_difference_vec<'a>(a: &'a HashSet<BlockHash>, b: &'a HashSet<BlockHash>) -> (r: Vec<&'a BlockHash>)
    ensures
        derefs(r@).no_duplicates(),
        derefs(r@).to_set() == a@.difference(b@),
{ a.difference(b).collect() }

// std: Result::unwrap_or
pub assume_specification<T, E>[ std::result::Result::<T, E>::unwrap_or ](r: std::result::Result<T, E>, default: T) -> (v: T)
    ensures v == (match r { Ok(t) => t, Err(_) => default });

// ------------------------------------------------------------------------------------------------
// R3 shims: monitor, stats, options
#[verifier::external_body]
struct MonitorArc { _p: () }          // Arc<dyn Monitor>: progress/observability only
impl Clone for MonitorArc {
    #[verifier::external_body]
    fn clone(&self) -> (r: Self) { unimplemented!() }
}

#[verifier::external_body]
struct Duration { _p: () }            // std::time::Duration (only stored)

//@@ type src/stats.rs | struct DeleteStats
//@@ end

//@@ type src/archive.rs | struct DeleteOptions
//@@ end

// #[derive(Default)] on DeleteStats: all counters zero
#[verifier::external_body]
fn shim_delete_stats_default() -> (r: DeleteStats)
    ensures
        r.deleted_band_count == 0, r.unreferenced_block_count == 0, r.unreferenced_block_bytes == 0,
        r.deletion_errors == 0, r.deleted_block_count == 0,
{ unimplemented!() }

impl Clone for Archive {
    // #[derive(Clone)]: a second handle on the same storage
    #[verifier::external_body]
    fn clone(&self) -> (r: Self)
        ensures r == *self,
    { unimplemented!() }
}

// ------------------------------------------------------------------------------------------------
// The lock (src/gc_lock.rs)
const GC_LOCK: &'static str = "GC_LOCK";

//@@ type src/transport.rs | enum WriteMode
//@@ end

//@@ type src/gc_lock.rs | struct GarbageCollectionLock
//@@ end

// 4.3 monotone knowledge, positive only: what this operation has observed about the lock file
uninterp spec fn observed_absent(t: Transport, path: Seq<char>) -> bool;
uninterp spec fn observed_present(t: Transport, path: Seq<char>) -> bool;

impl Transport {
    #[verifier::external_body]
    async fn is_file(&self, path: &str) -> (r: TResult<bool>)
        ensures
            r matches Ok(false) ==> observed_absent(*self, path@),
            r matches Ok(true) ==> observed_present(*self, path@),
    { unimplemented!() }

    // C07: every write passes CreateNew.
    #[verifier::external_body]
    async fn write(&self, relpath: &str, content: &[u8], mode: WriteMode) -> (r: TResult<()>)
        requires
            mode is CreateNew, //# C07.writes_are_create_new
    { unimplemented!() }

    // 4.4 guarded destructive primitive.  In the code reachable from `delete_bands` the only single FILE ever
    // removed through the archive-root transport is the operation's own lock file.
    #[verifier::external_body]
    async fn remove_file(&self, relpath: &str) -> (r: TResult<()>)
        requires
            relpath@ == "GC_LOCK"@, //# C07.gc_removes_only_its_own_lock_file
    { unimplemented!() }
}

spec fn newest_is(a: Archive, cur: Option<BandId>) -> bool {
    match cur {
        Some(m) => is_max_of(m, a.band_set()),
        None => a.band_set() =~= Set::<BandId>::empty(),
    }
}

// `Archive::band_is_closed`: the shim of prelude/select_types.rs (included above) is used; LINK select.band_is_closed.

// ------------------------------------------------------------------------------------------------
// 4.4 permissions.  `*_allowed` / `lock_checked` are uninterpreted and can only be OBTAINED from the
// `grant_*` proof functions below; their `requires` ARE the definition of the permission (contract
// vocabulary taken from the C05/C07 statements, not an assumption about code).  The destructive shims
// require the permission, so every call site carries the property as a proof obligation, independently of
// how many destructive calls preceded it: a delete killed at any point has only removed what was allowed.
uninterp spec fn lock_checked(l: GarbageCollectionLock) -> bool;
uninterp spec fn band_delete_allowed(a: Archive, id: BandId) -> bool;
uninterp spec fn block_delete_allowed(a: Archive, h: BlockHash) -> bool;

// "no new version has appeared since the lock was taken": the newest band id read NOW equals the one
// recorded by `new`.
#[verifier::external_body]
proof fn grant_lock_checked(l: GarbageCollectionLock, cur: Option<BandId>)
    requires
        l.band_id == cur, //# C05.check_newest_band_unchanged
        newest_is(l.archive, cur), //# C05.check_reads_current_newest_band
    ensures lock_checked(l),
{ }

#[verifier::external_body]
proof fn grant_band_delete(a: Archive, id: BandId, delete: Seq<BandId>, dry_run: bool, l: GarbageCollectionLock)
    requires
        !dry_run, //# C05.dry_run_changes_nothing
        delete.contains(id), //# C05.only_requested_bands,C07.only_requested_bands
        l.archive == a && lock_checked(l), //# C05.check_before_delete
    ensures band_delete_allowed(a, id),
{ }

#[verifier::external_body]
proof fn grant_block_delete(a: Archive, h: BlockHash, delete: Seq<BandId>, dry_run: bool, l: GarbageCollectionLock)
    requires
        !dry_run, //# C05.dry_run_changes_nothing
        !referenced_by_kept(a, delete, h), //# C05.never_delete_referenced_block,C07.only_unreferenced_blocks
        l.archive == a && lock_checked(l), //# C05.check_before_delete
    ensures block_delete_allowed(a, h),
{ }

// positive knowledge produced by the destructive primitives
uninterp spec fn band_delete_done(a: Archive, id: BandId) -> bool;
uninterp spec fn block_delete_attempted(a: Archive, h: BlockHash) -> bool;
uninterp spec fn block_delete_done(a: Archive, h: BlockHash) -> bool;

impl Band {
    // `Band::delete` (src/band.rs): remove_dir_all("<band_id>") on the archive root.
    #[verifier::external_body]
    async fn delete(archive: &Archive, band_id: BandId) -> (r: Result<()>)
        requires band_delete_allowed(*archive, band_id),
        ensures r is Ok ==> band_delete_done(*archive, band_id),
    { unimplemented!() }
}

// R3: BlockDir (src/blockdir.rs), opaque.
#[verifier::external_body]
struct BlockDir { _p: () }

impl BlockDir {
    uninterp spec fn home(&self) -> Archive;

    // metadata(block file).len -- a read
    #[verifier::external_body]
    async fn compressed_size(&self, hash: &BlockHash) -> (r: Result<u64>)
    { unimplemented!() }

    // remove_file(block file) + forget it in the presence cache
    #[verifier::external_body]
    async fn delete_block(&self, hash: &BlockHash) -> (r: Result<()>)
        requires block_delete_allowed(self.home(), *hash),
        ensures
            block_delete_attempted(self.home(), *hash),
            r is Ok ==> block_delete_done(self.home(), *hash),
    { unimplemented!() }
}

// R7 (lifted verbatim from `Archive::delete_bands`):   block_dir.blocks().iter().cloned().collect()
// ASSUMED contract: a copy of the set of block names that `BlockDir::open` listed.
#[verifier::external_body]
fn r7_present_set(block_dir: &BlockDir) -> (r: HashSet<BlockHash>)
    ensures r@ == block_dir.home().present_blocks(),
{ unimplemented!() }

impl Archive {
    // `Archive::block_dir` (src/archive.rs): BlockDir::open(d/) -- lists the block files
    #[verifier::external_body]
    async fn block_dir(&self) -> (r: Result<Arc<BlockDir>>)
        ensures r matches Ok(bd) ==> bd.home() == *self,
    { unimplemented!() }
}


// Ghost phase marker threaded through delete_bands (rule R8: a trailing tracked parameter, nothing else changes):
// true exactly while the block-deletion sweep is running.
tracked struct GcPhase {
    ghost deleting_blocks: bool,
}
