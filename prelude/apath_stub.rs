// Apath as seen by OTHER units: the type plus the contracts proved in unit `apath` (modular: callers see
// only the contract, never the body).
//@@ include apath_type.rs

impl Apath {
//@@ stub apath src/apath.rs | impl Ord for Apath | cmp
//@@ stub apath src/apath.rs | impl Apath | is_prefix_of
//@@ stub apath src/apath.rs | impl Apath | append
}

impl Clone for Apath {
    #[verifier::external_body]
    fn clone(&self) -> (r: Self)
        ensures r@ == self@,
    { Apath(self.0.clone()) }
}
