// ---- localread_root: ROOT-level declarations of unit `localread` ----
// Enums that are compared with `==` in exec code need `derive(Structural)`, and this Verus ICEs on that derive inside a
// nested module: so the two real enums are cut here, at the root, and re-imported by name inside `mod lr`.
// (prelude/localwrite_fs.rs, included before this file, already owns the root names `ErrorKind` -- its reduced
// std::io::ErrorKind --, `Error`, `Metadata`, `Result`: the transport-level declarations of the same names live in
// `mod lr`, where an explicit declaration shadows the glob import.)

// transport::ErrorKind, the real declaration (R11).  Renamed at the root only (`use super::TransportErrorKind as ErrorKind`
// gives it its real name back in `mod lr`).
//@@ type src/transport/error.rs | enum ErrorKind derive=Clone,Copy,PartialEq,Eq,Structural
//@ rewrite
[n=1] enum ErrorKind ==> enum TransportErrorKind
//@@ end

// crate::Kind, the real declaration (R11)
//@@ type src/kind.rs | enum Kind derive=Clone,Copy,PartialEq,Eq,Structural
//@@ end
