// ---- hunkiter_trynext: vocabulary for IndexHunkIter::try_next (src/index/mod.rs), the fallible iteration gc uses ----
// requires hunkiter_types.rs, hunkiter_spec.rs

// R5: `Error::IndexHunkMissing { hunk_number }`.  crate::Error is opaque in this unit (hunkiter_types.rs); the one
// variant try_next constructs is kept as a discriminant: `missing_hunk()` is Some(n) exactly for
// `Error::IndexHunkMissing { hunk_number: n }`.
impl Error {
    uninterp spec fn missing_hunk(&self) -> Option<u32>;

    #[verifier::external_body]
    fn shim_index_hunk_missing(hunk_number: u32) -> (e: Error)
        ensures e.missing_hunk() == Some(hunk_number),
    { unimplemented!() /* Error::IndexHunkMissing { hunk_number } */ }
}

// EVERY listed hunk, decoded, in listing order -- or None when some listed hunk is missing or unreadable.
// This is what gc_shims.rs calls `all()` ("every hunk present in the band"), restricted to the hunk numbers still to
// visit: the thing C05 quantifies over ("no block referenced by ANY remaining version"), not "what some reader got".
spec fn all_listed(view: HunkView, rem: Seq<u32>) -> Option<Seq<Seq<IndexEntry>>>
    decreases rem.len()
{
    if rem.len() == 0 { Some(Seq::<Seq<IndexEntry>>::empty()) }
    else if !view.contains_key(rem[0]) { None }
    else {
        match view[rem[0]] {
            Err(_) => None,
            Ok(es) => match all_listed(view, rem.skip(1)) {
                None => None,
                Some(rest) => Some(seq![es] + rest),
            },
        }
    }
}
