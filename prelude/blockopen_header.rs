// ---- blockopen_header: the crate side of Archive::{create, open} (src/archive.rs) ----
// Expanded inside `mod header { .. mod krate { use super::*; .. } }`: `super` holds unit jsonio's universe
// (prelude/jsonio_shims.rs, unchanged: Transport with read_outcome / file_written, Serialize, DeserializeOwned, jsonio's
// Error) and the stubs of write_json / read_json; `Error` / `Result` declared HERE are crate::Error / crate::Result and
// shadow jsonio's, exactly as in the sources (layout of unit bandinfo).

// transport::ErrorKind is declared at the ROOT of the unit (derive(Structural) crashes this Verus inside a module)
use crate::ErrorKind;

// crate::Error (src/errors.rs), reduced (R3/R5) to the variants the two bodies construct; `Other` = every other variant,
// in particular what `impl From<transport::Error>` and `impl From<jsonio::Error>` build (same folding as bandinfo_crate.rs).
enum Error {
    NewArchiveDirectoryNotEmpty,
    NotAnArchive,
    UnsupportedArchiveVersion { version: String },
    Other,
}

type Result<T> = std::result::Result<T, Error>;

// src/errors.rs `Transport { #[from] source: transport::Error }`
impl From<TransportError> for Error {
    #[verifier::external_body]
    fn from(source: TransportError) -> (r: Error)
        ensures r is Other,
    { Error::Other }
}

// src/errors.rs `impl From<jsonio::Error> for Error` (three arms: IOError / DeserializeJson / Transport, all `Other` here)
impl From<super::Error> for Error {
    #[verifier::external_body]
    fn from(value: super::Error) -> (r: Error)
        ensures r is Other,
    { Error::Other }
}

// ASSUMED: what `?` does with these errors (vstd models the conversion in `?` by the relation `spec_from`); same idiom as
// bandinfo_crate.rs / band_shims.rs.
mod blockopen_from_axioms {
    use super::*;
    #[verifier::external_body]
    pub broadcast proof fn axiom_error_from_transport_error(e: TransportError, r: Error)
        requires #[trigger] vstd::std_specs::control_flow::spec_from::<Error, TransportError>(e, r),
        ensures r is Other,
    { }
    #[verifier::external_body]
    pub broadcast proof fn axiom_error_from_jsonio_error(e: super::super::Error, r: Error)
        requires #[trigger] vstd::std_specs::control_flow::spec_from::<Error, super::super::Error>(e, r),
        ensures r is Other,
    { }
}
broadcast use {blockopen_from_axioms::axiom_error_from_transport_error, blockopen_from_axioms::axiom_error_from_jsonio_error};

// ---------- transport (R3): what `create` needs beyond jsonio_shims.rs ----------
// transport::DirEntry: `create` only asks whether there are any
#[verifier::external_body]
struct DirEntry { _p: () }

impl TransportError {
    // transport::Error::kind (src/transport/error.rs): `self.kind`; not_found() (jsonio_shims.rs) = "kind is NotFound"
    #[verifier::external_body]
    fn kind(&self) -> (r: ErrorKind)
        ensures (r == ErrorKind::NotFound) == self.not_found(),
    { unimplemented!() }
}

impl Transport {
    // what `list_dir("")` on this transport yields during the current operation (same idiom as read_outcome):
    // Ok(entries) / Err(e) with e.not_found() = the directory does not exist / any other Err = storage fault
    uninterp spec fn root_listing(&self) -> std::result::Result<Seq<DirEntry>, TransportError>;

    // DESIGN 4.3 monotone knowledge, positive only: create_dir(relpath) on this transport has completed successfully
    uninterp spec fn dir_created(&self, relpath: Seq<char>) -> bool;

    #[verifier::external_body]
    async fn list_dir(&self, relpath: &str) -> (r: std::result::Result<Vec<DirEntry>, TransportError>)
        ensures
            relpath@ == ""@ ==> (r matches Ok(v) ==> self.root_listing() == Ok::<Seq<DirEntry>, TransportError>(v@)),
            relpath@ == ""@ ==> (r matches Err(e) ==> self.root_listing() == Err::<Seq<DirEntry>, TransportError>(e)),
    { unimplemented!() }

    // "Create a directory (and parents); Ok if it already exists" (src/transport.rs)
    #[verifier::external_body]
    async fn create_dir(&self, relpath: &str) -> (r: std::result::Result<(), TransportError>)
        ensures r is Ok ==> self.dir_created(relpath@),
    { unimplemented!() }
}

// ---------- std (R4) ----------
// `String::from(&str)`: a copy of the text
#[verifier::external_body]
fn shim_string_from(s: &str) -> (r: String)
    ensures r@ == s@,
{ String::from(s) }

// `String != &str` / `String == &str` (`impl PartialEq<&str> for String`): text equality
#[verifier::external_body]
fn shim_string_eq_str(a: &String, b: &str) -> (r: bool)
    ensures r == (a@ == b@),
{ a == b }

// ---------- src/lib.rs, src/archive.rs (R11: cut from the sources, so an edit is seen) ----------
//@@ type src/lib.rs | const ARCHIVE_VERSION
//@ rewrite
const ARCHIVE_VERSION: &str ==> const ARCHIVE_VERSION: &'static str
//@@ end

//@@ type src/archive.rs | const HEADER_FILENAME
//@ rewrite
const HEADER_FILENAME: &str ==> const HEADER_FILENAME: &'static str
//@@ end

//@@ type src/archive.rs | static BLOCK_DIR
//@ rewrite
static BLOCK_DIR: &str ==> const BLOCK_DIR: &'static str
//@@ end

//@@ type src/archive.rs | struct Archive
//@@ end

// NOT used by the pinned tree (`Archive` is its transport and nothing else).  Declared so that an edit which adds a cached
// BlockDir to the handle (seeded C09-4: `block_dir: Arc<OnceCell<Arc<BlockDir>>>`, initialised with Default::default())
// leaves this module readable; the edit itself is judged at the root (lemma_archive_handle_holds_no_state, block_dir).
use std::sync::Arc;

#[verifier::external_body]
struct BlockDir { _p: () }

#[verifier::external_body]
#[verifier::reject_recursive_types(T)]
struct OnceCell<T> { _p: std::marker::PhantomData<T> }

impl<T> Default for OnceCell<T> {
    #[verifier::external_body]
    fn default() -> (r: Self)
    { unimplemented!() }
}

//@@ type src/archive.rs | struct ArchiveHeader
//@@ end

// serde `#[derive(Serialize, Deserialize)]` on ArchiveHeader (one String field).  ASSUMED: the JSON text is a function of
// the version string (format.md "Archive header": `{"conserve_archive_version":"0.6"}`), serialising it never fails;
// the decoder is uninterpreted (C10: ANY decoded value may come out of a damaged header).
uninterp spec fn archive_header_json(version: Seq<char>) -> Seq<char>;
uninterp spec fn archive_header_decode(b: Seq<u8>) -> Option<ArchiveHeader>;

impl Serialize for ArchiveHeader {
    closed spec fn json_text(&self) -> Seq<char> { archive_header_json(self.conserve_archive_version@) }
    closed spec fn json_fails(&self) -> bool { false }
}

impl DeserializeOwned for ArchiveHeader {
    closed spec fn json_decode(b: Seq<u8>) -> Option<Self> { archive_header_decode(b) }
}

// ---------- the contract vocabulary (format.md "Archive header"; C13, C10, C09) ----------
// the outcome of reading the header document of the archive at `t`: Ok(None) = no CONSERVE file, Err = storage fault or
// undecodable document (jsonio's read_json_spec)
spec fn header_read(t: Transport) -> std::result::Result<Option<ArchiveHeader>, ()> {
    read_json_spec::<ArchiveHeader>(&t, "CONSERVE"@)
}

// the header document of format 0.6 has been written, as ONE document followed by a newline, to CONSERVE
spec fn header_written(t: Transport, version: Seq<char>) -> bool {
    t.file_written("CONSERVE"@, sbytes(archive_header_json(version).push('\n')))
}
