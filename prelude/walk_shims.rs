// ---- walk_shims: ASSUMED contracts of what the source walk (src/source.rs Iter) touches outside itself
// (DESIGN.md R3/R4/R6).  Everything here is trusted; kept minimal.  Bodies are the forwarding calls where that is a
// one-liner, otherwise `unimplemented!()` with the real call named in a comment (the generated file is never run).

// ---- std::path::PathBuf: opaque.  For paths built by `Apath::below(root)` two ghost projections remember what the
// path was built from (pure provenance: no claim about the file system is attached to them). ----
#[verifier::external_body]
struct PathBuf { inner: std::path::PathBuf }

impl PathBuf {
    uninterp spec fn tree_root(&self) -> PathBuf;
    uninterp spec fn tree_apath(&self) -> Seq<char>;
    // for paths returned by `DirEntry::path`: which entry of which directory
    uninterp spec fn entry_dir(&self) -> PathBuf;
    uninterp spec fn entry_name(&self) -> Seq<u8>;

    // std: `Path::to_path_buf`: an owned copy
    #[verifier::external_body]
    fn to_path_buf(&self) -> (r: PathBuf)
        ensures r == *self,
    { PathBuf { inner: self.inner.clone() } }

    // std: `PathBuf::join` (result not mentioned by any contract)
    #[verifier::external_body]
    fn join(&self, name: OsString) -> (r: PathBuf)
    { PathBuf { inner: self.inner.join(name.inner) } }
}

// ---- the file system as the walk sees it.  ASSUMPTION (static tree, DESIGN.md 5 "the source tree does not change
// while it is being backed up"): what the OS answers for a directory, and for each probe of one of its entries, is a
// function of (directory path, entry name).  These functions ARE the abstract tree of DESIGN.md 4.7. ----
uninterp spec fn below_spec(root: PathBuf, a: Seq<char>) -> PathBuf;            // Apath::below
uninterp spec fn fs_listing(dir: PathBuf) -> Option<Seq<Option<Seq<u8>>>>;      // read_dir: None = fails; slots: Some(name) | None (unreadable)
uninterp spec fn fs_ft(dir: PathBuf, n: Seq<u8>) -> Option<bool>;               // file_type: None = error, Some(is a directory)
uninterp spec fn fs_tagged(dir: PathBuf, n: Seq<u8>) -> Option<bool>;           // cachedir::is_tagged: None = error
uninterp spec fn fs_meta_ok(dir: PathBuf, n: Seq<u8>) -> bool;                  // metadata() succeeds
uninterp spec fn fs_entry_ok(dir: PathBuf, n: Seq<u8>) -> bool;                 // entry_from_fs_metadata succeeds on it
uninterp spec fn is_utf8(b: Seq<u8>) -> bool;                                   // OsStr::to_str is Some

// `&Path` and `&PathBuf` are the same opaque thing here
type Path = PathBuf;

impl Apath {
    // conserve `Apath::below` (src/apath.rs, one line, not under contract): the OS path of this apath under a tree
    // root.  Called here with `&self.root_path`.
    #[verifier::external_body]
    fn below(&self, tree_root: &PathBuf) -> (r: PathBuf)
        ensures r == below_spec(*tree_root, self@), r.tree_root() == *tree_root, r.tree_apath() == self@,
    { unimplemented!() }  // self.below(tree_root)
}

// ---- std::io::Error / ErrorKind: only `kind()` and the `NotFound` discriminant are used (in dropped logging) ----
#[verifier::external_body]
struct IoError { inner: std::io::Error }

enum ErrorKind { NotFound, Other }

impl IoError {
    #[verifier::external_body]
    fn kind(&self) -> (r: ErrorKind)
    { if self.inner.kind() == std::io::ErrorKind::NotFound { ErrorKind::NotFound } else { ErrorKind::Other } }
}

// conserve::Error: only the variant the walk distinguishes is kept (R5: payloads of other errors are opaque)
enum Error { UnsupportedSourceKind { path: PathBuf }, Other }

// conserve: `type Result<T> = std::result::Result<T, Error>` (src/errors.rs)
type Result<T, E = Error> = std::result::Result<T, E>;

// conserve::Error has `IOError { #[from] source: io::Error }`: `?` converts an io::Error (which variant is not
// mentioned by any contract)
impl From<IoError> for Error {
    fn from(e: IoError) -> (r: Error) { Error::Other }
}
impl vstd::std_specs::convert::FromSpecImpl<IoError> for Error {
    open spec fn obeys_from_spec() -> bool { false }
    uninterp spec fn from_spec(e: IoError) -> Error;
}

// ---- std::ffi::OsString (a file name as the OS gave it: bytes, maybe not UTF-8) ----
#[verifier::external_body]
struct OsString { inner: std::ffi::OsString }

impl OsString {
    uninterp spec fn bytes(&self) -> Seq<u8>;

    // std: `OsStr::to_str` is Some(s) iff the bytes are valid UTF-8, and then s is those bytes
    #[verifier::external_body]
    fn to_str(&self) -> (r: Option<&str>)
        ensures
            r is Some <==> is_utf8(self.bytes()),
            r matches Some(s) ==> s.spec_bytes() == self.bytes(),
    { self.inner.to_str() }
}

// ---- std::fs::{read_dir, ReadDir, DirEntry, FileType, Metadata} ----
#[verifier::external_body]
struct ReadDir { inner: std::fs::ReadDir }

#[verifier::external_body]
struct DirEntry { inner: std::fs::DirEntry }

#[verifier::external_body]
struct FileType { inner: std::fs::FileType }

#[verifier::external_body]
struct Metadata { inner: std::fs::Metadata }

// ASSUMED environment facts about one directory listing (DESIGN.md 5): every name is non-empty, has no '/' or NUL,
// is not "." or ".." (readdir(3) entries minus the two that std filters out), and names are distinct.
spec fn listing_ok(items: Seq<Option<Seq<u8>>>) -> bool {
    &&& forall|i: int| 0 <= i < items.len() ==> ((#[trigger] items[i]) matches Some(n) ==> os_name_ok(n))
    &&& forall|i: int, j: int| 0 <= i < j < items.len() && (#[trigger] items[i]) is Some ==> items[i] != #[trigger] items[j]
}

// std: `fs::read_dir(path)`
#[verifier::external_body]
fn shim_read_dir(path: &PathBuf) -> (r: Result<ReadDir, IoError>)
    ensures
        r is Ok <==> fs_listing(*path) is Some,
        r matches Ok(it) ==> it.path() == *path && it.rem() == fs_listing(*path).unwrap() && listing_ok(it.rem()),
{ match std::fs::read_dir(&path.inner) { Ok(i) => Ok(ReadDir { inner: i }), Err(e) => Err(IoError { inner: e }) } }

// std: `fs::symlink_metadata(path)` (lstat)
#[verifier::external_body]
fn shim_symlink_metadata(path: &PathBuf) -> (r: Result<Metadata, IoError>)
{ unimplemented!() }  // std::fs::symlink_metadata(path)

// std: `VecDeque::from([x])` (`[x].into()`): the one-element queue
#[verifier::external_body]
fn shim_deque_of1<T>(x: T) -> (r: VecDeque<T>)
    ensures r@ == seq![x],
{ [x].into() }

impl ReadDir {
    uninterp spec fn path(&self) -> PathBuf;          // the directory being listed
    uninterp spec fn rem(&self) -> Seq<Option<Seq<u8>>>;   // slots not yet yielded

    // std: `impl Iterator for ReadDir`: yields each entry once (Ok), or an error for a slot it could not read
    #[verifier::external_body]
    fn next(&mut self) -> (r: Option<Result<DirEntry, IoError>>)
        ensures
            final(self).path() == old(self).path(),
            old(self).rem().len() == 0 ==> r is None && final(self).rem() == old(self).rem(),
            old(self).rem().len() > 0 ==> r is Some && final(self).rem() == old(self).rem().skip(1)
                && (old(self).rem()[0] matches Some(n) ==>
                        (r.unwrap() matches Ok(de) && de.name() == n && de.dir_path() == old(self).path()))
                && (old(self).rem()[0] is None ==> r.unwrap() is Err),
    { unimplemented!() }  // self.inner.next()
}

impl DirEntry {
    uninterp spec fn name(&self) -> Seq<u8>;
    uninterp spec fn dir_path(&self) -> PathBuf;

    // std: `DirEntry::file_name`
    #[verifier::external_body]
    fn file_name(&self) -> (r: OsString)
        ensures r.bytes() == self.name(),
    { OsString { inner: self.inner.file_name() } }

    // std: `DirEntry::path` (result only handed to cachedir)
    #[verifier::external_body]
    fn path(&self) -> (r: PathBuf)
        ensures r.entry_dir() == self.dir_path(), r.entry_name() == self.name(),
    { PathBuf { inner: self.inner.path() } }

    // std: `DirEntry::file_type` — lstat semantics, "will not traverse symlinks".  When it says "directory", that is
    // the only place the walk learns fs_subdir (see walk_spec.rs, termination measure).
    #[verifier::external_body]
    fn file_type(&self) -> (r: Result<FileType, IoError>)
        ensures
            r matches Ok(ft) ==> fs_ft(self.dir_path(), self.name()) == Some(ft.dir_flag()),
            r is Err ==> fs_ft(self.dir_path(), self.name()) is None,
            r matches Ok(ft) ==> (ft.dir_flag() ==>
                fs_subdir(self.dir_path().tree_root(), self.dir_path().tree_apath(), self.name())),
    { unimplemented!() }  // self.inner.file_type()

    // std: `DirEntry::metadata` (does not traverse symlinks)
    #[verifier::external_body]
    fn metadata(&self) -> (r: Result<Metadata, IoError>)
        ensures
            r is Ok <==> fs_meta_ok(self.dir_path(), self.name()),
            r matches Ok(m) ==> m.of_dir() == self.dir_path() && m.of_name() == self.name(),
    { unimplemented!() }  // self.inner.metadata()
}

impl Metadata {
    // which entry this metadata was read from (provenance)
    uninterp spec fn of_dir(&self) -> PathBuf;
    uninterp spec fn of_name(&self) -> Seq<u8>;
}

impl FileType {
    uninterp spec fn dir_flag(&self) -> bool;

    #[verifier::external_body]
    fn is_dir(&self) -> (r: bool)
        ensures r == self.dir_flag(),
    { self.inner.is_dir() }
}

// cachedir 0.3 `is_tagged(path)`: is there a valid CACHEDIR.TAG in that directory
#[verifier::external_body]
fn shim_cachedir_is_tagged(p: PathBuf) -> (r: Result<bool, IoError>)
    ensures
        r matches Ok(b) ==> fs_tagged(p.entry_dir(), p.entry_name()) == Some(b),
        r is Err ==> fs_tagged(p.entry_dir(), p.entry_name()) is None,
{ unimplemented!() }  // cachedir::is_tagged(p)

// ---- conserve::Exclude (src/excludes.rs; its own semantics belong to C15's `exclude` unit): here only
// "matches(a) is a fixed predicate of the exclusion set and the path text" ----
#[verifier::external_body]
struct Exclude { _p: () }

impl Exclude {
    uninterp spec fn excluded(&self, a: Seq<char>) -> bool;

    #[verifier::external_body]
    fn matches(&self, apath: &Apath) -> (r: bool)
        ensures r == self.excluded(apath@),
    { unimplemented!() }  // self.matches(apath)
}

// jiff::Timestamp: opaque field of Entry
#[verifier::external_body]
struct Timestamp { _p: () }

// ---- std sorting (R4).  std: after the call the vector holds the same elements rearranged, and for i < j the
// comparator does not say Greater for (v[i], v[j]).  (std additionally demands that the comparator is a total
// order — otherwise the order is unspecified and newer std may panic; both comparators used by the walk are total
// orders: lex_cmp by lemma_lex_eq/flip/trans, doc_cmp by lemma_doc_eq/flip/trans in order_lemmas.rs.) ----

// `Vec<Apath>::sort_unstable()`: by `Ord for Apath`, whose `cmp` is proved == doc_cmp in unit apath
#[verifier::external_body]
fn shim_sort_unstable_apath(v: &mut Vec<Apath>)
    ensures
        is_permutation(final(v)@, old(v)@),
        forall|i: int, j: int| 0 <= i < j < final(v)@.len() ==>
            doc_cmp((#[trigger] final(v)@[i]).comps(), (#[trigger] final(v)@[j]).comps()) != Ordering::Greater,
{ v.sort_unstable_by(|a, b| a.cmp(b)) }  // v.sort_unstable(): `impl Ord for Apath` is the inherent `cmp` of this file (R0)

// `Vec<T>::sort_unstable_by(compare)`
#[verifier::external_body]
fn shim_sort_unstable_by<T, F: Fn(&T, &T) -> Ordering>(v: &mut Vec<T>, compare: F)
    requires
        forall|a: &T, b: &T| #[trigger] compare.requires((a, b)),
    ensures
        is_permutation(final(v)@, old(v)@),
        forall|i: int, j: int| #![trigger final(v)@[i], final(v)@[j]] 0 <= i < j < final(v)@.len() ==>
            exists|o: Ordering| #[trigger] compare.ensures((&final(v)@[i], &final(v)@[j]), o) && o != Ordering::Greater,
{ v.sort_unstable_by(compare) }

// std: `impl Ord for String` is byte-wise lexicographic (same as str)
#[verifier::external_body]
fn shim_string_cmp(a: &String, b: &String) -> (r: Ordering)
    ensures r == lex_cmp(bytes_of(a@), bytes_of(b@)),
{ a.cmp(b) }

// ---- `Vec<T>::into_iter()` and `.rev()` (R6): an iterator that yields the elements front to back / back to front
#[verifier::external_body]
#[verifier::reject_recursive_types(T)]
struct VecIter<T> { inner: Vec<T> }

#[verifier::external_body]
fn shim_vec_into_iter<T>(v: Vec<T>) -> (r: VecIter<T>)
    ensures r.rem() == v@,
{ unimplemented!() }  // v.into_iter()

impl<T> VecIter<T> {
    uninterp spec fn rem(&self) -> Seq<T>;

    #[verifier::external_body]
    fn next(&mut self) -> (r: Option<T>)
        ensures
            old(self).rem().len() == 0 ==> r is None && final(self).rem() == old(self).rem(),
            old(self).rem().len() > 0 ==> r == Some(old(self).rem()[0]) && final(self).rem() == old(self).rem().skip(1),
    { unimplemented!() }  // self.next()

    // std: `Iterator::rev` on a double-ended iterator: the same elements, last first
    #[verifier::external_body]
    fn rev(self) -> (r: VecIter<T>)
        ensures r.rem() == self.rem().reverse(),
    { unimplemented!() }  // self.rev()
}
