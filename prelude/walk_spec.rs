// ---- walk_spec: the source walk (src/source.rs Iter) as a transition system over two queues, on component
// sequences (DESIGN.md 4.7, 7 C11 last bullet).  Pure spec math; no code of the repository is described here.
// requires apath_type.rs (Apath, comps, apath_lt), order_lemmas.rs, split_lemmas.rs, tree_laws.rs
//
// Vocabulary.  comps(a) = split(bytes(a), '/'): "/" -> ["", ""], "/x/y" -> ["", "x", "y"].
//   dcomps(d)  the components of d *used as a directory*: "/" -> [""], otherwise comps(d).  Then for every
//              directory d and OS name n (no '/'):   comps(d.append(n)) == dcomps(d).push(n)     (lemma_child_comps)
//   dirp(a)    directory part  = comps(a) without the final name;  nm(a) = the final name.
//   p ≺ q      slt(p, q): component-wise lexicographic "less" (a proper prefix is less).  This is NOT the apath
//              order:  ["", "b"] ≺ ["", "a", "z"] is false while  /b < /a/z  is true.
//   pre(e, d)  closed form of "e precedes every path strictly below directory d":  dirp(e) ≺ dcomps(d), or
//              dirp(e) == dcomps(d) and e's name is empty (only the root "/" listed before its own children).
//              (lemma_pre_means_before_subtree proves that reading of it: L1 + L3 of the design.)
//
// Invariant I(last, E, D)  (E = apaths of queued entries, D = pending directories, last = last emitted path):
//   I1  e_sorted(E):  all of E lie in one directory and their names strictly increase byte-wise
//   I2  d_sorted(D):  D strictly increases under ≺ and no earlier member is a prefix of a later one
//   I3  every e in E:  pre(e, d) for every d in D
//   I0  last < E[0] in the apath order, and pre(last, d) for every d in D
// Theorems:  lemma_emit   — popping E[0] keeps I and last < E[0]   (the `assert!` of CheckOrder::check holds)
//            lemma_visit  — replacing D[0] by (its children sorted by name, its sub-directories sorted, in front)
//                            keeps I when E is empty.

spec fn dcomps(a: Apath) -> Seq<Seq<u8>> {
    if a.bytes() == seq![SLASH] { seq![Seq::<u8>::empty()] } else { a.comps() }
}

spec fn dirp(a: Apath) -> Seq<Seq<u8>> { a.comps().drop_last() }

spec fn nm(a: Apath) -> Seq<u8> { a.comps().last() }

// ASSUMED shape of a name returned by the OS for a directory entry (DESIGN.md 5, environment assumptions):
// non-empty, not "." or "..", no NUL, no '/'.
spec fn os_name_ok(n: Seq<u8>) -> bool { comp_ok(n) && no_sep(n, SLASH) }

// c is parent.append(name) for an OS name
spec fn child_of(parent: Apath, c: Apath) -> bool {
    c.comps().len() >= 2 && dirp(c) == dcomps(parent) && os_name_ok(nm(c))
}

spec fn slt(p: Seq<Seq<u8>>, q: Seq<Seq<u8>>) -> bool { seq_lex_cmp(p, q) == Ordering::Less }

spec fn pre(e: Apath, d: Apath) -> bool {
    slt(dirp(e), dcomps(d)) || (dirp(e) == dcomps(d) && nm(e).len() == 0)
}

spec fn e_sorted(e: Seq<Apath>) -> bool {
    &&& forall|i: int| 0 <= i < e.len() ==> dirp(#[trigger] e[i]) == dirp(e[0])
    &&& forall|i: int, j: int| 0 <= i < j < e.len() ==> lex_cmp(nm(#[trigger] e[i]), nm(#[trigger] e[j])) == Ordering::Less
}

spec fn d_sorted(d: Seq<Apath>) -> bool {
    forall|k: int, l: int| 0 <= k < l < d.len() ==>
        slt(dcomps(#[trigger] d[k]), dcomps(#[trigger] d[l])) && !is_seq_prefix(dcomps(d[k]), dcomps(d[l]))
}

spec fn e_before_d(e: Seq<Apath>, d: Seq<Apath>) -> bool {
    forall|i: int, k: int| 0 <= i < e.len() && 0 <= k < d.len() ==> pre(#[trigger] e[i], #[trigger] d[k])
}

spec fn last_before(last: Option<Apath>, e: Seq<Apath>, d: Seq<Apath>) -> bool {
    last matches Some(l) ==> (e.len() > 0 ==> apath_lt(l, e[0])) && (forall|k: int| 0 <= k < d.len() ==> pre(l, #[trigger] d[k]))
}

// (opaque: the exec functions only pass it around; the lemmas below reveal it)
#[verifier::opaque]
spec fn walk_inv(last: Option<Apath>, e: Seq<Apath>, d: Seq<Apath>) -> bool {
    &&& e_sorted(e)
    &&& d_sorted(d)
    &&& e_before_d(e, d)
    &&& last_before(last, e, d)
}

// ---- permutations (what a sort does to a vector) ----

spec fn perm_by<T>(p: Seq<int>, q: Seq<int>, t: Seq<T>, s: Seq<T>) -> bool {
    &&& p.len() == t.len() && q.len() == s.len() && t.len() == s.len()
    &&& forall|i: int| 0 <= i < t.len() ==> 0 <= #[trigger] p[i] < s.len() && t[i] == s[p[i]] && q[p[i]] == i
    &&& forall|k: int| 0 <= k < s.len() ==> 0 <= #[trigger] q[k] < t.len() && s[k] == t[q[k]] && p[q[k]] == k
}

// t is a rearrangement of s: a bijection between the index sets maps equal elements to each other
spec fn is_permutation<T>(t: Seq<T>, s: Seq<T>) -> bool {
    exists|p: Seq<int>, q: Seq<int>| perm_by(p, q, t, s)
}

// ---- small facts on split / components ----

proof fn lemma_root_comps()
    ensures split_spec(seq![SLASH], SLASH) == seq![Seq::<u8>::empty(), Seq::<u8>::empty()],
{
    let s = seq![SLASH];
    let e = Seq::<u8>::empty();
    assert(s.drop_last() =~= e);
    assert(split_spec(e, SLASH) =~= seq![e]);
    assert(s.last() == SLASH);
    assert(split_spec(s, SLASH) =~= seq![e].push(e));
    assert(seq![e].push(e) =~= seq![e, e]);
}

// comps(parent.append(name)) == dcomps(parent).push(name)   (append's contract is proved in unit apath)
proof fn lemma_child_comps(parent: Apath, name: Seq<u8>, child: Apath)
    requires
        no_sep(name, SLASH),
        child.bytes() == (if parent.bytes() == seq![SLASH] { parent.bytes() + name } else { parent.bytes().push(SLASH) + name }),
    ensures
        child.comps() == dcomps(parent).push(name),
        child.comps().len() >= 2,
        dirp(child) == dcomps(parent),
        nm(child) == name,
{
    let e = Seq::<u8>::empty();
    if parent.bytes() == seq![SLASH] {
        lemma_comps_of_root_child(name);
        assert(seq![e, name] =~= seq![e].push(name));
    } else {
        lemma_comps_of_child(parent.bytes(), name);
        lemma_split_nonempty(parent.bytes(), SLASH);
    }
    assert(dcomps(parent).push(name).drop_last() =~= dcomps(parent));
}

// a child (non-empty final name) is never the root, so as a directory its components are its components
proof fn lemma_child_dcomps(c: Apath)
    requires nm(c).len() > 0,
    ensures dcomps(c) == c.comps(),
{
    if c.bytes() == seq![SLASH] { lemma_root_comps(); }
}

proof fn lemma_comps_push(c: Apath)
    requires c.comps().len() >= 1,
    ensures c.comps() == dirp(c).push(nm(c)),
{
    assert(c.comps() =~= dirp(c).push(nm(c)));
}

// ---- order lemmas on component sequences ----

proof fn lemma_push_cmp(p: Seq<Seq<u8>>, x: Seq<u8>, y: Seq<u8>)
    ensures seq_lex_cmp(p.push(x), p.push(y)) == lex_cmp(x, y),
    decreases p.len()
{
    let a = p.push(x);
    let b = p.push(y);
    if p.len() == 0 {
        assert(a[0] == x && b[0] == y);
        assert(a.skip(1).len() == 0 && b.skip(1).len() == 0);
        assert(seq_lex_cmp(a.skip(1), b.skip(1)) == Ordering::Equal);
    } else {
        lemma_lex_eq(p[0], p[0]);
        assert(a[0] == p[0] && b[0] == p[0]);
        assert(a.skip(1) =~= p.skip(1).push(x));
        assert(b.skip(1) =~= p.skip(1).push(y));
        lemma_push_cmp(p.skip(1), x, y);
        assert(seq_lex_cmp(a, b) == seq_lex_cmp(a.skip(1), b.skip(1)));
    }
}

// (L2)  P ≺ Q, P not a prefix of Q  ==>  P/m ≺ Q      (pushing sub-directories in front keeps I2)
proof fn lemma_push_before(p: Seq<Seq<u8>>, q: Seq<Seq<u8>>, m: Seq<u8>)
    requires slt(p, q), !is_seq_prefix(p, q),
    ensures slt(p.push(m), q),
    decreases p.len()
{
    if p.len() == 0 {
        assert(q.subrange(0, 0) =~= p);
    } else if q.len() == 0 {
    } else {
        let pm = p.push(m);
        assert(pm[0] == p[0]);
        if lex_cmp(p[0], q[0]) == Ordering::Equal {
            lemma_lex_eq(p[0], q[0]);
            if is_seq_prefix(p.skip(1), q.skip(1)) {
                assert(q.subrange(0, p.len() as int) =~= p) by {
                    assert forall|i: int| 0 <= i < p.len() implies q[i] == p[i] by {
                        if i > 0 {
                            assert(q.skip(1).subrange(0, p.len() - 1)[i - 1] == p.skip(1)[i - 1]);
                        }
                    }
                }
            }
            assert(pm.skip(1) =~= p.skip(1).push(m));
            lemma_push_before(p.skip(1), q.skip(1), m);
        }
    }
}

proof fn lemma_seqprefix_push(p: Seq<Seq<u8>>, m: Seq<u8>, q: Seq<Seq<u8>>)
    requires is_seq_prefix(p.push(m), q),
    ensures is_seq_prefix(p, q),
{
    let pm = p.push(m);
    assert(q.subrange(0, p.len() as int) =~= q.subrange(0, pm.len() as int).subrange(0, p.len() as int));
    assert(pm.subrange(0, p.len() as int) =~= p);
}

proof fn lemma_slt_push(p: Seq<Seq<u8>>, m: Seq<u8>)
    ensures slt(p, p.push(m)),
{
    lemma_seqlex_prefix_less(p, seq![m]);
    assert(p.push(m) =~= p + seq![m]);
}

// same directory part: the apath order is the byte order of the names
// (KEY LEMMA of the walk: for children of ONE directory, sorting by name == sorting by apath)
proof fn lemma_same_dir_cmp(a: Apath, b: Apath)
    requires dirp(a) == dirp(b),
    ensures doc_cmp(a.comps(), b.comps()) == lex_cmp(nm(a), nm(b)),
{
    lemma_seqlex_eq(dirp(a), dirp(b));
}

// pre(e, d) and c a child of d  ==>  e < c
proof fn lemma_pre_child(e: Apath, d: Apath, c: Apath)
    requires pre(e, d), child_of(d, c),
    ensures apath_lt(e, c),
{
    if slt(dirp(e), dcomps(d)) {
    } else {
        lemma_same_dir_cmp(e, c);
        assert(nm(c).len() > 0);
    }
}

// pre(e, d) and s a child of d  ==>  pre(e, s)   (e also precedes everything below a sub-directory of d)
proof fn lemma_pre_subdir(e: Apath, d: Apath, s: Apath)
    requires pre(e, d), child_of(d, s),
    ensures pre(e, s),
{
    lemma_comps_push(s);
    lemma_child_dcomps(s);
    lemma_slt_push(dcomps(d), nm(s));
    if slt(dirp(e), dcomps(d)) {
        lemma_seqlex_trans(dirp(e), dcomps(d), dcomps(s));
    }
}

// The reading of pre(e, d): e precedes every path x strictly below directory d (L1 and L3 of the design in one
// statement).  x strictly below d: comps(x) = dcomps(d) ++ w with w non-empty and a non-empty first name.
proof fn lemma_pre_means_before_subtree(e: Apath, d: Apath, x: Apath, w: Seq<Seq<u8>>)
    requires pre(e, d), w.len() >= 1, w[0].len() > 0, x.comps() == dcomps(d) + w,
    ensures apath_lt(e, x),
{
    let dd = dcomps(d);
    assert(dirp(x) =~= dd + w.drop_last());
    lemma_seqlex_prefix_less(dd, w.drop_last());
    if slt(dirp(e), dd) {
        lemma_seqlex_trans(dirp(e), dd, dirp(x));
    } else {
        if w.len() == 1 {
            assert(w.drop_last() =~= Seq::<Seq<u8>>::empty());
            assert(dd + w.drop_last() =~= dd);
            lemma_seqlex_eq(dirp(e), dirp(x));
            assert(nm(x) == w[0]);
        }
    }
}

// ---- the two transitions keep the invariant ----

// the invariant depends on `last` only through its text
proof fn lemma_inv_last_view(a: Apath, b: Apath, e: Seq<Apath>, d: Seq<Apath>)
    requires walk_inv(Some(a), e, d), a@ == b@,
    ensures walk_inv(Some(b), e, d),
{
    reveal(walk_inv);
    assert(a.comps() == b.comps());
    assert forall|k: int| 0 <= k < d.len() implies pre(b, #[trigger] d[k]) by {
        assert(pre(a, d[k]));
    }
}

// T1: emit the head of E.
proof fn lemma_emit(last: Option<Apath>, e: Seq<Apath>, d: Seq<Apath>)
    requires walk_inv(last, e, d), e.len() > 0,
    ensures
        last matches Some(l) ==> apath_lt(l, e[0]),
        walk_inv(Some(e[0]), e.skip(1), d),
{
    reveal(walk_inv);
    let e2 = e.skip(1);
    assert forall|i: int| 0 <= i < e2.len() implies dirp(#[trigger] e2[i]) == dirp(e2[0]) by {
        assert(e2[i] == e[i + 1]);
        assert(e2[0] == e[1]);
        assert(dirp(e[i + 1]) == dirp(e[0]));
        assert(dirp(e[1]) == dirp(e[0]));
    }
    assert forall|i: int, j: int| 0 <= i < j < e2.len() implies
        lex_cmp(nm(#[trigger] e2[i]), nm(#[trigger] e2[j])) == Ordering::Less by {
        assert(e2[i] == e[i + 1] && e2[j] == e[j + 1]);
    }
    assert forall|i: int, k: int| 0 <= i < e2.len() && 0 <= k < d.len() implies pre(#[trigger] e2[i], #[trigger] d[k]) by {
        assert(e2[i] == e[i + 1]);
    }
    if e2.len() > 0 {
        assert(e2[0] == e[1]);
        assert(dirp(e[1]) == dirp(e[0]));
        lemma_same_dir_cmp(e[0], e[1]);
    }
    assert forall|k: int| 0 <= k < d.len() implies pre(e[0], #[trigger] d[k]) by {}
}

// T2: E is empty; the head d0 of D is replaced by its sub-directories s (in front), its children c become E.
proof fn lemma_visit(last: Option<Apath>, d0: Apath, drest: Seq<Apath>, c: Seq<Apath>, s: Seq<Apath>)
    requires
        walk_inv(last, Seq::<Apath>::empty(), seq![d0] + drest),
        forall|i: int| 0 <= i < c.len() ==> child_of(d0, #[trigger] c[i]),
        forall|i: int, j: int| 0 <= i < j < c.len() ==> lex_cmp(nm(#[trigger] c[i]), nm(#[trigger] c[j])) == Ordering::Less,
        forall|k: int| 0 <= k < s.len() ==> child_of(d0, #[trigger] s[k]),
        forall|k: int, l: int| 0 <= k < l < s.len() ==> apath_lt(#[trigger] s[k], #[trigger] s[l]),
    ensures
        walk_inv(last, c, s + drest),
{
    reveal(walk_inv);
    let dd = seq![d0] + drest;
    let nd = s + drest;
    let p = dcomps(d0);
    assert(dd[0] == d0);
    assert forall|k: int| 0 <= k < drest.len() implies #[trigger] drest[k] == dd[k + 1] by {}

    // I1
    assert(e_sorted(c)) by {
        assert forall|i: int| 0 <= i < c.len() implies dirp(#[trigger] c[i]) == dirp(c[0]) by {
            assert(child_of(d0, c[i]));
            assert(child_of(d0, c[0]));
        }
    }

    // facts on the new sub-directories
    assert forall|k: int| 0 <= k < s.len() implies
        dcomps(#[trigger] s[k]) == p.push(nm(s[k])) && slt(p, dcomps(s[k])) by {
        assert(child_of(d0, s[k]));
        lemma_comps_push(s[k]);
        lemma_child_dcomps(s[k]);
        lemma_slt_push(p, nm(s[k]));
    }

    // I2
    assert(d_sorted(nd)) by {
        assert forall|k: int, l: int| 0 <= k < l < nd.len() implies
            slt(dcomps(#[trigger] nd[k]), dcomps(#[trigger] nd[l])) && !is_seq_prefix(dcomps(nd[k]), dcomps(nd[l])) by {
            if l < s.len() {
                assert(nd[k] == s[k] && nd[l] == s[l]);
                assert(child_of(d0, s[k]) && child_of(d0, s[l]));
                assert(apath_lt(s[k], s[l]));
                lemma_same_dir_cmp(s[k], s[l]);
                lemma_push_cmp(p, nm(s[k]), nm(s[l]));
                let (a, b) = (p.push(nm(s[k])), p.push(nm(s[l])));
                if is_seq_prefix(a, b) {
                    assert(b.subrange(0, a.len() as int) =~= b);
                    assert(a[p.len() as int] == nm(s[k]) && b[p.len() as int] == nm(s[l]));
                    lemma_lex_eq(nm(s[k]), nm(s[l]));
                }
            } else if k < s.len() {
                let l2 = l - s.len();
                assert(nd[k] == s[k] && nd[l] == drest[l2]);
                assert(drest[l2] == dd[l2 + 1]);
                let q = dcomps(drest[l2]);
                assert(slt(dcomps(dd[0]), dcomps(dd[l2 + 1])) && !is_seq_prefix(dcomps(dd[0]), dcomps(dd[l2 + 1])));
                lemma_push_before(p, q, nm(s[k]));
                if is_seq_prefix(p.push(nm(s[k])), q) { lemma_seqprefix_push(p, nm(s[k]), q); }
            } else {
                let (k2, l2) = (k - s.len(), l - s.len());
                assert(nd[k] == drest[k2] && nd[l] == drest[l2]);
                assert(drest[k2] == dd[k2 + 1] && drest[l2] == dd[l2 + 1]);
                assert(slt(dcomps(dd[k2 + 1]), dcomps(dd[l2 + 1])) && !is_seq_prefix(dcomps(dd[k2 + 1]), dcomps(dd[l2 + 1])));
            }
        }
    }

    // I3
    assert(e_before_d(c, nd)) by {
        assert forall|i: int, k: int| 0 <= i < c.len() && 0 <= k < nd.len() implies pre(#[trigger] c[i], #[trigger] nd[k]) by {
            assert(child_of(d0, c[i]));
            if k < s.len() {
                assert(nd[k] == s[k]);
            } else {
                let k2 = k - s.len();
                assert(nd[k] == drest[k2]);
                assert(drest[k2] == dd[k2 + 1]);
                assert(slt(dcomps(dd[0]), dcomps(dd[k2 + 1])));
            }
        }
    }

    // I0
    if let Some(l) = last {
        assert(pre(l, dd[0]));
        if c.len() > 0 {
            assert(child_of(d0, c[0]));
            lemma_pre_child(l, d0, c[0]);
        }
        assert forall|k: int| 0 <= k < nd.len() implies pre(l, #[trigger] nd[k]) by {
            if k < s.len() {
                assert(nd[k] == s[k]);
                assert(child_of(d0, s[k]));
                lemma_pre_subdir(l, d0, s[k]);
            } else {
                let k2 = k - s.len();
                assert(nd[k] == drest[k2]);
                assert(drest[k2] == dd[k2 + 1]);
                assert(pre(l, dd[k2 + 1]));
            }
        }
    }
}

// after a sort: a rearrangement of records that all lie in one directory and have pairwise distinct names,
// ordered non-strictly by the apath comparator, is strictly increasing
proof fn lemma_sorted_siblings(parent: Apath, s0: Seq<Apath>, s1: Seq<Apath>)
    requires
        is_permutation(s1, s0),
        forall|i: int| 0 <= i < s0.len() ==> child_of(parent, #[trigger] s0[i]),
        forall|i: int, j: int| 0 <= i < j < s0.len() ==> nm(#[trigger] s0[i]) != nm(#[trigger] s0[j]),
        forall|i: int, j: int| 0 <= i < j < s1.len() ==> doc_cmp((#[trigger] s1[i]).comps(), (#[trigger] s1[j]).comps()) != Ordering::Greater,
    ensures
        s1.len() == s0.len(),
        forall|i: int| 0 <= i < s1.len() ==> s0.contains(#[trigger] s1[i]),
        forall|i: int, j: int| 0 <= i < j < s1.len() ==> apath_lt(#[trigger] s1[i], #[trigger] s1[j]) && nm(s1[i]) != nm(s1[j]),
{
    let (p, q) = choose|p: Seq<int>, q: Seq<int>| perm_by(p, q, s1, s0);
    assert forall|i: int| 0 <= i < s1.len() implies s0.contains(#[trigger] s1[i]) by {
        assert(s1[i] == s0[p[i]]);
    }
    assert forall|i: int, j: int| 0 <= i < j < s1.len() implies
        apath_lt(#[trigger] s1[i], #[trigger] s1[j]) && nm(s1[i]) != nm(s1[j]) by {
        assert(s1[i] == s0[p[i]] && s1[j] == s0[p[j]]);
        assert(q[p[i]] == i && q[p[j]] == j);
        assert(p[i] != p[j]);
        if p[i] < p[j] { assert(nm(s0[p[i]]) != nm(s0[p[j]])); } else { assert(nm(s0[p[j]]) != nm(s0[p[i]])); }
        assert(child_of(parent, s0[p[i]]) && child_of(parent, s0[p[j]]));
        lemma_same_dir_cmp(s1[i], s1[j]);
        lemma_lex_eq(nm(s1[i]), nm(s1[j]));
    }
}

// ---- termination measure: the number of directories not yet visited ----
// ASSUMPTION (finite tree): the directories reachable from the source root form a finite tree.  `DirEntry::file_type`
// does not follow symbolic links, so the walk descends only into real sub-directories; hard links to directories and
// bind-mount loops are excluded by this assumption, and the tree does not change during the walk (DESIGN.md 5).
// fs_subdir(root, d, n): "the OS reported entry n of directory d (apath text, below source root `root`) as a
// directory".  It is only ever learned from DirEntry::file_type (positive knowledge, idiom 4.3).
// dirs_below(root, d) = 1 + the sum of dirs_below over the real sub-directories of d; it exists because the tree is
// finite.  axiom_finite_tree is that defining equation, weakened to any set of distinct real sub-directories.
uninterp spec fn fs_subdir(root: PathBuf, d: Seq<char>, n: Seq<u8>) -> bool;

uninterp spec fn dirs_below(root: PathBuf, d: Seq<char>) -> nat;

spec fn pending(root: PathBuf, d: Seq<Apath>) -> nat
    decreases d.len()
{
    if d.len() == 0 { 0 } else { pending(root, d.drop_last()) + dirs_below(root, d.last()@) }
}

#[verifier::external_body]
proof fn axiom_finite_tree(root: PathBuf, parent: Apath, subs: Seq<Apath>)
    requires
        forall|k: int| 0 <= k < subs.len() ==> child_of(parent, #[trigger] subs[k]) && fs_subdir(root, parent@, nm(subs[k])),
        forall|k: int, l: int| 0 <= k < l < subs.len() ==> nm(#[trigger] subs[k]) != nm(#[trigger] subs[l]),
    ensures
        pending(root, subs) < dirs_below(root, parent@),
{ }

proof fn lemma_pending_concat(root: PathBuf, a: Seq<Apath>, b: Seq<Apath>)
    ensures pending(root, a + b) == pending(root, a) + pending(root, b),
    decreases b.len()
{
    if b.len() == 0 {
        assert(a + b =~= a);
    } else {
        assert((a + b).drop_last() =~= a + b.drop_last());
        assert((a + b).last() == b.last());
        lemma_pending_concat(root, a, b.drop_last());
    }
}

proof fn lemma_pending_front(root: PathBuf, d: Seq<Apath>)
    requires d.len() > 0,
    ensures pending(root, d) == dirs_below(root, d[0]@) + pending(root, d.skip(1)),
{
    let h = seq![d[0]];
    assert(d =~= h + d.skip(1));
    lemma_pending_concat(root, h, d.skip(1));
    assert(h.drop_last() =~= Seq::<Apath>::empty());
    assert(pending(root, h.drop_last()) == 0);
    assert(h.last() == d[0]);
}

// the state `Iter::new` builds — one entry and one pending directory, both the walk's starting path, nothing
// emitted yet — satisfies the invariant, for every starting path (base case of the induction)
proof fn lemma_initial_state(first: Apath, start: Apath)
    requires first@ == start@,
    ensures walk_inv(None, seq![first], seq![start]),
{
    reveal(walk_inv);
    let e = seq![first];
    let d = seq![start];
    lemma_split_nonempty(start.bytes(), SLASH);
    assert(e[0] == first && d[0] == start);
    assert(first.comps() == start.comps());
    if start.bytes() == seq![SLASH] {
        lemma_root_comps();
        assert(dirp(first) =~= seq![Seq::<u8>::empty()]);
        assert(nm(first).len() == 0);
    } else {
        lemma_seqlex_prefix_less(dirp(first), seq![nm(first)]);
        assert(start.comps() =~= dirp(first) + seq![nm(first)]);
    }
    assert(pre(first, start));
}

// the sorted sub-directories, taken back to front and pushed to the front one by one, end up in front in order
proof fn lemma_pushed_all(s: Seq<Apath>, r0: Seq<Apath>, d0: Seq<Apath>, dq: Seq<Apath>)
    requires r0 == s.reverse(), dq == r0.take(r0.len() as int).reverse() + d0,
    ensures dq == s + d0,
{
    assert(r0.take(r0.len() as int) =~= r0);
    assert(s.reverse().reverse() =~= s);
}
