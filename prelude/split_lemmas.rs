// ---- split_lemmas: structure of split_spec over concatenation (pure spec math) ----
// requires apath_spec.rs

spec fn no_sep(c: Seq<u8>, sep: u8) -> bool { !c.contains(sep) }

// a piece without separator splits to itself
proof fn lemma_split_no_sep(c: Seq<u8>, sep: u8)
    requires no_sep(c, sep),
    ensures split_spec(c, sep) == seq![c],
    decreases c.len()
{
    if c.len() == 0 {
        assert(c =~= Seq::<u8>::empty());
    } else {
        let d = c.drop_last();
        assert(forall|i: int| 0 <= i < d.len() ==> d[i] == c[i]);
        assert(no_sep(d, sep)) by {
            if d.contains(sep) {
                let i = choose|i: int| 0 <= i < d.len() && d[i] == sep;
                assert(c[i] == sep);
            }
        }
        lemma_split_no_sep(d, sep);
        assert(c.last() != sep) by { if c.last() == sep { assert(c[c.len() - 1] == sep); } }
        let p = split_spec(d, sep);
        assert(p.drop_last() =~= Seq::<Seq<u8>>::empty());
        assert(d.push(c.last()) =~= c);
        assert(p.drop_last().push(p.last().push(c.last())) =~= seq![c]);
    }
}

// split(a ++ [sep] ++ b) == split(a) ++ split(b)
proof fn lemma_split_concat(a: Seq<u8>, b: Seq<u8>, sep: u8)
    ensures split_spec(a.push(sep) + b, sep) == split_spec(a, sep) + split_spec(b, sep),
    decreases b.len()
{
    let s = a.push(sep) + b;
    if b.len() == 0 {
        assert(s =~= a.push(sep));
        assert(s.drop_last() =~= a);
        assert(split_spec(b, sep) =~= seq![Seq::<u8>::empty()]);
        assert(split_spec(a, sep).push(Seq::<u8>::empty()) =~= split_spec(a, sep) + seq![Seq::<u8>::empty()]);
    } else {
        let b0 = b.drop_last();
        lemma_split_concat(a, b0, sep);
        assert(s.drop_last() =~= a.push(sep) + b0);
        assert(s.last() == b.last());
        let pa = split_spec(a, sep);
        let pb0 = split_spec(b0, sep);
        lemma_split_nonempty(b0, sep);
        lemma_split_nonempty(a, sep);
        if b.last() == sep {
            assert((pa + pb0).push(Seq::<u8>::empty()) =~= pa + pb0.push(Seq::<u8>::empty()));
        } else {
            let p = pa + pb0;
            assert(p.last() == pb0.last());
            assert(p.drop_last() =~= pa + pb0.drop_last());
            assert(p.drop_last().push(p.last().push(b.last()))
                =~= pa + pb0.drop_last().push(pb0.last().push(b.last())));
        }
    }
}

// components of "parent/name" (parent not ending in '/', name without '/')
proof fn lemma_comps_of_child(parent: Seq<u8>, name: Seq<u8>)
    requires no_sep(name, SLASH),
    ensures split_spec(parent.push(SLASH) + name, SLASH) == split_spec(parent, SLASH).push(name),
{
    lemma_split_concat(parent, name, SLASH);
    lemma_split_no_sep(name, SLASH);
    assert(split_spec(parent, SLASH) + seq![name] =~= split_spec(parent, SLASH).push(name));
}

// components of "/name" : ["", name]
proof fn lemma_comps_of_root_child(name: Seq<u8>)
    requires no_sep(name, SLASH),
    ensures split_spec(seq![SLASH] + name, SLASH) == seq![Seq::<u8>::empty(), name],
{
    let e = Seq::<u8>::empty();
    assert(e.push(SLASH) =~= seq![SLASH]);
    lemma_split_concat(e, name, SLASH);
    lemma_split_no_sep(name, SLASH);
    assert(split_spec(e, SLASH) =~= seq![e]);
    assert(seq![e] + seq![name] =~= seq![e, name]);
}
