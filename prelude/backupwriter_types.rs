// ---- backupwriter_types: declarations, callee contracts and shims for unit `backupwriter` (src/backup.rs) ----
//
// This unit COMPOSES the other units.  Their preludes cannot be included together: almost every one re-declares
// Kind / UnixMode / Owner / IndexEntry (indexwriter_spec, combiner_spec, timeconv_types, merge_types, hunkiter_types,
// select_types), and Error / Result / Transport / Bytes / Timestamp / Archive / Band / BackupStats / Monitor are
// declared incompatibly (indexwriter_shims: opaque `struct Error`, `type Bytes = Vec<u8>`, `Transport::id()`;
// combiner_shims: `enum Error`, opaque `struct Bytes`, opaque `BackupStats`, `MonitorArc`; band_shims: another
// `enum Error`, `Transport::dir()`, real `Archive`/`Band`; stitch_types / select_types: opaque `Archive` with yet other
// spec functions; merge_types: opaque `IndexEntry`, `Timestamp::nanos()` where timeconv has `total_nanos()`; both
// indexwriter_shims and merge_types give Apath a PartialEq/Debug impl; timeconv_spec uses the two-parameter
// `Result<T, E>` which the `type Result<T>` alias of the other preludes shadows).
//
// What is done instead:
//  * the INDEXWRITER prelude is the type base (included unchanged): Kind, UnixMode, Owner, IndexEntry, entry_ok,
//    entries_ok, all_after, distinct_apaths, hunk_written, IndexWriter, Transport, opaque Error, sorted lemmas;
//  * merge_spec.rs (pure vocabulary of C18) and store_spec / apath / order lemmas are included unchanged;
//  * the vocabulary of combiner_spec.rs, the EntryTrait / change types of merge_types.rs and the time vocabulary of
//    timeconv_spec.rs are COPIED here (marked "copied from"), text unchanged;
//  * callee functions are brought in by `//@@ stub` wherever the other unit's header text type-checks against these
//    declarations; the rest is stubbed BY HAND with the contract text of the owning unit restated over this file's
//    vocabulary (each says which clauses it restates and what it leaves out).
//@@ include indexwriter_shims.rs
//@@ include merge_spec.rs

// =====================================================================================================
// 1. plain data
// =====================================================================================================

// (copied from merge_types.rs)
spec fn ov(o: Option<&str>) -> Option<Seq<char>> { match o { Some(s) => Some(s@), None => None } }
spec fn osv(o: Option<String>) -> Option<Seq<char>> { match o { Some(s) => Some(s@), None => None } }

// ---- Kind: indexwriter_spec.rs declares it with derive(Clone, Copy) only; src/kind.rs derives PartialEq/Eq.
// ASSUMED: the derived `==` on a field-less enum is equality of the variant.
impl vstd::std_specs::cmp::PartialEqSpecImpl for Kind {
    open spec fn obeys_eq_spec() -> bool { true }
    open spec fn eq_spec(&self, other: &Kind) -> bool { *self == *other }
}
impl PartialEq for Kind {
    #[verifier::external_body]
    fn eq(&self, other: &Self) -> (r: bool) { core::mem::discriminant(self) == core::mem::discriminant(other) }
}

// ---- jiff::Timestamp (R3 shim): an instant, viewed as integer nanoseconds since the epoch.
// merge_types.rs calls the view `nanos()`, timeconv_spec.rs `total_nanos()`: one type here, both names.
// ASSUMED (as in merge_types.rs): `Timestamp: Copy`, `==` is equality of the instant.
#[verifier::external_body]
#[derive(Clone, Copy)]
pub struct Timestamp { nanos: i128 }
impl Timestamp {
    pub uninterp spec fn nanos(&self) -> int;
    pub open spec fn total_nanos(&self) -> int { self.nanos() }
}
impl vstd::std_specs::cmp::PartialEqSpecImpl for Timestamp {
    open spec fn obeys_eq_spec() -> bool { true }
    open spec fn eq_spec(&self, other: &Self) -> bool { self.nanos() == other.nanos() }
}
impl PartialEq for Timestamp {
    #[verifier::external_body]
    fn eq(&self, other: &Self) -> (r: bool) { self.nanos == other.nanos }
}

// ---- time vocabulary (copied from timeconv_spec.rs) ----
spec const NPS: int = 1_000_000_000;
spec fn entry_instant(mtime: i64, mtime_nanos: u32) -> int { mtime as int * NPS + mtime_nanos as int }

// ---- UnixMode / Owner views (copied from merge_types.rs / timeconv_types.rs) ----
impl UnixMode {
    spec fn view(&self) -> Option<u32> { self.0 }
}
impl Owner {
    pub closed spec fn user_v(&self) -> Option<Seq<char>> { osv(self.user) }
    pub closed spec fn group_v(&self) -> Option<Seq<char>> { osv(self.group) }
    // timeconv_types.rs: the pair of names
    pub closed spec fn view(&self) -> (Option<Seq<char>>, Option<Seq<char>>) { (osv(self.user), osv(self.group)) }

    // src/owner.rs Owner::clear: both names dropped.  ASSUMED (two field assignments; not in any unit).
    #[verifier::external_body]
    fn clear(&mut self)
        ensures final(self).user is None, final(self).group is None,
    { self.user = None; self.group = None; }
}
spec fn opt_string_view(o: Option<String>) -> Option<Seq<char>> { osv(o) }

// ---- source::Entry and KindMeta (R11) ----
//@@ type src/entry.rs | enum KindMeta
//@@ end

//@@ type src/source/entry.rs | struct Entry
//@@ end
type SourceEntry = Entry;   // unit merge's name for source::Entry

// (copied from timeconv_types.rs)
spec fn kind_of(m: KindMeta) -> Kind {
    match m {
        KindMeta::File { .. } => Kind::File,
        KindMeta::Dir => Kind::Dir,
        KindMeta::Symlink { .. } => Kind::Symlink,
        KindMeta::Unknown => Kind::Unknown,
    }
}
spec fn target_of(m: KindMeta) -> Option<Seq<char>> {
    match m {
        KindMeta::Symlink { target } => Some(target@),
        _ => None,
    }
}

// =====================================================================================================
// 2. EntryTrait (copied from merge_types.rs) and its two implementors
// =====================================================================================================
trait EntryTrait {
    spec fn s_apath(&self) -> Apath;
    spec fn s_kind(&self) -> Kind;
    spec fn s_mtime(&self) -> Timestamp;
    spec fn s_size(&self) -> Option<u64>;
    spec fn s_target(&self) -> Option<Seq<char>>;
    spec fn s_unix_mode(&self) -> UnixMode;
    spec fn s_owner(&self) -> Owner;

    fn apath(&self) -> (r: &Apath) ensures *r == self.s_apath();
    fn kind(&self) -> (r: Kind) ensures r == self.s_kind();
    fn mtime(&self) -> (r: Timestamp) ensures r == self.s_mtime();
    fn size(&self) -> (r: Option<u64>) ensures r == self.s_size();
    fn symlink_target(&self) -> (r: Option<&str>) ensures ov(r) == self.s_target();
    fn unix_mode(&self) -> (r: UnixMode) ensures r == self.s_unix_mode();
    fn owner(&self) -> (r: &Owner) ensures *r == self.s_owner();
}

// the abstract entry an implementor denotes (copied from merge_types.rs)
spec fn ev<E: EntryTrait + ?Sized>(e: &E) -> EntryView {
    EntryView {
        apath: e.s_apath()@,
        kind: e.s_kind(),
        mtime: e.s_mtime().nanos(),
        size: e.s_size(),
        target: e.s_target(),
        mode: e.s_unix_mode()@,
        user: e.s_owner().user_v(),
        group: e.s_owner().group_v(),
    }
}

// ASSUMED (Rust semantics; copied from merge_types.rs): coercing `&T` to `&dyn EntryTrait` keeps the methods.
spec fn as_dyn<E: EntryTrait>(e: &E) -> &dyn EntryTrait { e }

#[verifier::external_body]
proof fn axiom_dyn_same_entry<E: EntryTrait>(e: &E)
    ensures ev(as_dyn(e)) == ev(e),
{ }

// What the stored side's accessors compute from the decoded fields.  `IndexEntry::mtime` / `size` are deterministic
// functions of (mtime, mtime_nanos) / addrs; unit timeconv proves what they are for well-formed values.  Nothing in
// this unit needs more than "a function of those fields".
uninterp spec fn index_entry_time(mtime: i64, mtime_nanos: u32) -> Timestamp;
uninterp spec fn index_entry_size(addrs: Seq<Address>) -> u64;

// The accessor contracts of `impl EntryTrait for IndexEntry` (src/index/entry.rs): field projections, plus mtime/size
// as above (unit timeconv: `size` is always Some).  ASSUMED here.
impl EntryTrait for IndexEntry {
    spec fn s_apath(&self) -> Apath { self.apath }
    spec fn s_kind(&self) -> Kind { self.kind }
    spec fn s_mtime(&self) -> Timestamp { index_entry_time(self.mtime, self.mtime_nanos) }
    spec fn s_size(&self) -> Option<u64> { Some(index_entry_size(self.addrs@)) }
    spec fn s_target(&self) -> Option<Seq<char>> { osv(self.target) }
    spec fn s_unix_mode(&self) -> UnixMode { self.unix_mode }
    spec fn s_owner(&self) -> Owner { self.owner }
    #[verifier::external_body] fn apath(&self) -> (r: &Apath) { unimplemented!() }
    #[verifier::external_body] fn kind(&self) -> (r: Kind) { unimplemented!() }
    #[verifier::external_body] fn mtime(&self) -> (r: Timestamp) { unimplemented!() }
    #[verifier::external_body] fn size(&self) -> (r: Option<u64>) { unimplemented!() }
    #[verifier::external_body] fn symlink_target(&self) -> (r: Option<&str>) { unimplemented!() }
    #[verifier::external_body] fn unix_mode(&self) -> (r: UnixMode) { unimplemented!() }
    #[verifier::external_body] fn owner(&self) -> (r: &Owner) { unimplemented!() }
}

// The accessor contracts of `impl EntryTrait for source::Entry`: exactly what unit timeconv_src proves
// (apath / kind / mtime / symlink_target / unix_mode / owner are the fields resp. kind_of / target_of) and what unit
// combiner proves for `size` (Some(size) exactly for files).  Restated as the trait's spec twins.
impl EntryTrait for Entry {
    spec fn s_apath(&self) -> Apath { self.apath }
    spec fn s_kind(&self) -> Kind { kind_of(self.kind_meta) }
    spec fn s_mtime(&self) -> Timestamp { self.mtime }
    spec fn s_size(&self) -> Option<u64> { match self.kind_meta { KindMeta::File { size } => Some(size), _ => None } }
    spec fn s_target(&self) -> Option<Seq<char>> { target_of(self.kind_meta) }
    spec fn s_unix_mode(&self) -> UnixMode { self.unix_mode }
    spec fn s_owner(&self) -> Owner { self.owner }
    #[verifier::external_body] fn apath(&self) -> (r: &Apath) { unimplemented!() }
    #[verifier::external_body] fn kind(&self) -> (r: Kind) { unimplemented!() }
    #[verifier::external_body] fn mtime(&self) -> (r: Timestamp) { unimplemented!() }
    #[verifier::external_body] fn size(&self) -> (r: Option<u64>) { unimplemented!() }
    #[verifier::external_body] fn symlink_target(&self) -> (r: Option<&str>) { unimplemented!() }
    #[verifier::external_body] fn unix_mode(&self) -> (r: UnixMode) { unimplemented!() }
    #[verifier::external_body] fn owner(&self) -> (r: &Owner) { unimplemented!() }
}

// ASSUMED: src/index/entry.rs derives PartialEq on IndexEntry: field-wise equality (Apath: the string; Owner: the two
// names; UnixMode: the bits (hand-written eq, unit merge); Address: hash, start, len; target: the string).
spec fn entry_same(a: IndexEntry, b: IndexEntry) -> bool {
    &&& a.apath@ == b.apath@
    &&& a.kind == b.kind
    &&& a.mtime == b.mtime
    &&& a.mtime_nanos == b.mtime_nanos
    &&& a.unix_mode@ == b.unix_mode@
    &&& a.owner.user_v() == b.owner.user_v() && a.owner.group_v() == b.owner.group_v()
    &&& a.addrs@.len() == b.addrs@.len()
    &&& (forall|i: int| 0 <= i < a.addrs@.len() ==> (#[trigger] a.addrs@[i]).hash@ == b.addrs@[i].hash@
            && a.addrs@[i].start == b.addrs@[i].start && a.addrs@[i].len == b.addrs@[i].len)
    &&& osv(a.target) == osv(b.target)
}
impl vstd::std_specs::cmp::PartialEqSpecImpl for IndexEntry {
    closed spec fn obeys_eq_spec() -> bool { true }
    closed spec fn eq_spec(&self, other: &IndexEntry) -> bool { entry_same(*self, *other) }
}
impl PartialEq for IndexEntry {
    #[verifier::external_body]
    fn eq(&self, other: &Self) -> (r: bool) { unimplemented!() }
}

// ASSUMED: derive(Clone) on Address / Vec<Address>: a clone of the address list is the same list.
#[verifier::external_body]
fn shim_clone_addrs(v: &Vec<Address>) -> (r: Vec<Address>)
    ensures r@ == v@,
{ unimplemented!() /* v.clone() */ }

// =====================================================================================================
// 3. change reports (types copied by R11; views copied from merge_types.rs)
// =====================================================================================================
//@@ type src/change.rs | enum Change
//@@ end
//@@ type src/change.rs | enum KindMetadata
//@@ end
//@@ type src/change.rs | struct EntryMetadata
//@@ end
//@@ type src/change.rs | struct EntryChange
//@@ end
//@@ type src/merge.rs | enum MatchedEntries
//@@ end

impl KindMetadata {
    spec fn view(&self) -> KindMetaView {
        match *self {
            KindMetadata::File { size } => KindMetaView::File { size },
            KindMetadata::Dir => KindMetaView::Dir,
            KindMetadata::Symlink { target } => KindMetaView::Symlink { target: target@ },
        }
    }
}
impl EntryMetadata {
    spec fn view(&self) -> MetaView {
        MetaView { kind: self.kind@, mtime: self.mtime.nanos(), user: self.owner.user_v(), group: self.owner.group_v(),
                   mode: self.unix_mode@ }
    }
}
spec fn change_view(c: Change<EntryMetadata>) -> ChangeView {
    match c {
        Change::Unchanged { unchanged } => ChangeView::Unchanged { m: unchanged@ },
        Change::Added { added } => ChangeView::Added { m: added@ },
        Change::Deleted { deleted } => ChangeView::Deleted { m: deleted@ },
        Change::Changed { old, new } => ChangeView::Changed { old: old@, new: new@ },
    }
}
impl EntryChange {
    spec fn view(&self) -> EntryChangeView { EntryChangeView { apath: self.apath@, change: change_view(self.change) } }
}
spec fn mv<AE: EntryTrait, BE: EntryTrait>(m: MatchedEntries<AE, BE>) -> MatchedView {
    match m {
        MatchedEntries::Left(a) => MatchedView::Left(ev(&a)),
        MatchedEntries::Right(b) => MatchedView::Right(ev(&b)),
        MatchedEntries::Both(a, b) => MatchedView::Both(ev(&a), ev(&b)),
    }
}

// Box<dyn Fn(&EntryChange) -> Result<()>> (R3, as in restore_types.rs): a user callback; it may return anything.
#[verifier::external_body]
struct ChangeCallback { f: Box<dyn Fn(&EntryChange) -> Result<()>> }

// monotone knowledge: the change callback has been invoked with this report
uninterp spec fn change_reported(c: EntryChangeView) -> bool;

// R4: calling the boxed closure `cb(x)`.
#[verifier::external_body]
fn shim_call_change_callback(cb: &ChangeCallback, c: &EntryChange) -> (r: Result<()>)
    ensures change_reported(c@),
{ (cb.f)(c) }

// =====================================================================================================
// 4. the two input streams and their merge (copied from merge_types.rs)
// =====================================================================================================
#[verifier::external_body]
struct Stitch { opaque: () }
impl Stitch {
    uninterp spec fn rem(&self) -> Seq<IndexEntry>;

    #[verifier::external_body]
    async fn next(&mut self) -> (r: Option<IndexEntry>)
        ensures
            old(self).rem().len() == 0 ==> r.is_none() && final(self).rem() == old(self).rem(),
            old(self).rem().len() > 0 ==> r == Some(old(self).rem()[0]) && final(self).rem() == old(self).rem().skip(1),
    { unimplemented!() }
}
impl Stitch {
    // unit stitch, Stitch::new (C08.stitch_follows_rule / C14.basis_is_stitched_listing), restated for the only way
    // backup() calls it: whole tree, nothing excluded -- `stitched_listing(a, id)` stands for
    // `listing_spec(a, id, bytes_of("/"), Exclude::nothing())` there.  `arch_wf` is its precondition there too.
    #[verifier::external_body]
    fn new(archive: &Archive, band_id: BandId, subtree: Apath, exclude: Exclude, monitor: MonitorArc) -> (r: Stitch)
        requires
            subtree@ == seq!['/'],
            forall|a: Seq<char>| !exclude.excluded(a),
            arch_wf(*archive),
        ensures
            r.rem() == stitched_listing(*archive, band_id.0),
    { unimplemented!() }

    // unit stitch, Stitch::empty: "a stitcher that will just return nothing"
    #[verifier::external_body]
    fn empty(archive: &Archive, monitor: MonitorArc) -> (r: Stitch)
        requires
            arch_wf(*archive),
        ensures
            r.rem() == Seq::<IndexEntry>::empty(),
    { unimplemented!() }
}

// unit stitch, lemma_listing_increasing (C08.strictly_increasing), PROVED there from arch_wf; restated here.
#[verifier::external_body]
proof fn axiom_stitched_listing_increasing(a: Archive, id: u32)
    requires arch_wf(a),
    ensures increasing(stitched_listing(a, id)),
{ }

#[verifier::external_body]
struct SourceIter { opaque: () }
impl SourceIter {
    uninterp spec fn rem(&self) -> Seq<SourceEntry>;

    #[verifier::external_body]
    fn next(&mut self) -> (r: Option<SourceEntry>)
        ensures
            old(self).rem().len() == 0 ==> r.is_none() && final(self).rem() == old(self).rem(),
            old(self).rem().len() > 0 ==> r == Some(old(self).rem()[0]) && final(self).rem() == old(self).rem().skip(1),
    { unimplemented!() }
}

#[verifier::opaque]
spec fn merge_spec<AE: EntryTrait, BE: EntryTrait>(a: Seq<AE>, b: Seq<BE>) -> Seq<MatchedEntries<AE, BE>>
    decreases a.len() + b.len()
{
    if a.len() == 0 && b.len() == 0 { Seq::empty() }
    else if b.len() == 0 { seq![MatchedEntries::Left(a[0])] + merge_spec(a.skip(1), b) }
    else if a.len() == 0 { seq![MatchedEntries::Right(b[0])] + merge_spec(a, b.skip(1)) }
    else if a[0].s_apath()@ == b[0].s_apath()@ { seq![MatchedEntries::Both(a[0], b[0])] + merge_spec(a.skip(1), b.skip(1)) }
    else if apath_lt(a[0].s_apath(), b[0].s_apath()) { seq![MatchedEntries::Left(a[0])] + merge_spec(a.skip(1), b) }
    else { seq![MatchedEntries::Right(b[0])] + merge_spec(a, b.skip(1)) }
}

spec fn increasing<E: EntryTrait>(s: Seq<E>) -> bool {
    forall|i: int, j: int| 0 <= i < j < s.len() ==> apath_lt(#[trigger] s[i].s_apath(), #[trigger] s[j].s_apath())
}
spec fn all_meta_ok<E: EntryTrait>(s: Seq<E>) -> bool {
    forall|i: int| 0 <= i < s.len() ==> meta_ok(ev(&#[trigger] s[i]))
}
spec fn peeked<E>(o: Option<E>) -> Seq<E> { match o { Some(e) => seq![e], None => Seq::empty() } }

//@@ type src/merge.rs | struct MergeTrees
//@ rewrite
source::Iter ==> SourceIter
source::Entry ==> SourceEntry
//@@ end
impl MergeTrees {
    spec fn a_all(&self) -> Seq<IndexEntry> { peeked(self.next_a) + self.a.rem() }
    spec fn b_all(&self) -> Seq<SourceEntry> { peeked(self.next_b) + self.b.rem() }
    spec fn wf(&self) -> bool { increasing(self.a_all()) && increasing(self.b_all()) }
    spec fn merged(&self) -> Seq<MatchedEntries<IndexEntry, SourceEntry>> { merge_spec(self.a_all(), self.b_all()) }
}

// =====================================================================================================
// 5. the combiner side (vocabulary copied from combiner_shims.rs / combiner_spec.rs)
// =====================================================================================================
uninterp spec fn src_bytes(apath: Seq<char>) -> Seq<u8>;

#[verifier::external_body]
struct BytesMut { _p: () }   // bytes::BytesMut
impl BytesMut {
    pub uninterp spec fn view(&self) -> Seq<u8>;
}

#[verifier::external_body]
struct SourceReader { _p: () }   // dyn std::io::Read / std::fs::File
impl SourceReader {
    uninterp spec fn remaining(&self) -> Seq<u8>;
    uninterp spec fn full_reads(&self) -> bool;
}

// Arc<dyn Monitor> (R3, as in combiner_shims.rs): opaque progress/counter sink (count() calls are dropped by R1).
#[verifier::external_body]
struct MonitorArc { _p: () }
impl Clone for MonitorArc {
    #[verifier::external_body]
    fn clone(&self) -> (r: Self)
    { unimplemented!() }  // Arc::clone
}
impl MonitorArc {
    // `monitor.as_ref()`: &dyn Monitor from the Arc (type rename `&dyn Monitor` -> `&MonitorArc`)
    #[verifier::external_body]
    fn as_ref(&self) -> (r: &MonitorArc)
    { unimplemented!() }

    // Monitor::error: KEPT (R1): the observable "an error was reported".
    #[verifier::external_body]
    fn error(&self, error: Error)
    { unimplemented!() }
}

// std::time::Duration inside BackupStats: never touched here (as in blockdir_shims.rs).
#[verifier::external_body]
struct OpaqueDuration { inner: u8 }

// BackupStats: the REAL declaration (the contracts of this unit speak about `errors` and `written_blocks`).
//@@ type src/backup.rs | struct BackupStats
//@ rewrite
[n=*] Duration ==> OpaqueDuration
//@@ end

// derive(Default) on BackupStats: all counters zero (R4 redirection of `BackupStats::default()`)
#[verifier::external_body]
fn shim_stats_default() -> (r: BackupStats)
    ensures r.errors == 0, r.written_blocks == 0,
{ unimplemented!() /* BackupStats::default() */ }

// derive_more::AddAssign on BackupStats: field-wise `+=`.  ASSUMED; only the two fields a contract reads are
// described, and overflow of a counter is not modelled (it would need 2^64 events).
#[verifier::external_body]
fn shim_stats_add_assign(s: &mut BackupStats, rhs: BackupStats)
    ensures
        final(s).errors >= old(s).errors,
        rhs.errors == 0 ==> final(s).errors == old(s).errors,
{ unimplemented!() /* *s += rhs */ }

// BlockDir (unit blockdir): opaque here; reached through Arc<BlockDir>.
#[verifier::external_body]
struct BlockDir { _p: () }

// R4: `Arc::clone(&x)`: another handle on the same value (vstd has no spec for it)
#[verifier::external_body]
fn shim_arc_clone<T>(x: &std::sync::Arc<T>) -> (r: std::sync::Arc<T>)
    ensures r == *x,
{ std::sync::Arc::clone(x) }

// positive knowledge (copied from blockdir_spec.rs): a lookup of h in the present-set has returned `false`
uninterp spec fn looked_up_absent(h: Seq<u8>) -> bool;

spec fn some_block_absent(addrs: Seq<Address>) -> bool {
    exists|i: int| 0 <= i < addrs.len() && looked_up_absent(#[trigger] addrs[i].hash@)
}

spec fn all_blocks_known(addrs: Seq<Address>) -> bool {
    forall|i: int| 0 <= i < addrs.len() ==> has_block(#[trigger] addrs[i].hash@)
}

// R7 (lifted verbatim from BackupWriter::copy_file):
//     basis_entry.addrs.iter().all(|addr| self.block_dir.contains(&addr.hash))
// Contract: the obvious quantifier over unit blockdir's `BlockDir::contains`
// (`r ==> has_block(hash@)` = C14.contains_sound; `!r ==> looked_up_absent(hash@)`).
#[verifier::external_body]
fn r7_all_blocks_present(block_dir: &std::sync::Arc<BlockDir>, addrs: &Vec<Address>) -> (r: bool)
    ensures
        r ==> all_blocks_known(addrs@),
        !r ==> some_block_absent(addrs@),
{ unimplemented!() /* addrs.iter().all(|addr| block_dir.contains(&addr.hash)) */ }

//@@ type src/backup.rs | struct QueuedFile
//@@ end

//@@ type src/backup.rs | struct FileCombiner
//@@ end

// ---- copied from combiner_spec.rs (text unchanged) ----
spec fn content_ok(e: IndexEntry) -> bool {
    &&& content_of(e.addrs@) == src_bytes(e.apath@)
    &&& total_len(e.addrs@) == src_bytes(e.apath@).len()
    &&& e.kind == Kind::File
    &&& e.target is None    // only symlinks carry a target (C13)
}
spec fn recorded_ok(e: IndexEntry) -> bool {
    &&& addrs_valid(e.addrs@)
    &&& content_ok(e)
}
spec fn all_in_block(es: Seq<IndexEntry>) -> bool {
    forall|i: int| 0 <= i < es.len() ==> addrs_valid((#[trigger] es[i]).addrs@)
}
spec fn all_content_ok(es: Seq<IndexEntry>) -> bool {
    forall|i: int| 0 <= i < es.len() ==> content_ok(#[trigger] es[i])
}
spec fn queued_ok(q: QueuedFile, buf: Seq<u8>) -> bool {
    &&& q.len > 0
    &&& q.start + q.len <= buf.len()
    &&& src_bytes(q.entry.apath@).len() == q.len
    &&& forall|k: int| 0 <= k < q.len ==> buf[q.start + k] == #[trigger] src_bytes(q.entry.apath@)[k]
    &&& q.entry.addrs@.len() == 0
    &&& q.entry.kind == Kind::File
    &&& q.entry.target is None
}
spec fn flushed_from(e: IndexEntry, q: QueuedFile, buf: Seq<u8>) -> bool {
    &&& e.addrs@.len() == 1
    &&& e.addrs@[0].hash@ == hash_of(buf)
    &&& e.addrs@[0].start as int == q.start as int
    &&& e.addrs@[0].len as int == q.len as int
    &&& e == IndexEntry { addrs: e.addrs, ..q.entry }
}
spec fn flush_post(fin0: Seq<IndexEntry>, queue0: Seq<QueuedFile>, buf0: Seq<u8>, fin1: Seq<IndexEntry>) -> bool {
    &&& fin1.len() == fin0.len() + queue0.len()
    &&& fin1.take(fin0.len() as int) == fin0
    &&& forall|i: int| 0 <= i < queue0.len() ==> flushed_from(#[trigger] fin1[fin0.len() + i], queue0[i], buf0)
}
spec fn entry_paths(es: Seq<IndexEntry>) -> Seq<Seq<char>> {
    Seq::new(es.len(), |i: int| es[i].apath@)
}
spec fn queue_paths(qs: Seq<QueuedFile>) -> Seq<Seq<char>> {
    Seq::new(qs.len(), |i: int| qs[i].entry.apath@)
}
spec fn held(fin: Seq<IndexEntry>, qs: Seq<QueuedFile>) -> vstd::multiset::Multiset<Seq<char>> {
    (entry_paths(fin) + queue_paths(qs)).to_multiset()
}
impl FileCombiner {
    spec fn held_paths(&self) -> vstd::multiset::Multiset<Seq<char>> {
        held(self.finished@, self.queue@)
    }
    spec fn wf_queue(&self) -> bool {
        &&& forall|i: int| 0 <= i < self.queue@.len() ==> queued_ok(#[trigger] self.queue@[i], self.buf@)
        &&& forall|i: int, j: int| 0 <= i < j < self.queue@.len() ==>
                (#[trigger] self.queue@[i]).start + self.queue@[i].len <= (#[trigger] self.queue@[j]).start
    }
    spec fn wf_core(&self) -> bool {
        &&& self.wf_queue()
        &&& all_in_block(self.finished@)
        &&& all_content_ok(self.finished@)
        &&& (self.queue@.len() == 0 ==> self.buf@.len() == 0)
    }
    spec fn wf_buf(&self) -> bool {
        &&& (self.queue@.len() == 0 ==> self.buf@.len() == 0)
        &&& (self.buf@.len() == 0 || self.buf@.len() < self.max_block_size)
    }
    spec fn wf(&self) -> bool {
        &&& self.wf_core()
        &&& self.wf_buf()
    }

//@@ stub combiner src/backup.rs | impl FileCombiner | new
//@@ stub combiner src/backup.rs | impl FileCombiner | drain
//@@ stub combiner src/backup.rs | impl FileCombiner | push_file
}

//@@ stub combiner src/backup.rs | - | store_file_content

// =====================================================================================================
// 6. archive, band, source tree, options (hand stubs; each names the unit whose contract it restates)
// =====================================================================================================
#[verifier::external_body]
struct Exclude { _p: () }
impl Exclude {
    uninterp spec fn excluded(&self, a: Seq<char>) -> bool;

    // Exclude::nothing() (copied from stitch_types.rs)
    #[verifier::external_body]
    fn nothing() -> (r: Exclude)
        ensures forall|a: Seq<char>| !r.excluded(a),
    { unimplemented!() }
}
impl Clone for Exclude {
    #[verifier::external_body]
    fn clone(&self) -> (r: Self)
        ensures r == *self,
    { unimplemented!() }
}

impl Apath {
    // ASSUMED contract of Apath::root (copied from stitch_types.rs)
    #[verifier::external_body]
    fn root() -> (r: Apath)
        ensures r@ == seq!['/'],
    { unimplemented!() }
}

//@@ type src/bandid.rs | struct BandId derive=Clone,Copy
//@@ end

// Archive: opaque handle on the abstract archive (one task; nobody else writes: C06 out of reach).
#[verifier::external_body]
struct Archive { _p: () }

// The stitched listing of version `id` of the archive, whole tree, nothing excluded: stands for unit stitch's
//   listing_spec(*archive, id, bytes_of("/"), Exclude::nothing())
// (prelude/stitch_spec.rs), which cannot be named here (stitch_types.rs clashes with the type base).
uninterp spec fn stitched_listing(a: Archive, id: u32) -> Seq<IndexEntry>;

// unit stitch's `arch_wf(*archive)` (hunks of every band sorted within and across, valid paths: C13's guarantee for
// what conserve writes); a precondition of Stitch::new there, hence of backup() here.
uninterp spec fn arch_wf(a: Archive) -> bool;

impl Archive {
    // ids of the band directories present when the operation started (as in band_shims.rs / select_types.rs)
    uninterp spec fn band_set(&self) -> Set<u32>;

    // unit select, Archive::last_band_id (C02.latest_is_greatest_id, C02.latest_none_iff_no_bands), restated over
    // u32 ids exactly as band_shims.rs restates it; the error clause is dropped (Error is opaque here).
    #[verifier::external_body]
    async fn last_band_id(&self) -> (r: Result<Option<BandId>>)
        ensures
            r matches Ok(None) ==> self.band_set() =~= Set::<u32>::empty(),
            r matches Ok(Some(m)) ==> self.band_set().contains(m.0) && forall|x: u32| self.band_set().contains(x) ==> x <= m.0,
    { unimplemented!() }

    // Archive::block_dir (src/archive.rs): opens the block directory (lists the present blocks).  Not in any unit.
    #[verifier::external_body]
    async fn block_dir(&self) -> (r: Result<std::sync::Arc<BlockDir>>)
    { unimplemented!() }
}

// gc_lock::GarbageCollectionLock::is_locked (src/gc_lock.rs): is_file(GC_LOCK).  Not in any unit; no contract.
#[verifier::external_body]
async fn gc_lock_is_locked(archive: &Archive) -> (r: Result<bool>)
{ unimplemented!() }

// R5: `Error::GarbageCollectionLockHeld` (Error is opaque: no contract speaks about the payload of an error)
#[verifier::external_body]
fn shim_error_gc_lock_held() -> (r: Error)
{ unimplemented!() }

// monotone knowledge (copied from band_shims.rs): BANDHEAD exists in band directory `dir`; BANDTAIL exists and states `count`
uninterp spec fn head_written(dir: Seq<u8>) -> bool;
uninterp spec fn tail_written(dir: Seq<u8>, count: Option<u64>) -> bool;

// Band: opaque here (band_shims.rs has the real struct over its own Transport).  `dir()` = `transport.dir()` there,
// `id()` = `band_id.0`, `index_tid()` = the id() of the transport `self.transport.chdir("i")` handed to the IndexWriter.
#[verifier::external_body]
struct Band { _p: () }
impl Band {
    uninterp spec fn dir(&self) -> Seq<u8>;
    uninterp spec fn id(&self) -> u32;
    uninterp spec fn index_tid(&self) -> int;

    // (unit band) every Band value denotes a band directory whose head exists
    spec fn wf(&self) -> bool { head_written(self.dir()) }

    // Band::create(archive) = create_with_flags(archive, flags::DEFAULT) (src/band.rs; DEFAULT is the empty list).
    // Restates unit band's create_with_flags: C07.new_band_id_above_all (first clause) and C03.O3_head_first; its
    // two preconditions are discharged there for the empty flag list / are the C10.band_id_below_max obligation,
    // which is kept as a precondition here.
    #[verifier::external_body]
    async fn create(archive: &Archive) -> (r: Result<Band>)
        requires
            forall|x: u32| archive.band_set().contains(x) ==> x < u32::MAX, //# C10.band_id_below_max
        ensures
            r matches Ok(b) ==> forall|x: u32| archive.band_set().contains(x) ==> x < b.id(),
            r matches Ok(b) ==> b.wf(),
    { unimplemented!() }

    // Band::index_writer (src/band.rs): `IndexWriter::new(self.transport.chdir(INDEX_DIR), monitor)`; restates unit
    // indexwriter's `IndexWriter::new` contract.
    #[verifier::external_body]
    fn index_writer(&self, monitor: MonitorArc) -> (r: IndexWriter)
        ensures
            r.wf(),
            r.tid() == self.index_tid(),
            r.sequence == 0,
            r.hunks_written == 0,
            r.entries@.len() == 0,
            r.last_written() is None,
    { unimplemented!() }

    // unit band, Band::close (C03.O3_head_first as precondition, C13.tail_states_count as postcondition).
    #[verifier::external_body]
    async fn close(&self, index_hunk_count: u64) -> (r: Result<()>)
        requires
            self.wf(),
        ensures
            r is Ok ==> tail_written(self.dir(), Some(index_hunk_count)),
    { unimplemented!() }
}

// SourceTree (src/source.rs): opaque.
#[verifier::external_body]
struct SourceTree { _p: () }

#[verifier::external_body]
struct SrcPath { _p: () }   // std::path::Path

// the listing a walk of this tree with this exclusion yields (unit walk: strictly increasing, nothing excluded)
uninterp spec fn source_listing(t: SourceTree, ex: Exclude) -> Seq<SourceEntry>;

// what is ASSUMED of every entry the walk emits: a well-formed apath (DESIGN 5: names returned by the OS are non-empty,
// contain no '/' or NUL, are not "." / ".."; unit apath: `append` keeps validity).  That a Symlink entry carries its
// target and a File entry its size needs no assumption: KindMeta::Symlink { target } / File { size } hold them by type.
spec fn source_entry_ok(e: SourceEntry) -> bool {
    e.apath.valid()
}

// SourceTree::open only records the path
uninterp spec fn tree_of(path: SrcPath) -> SourceTree;

impl SourceTree {
    #[verifier::external_body]
    fn open(path: &SrcPath) -> (r: Result<SourceTree>)
        ensures r matches Ok(t) ==> t == tree_of(*path),
    { unimplemented!() }

    // SourceTree::iter_entries -> source::Iter::new (unit walk): the stream is strictly increasing in apath order
    // (C11.walk_strictly_increasing, proved per step there; restated for the whole stream here).  ASSUMED here.
    #[verifier::external_body]
    fn iter_entries(&self, subtree: Apath, exclude: Exclude, monitor: MonitorArc) -> (r: Result<SourceIter>)
        ensures
            r matches Ok(it) ==> it.rem() == source_listing(*self, exclude)
                && increasing(it.rem())
                && forall|i: int| 0 <= i < it.rem().len() ==> source_entry_ok(#[trigger] it.rem()[i]),
    { unimplemented!() }

    // SourceTree::open_file (std::fs::File::open).  ASSUMED (DESIGN 5): the file is a regular file whose bytes are
    // what this backup reads for the path (definition of src_bytes), reads fill the buffer unless EOF, and the file
    // did not grow since it was stat'ed (stable source) -- exactly the preconditions of push_file / store_file_content.
    #[verifier::external_body]
    fn open_file(&self, apath: &Apath) -> (r: Result<SourceReader>)
        ensures
            r matches Ok(f) ==> f.remaining() == src_bytes(apath@) && f.full_reads(),
    { unimplemented!() }
}

// ASSUMPTION (DESIGN 5, stable source): a file does not grow between the stat that produced its entry and the read.
#[verifier::external_body]
proof fn axiom_stable_source(e: &Entry)
    ensures e.kind_meta is File ==> src_bytes(e.apath@).len() <= e.kind_meta->File_size,
{ }

//@@ type src/backup.rs | struct BackupOptions
//@@ end

// std: a Vec of a non-zero-sized element type never holds more than isize::MAX elements ("Vec ... capacity never
// exceeds isize::MAX bytes").  ASSUMED; used for `pending_entries() + queue.len()` not overflowing.
#[verifier::external_body]
proof fn axiom_vec_len_bound<T>(v: &Vec<T>)
    ensures v@.len() <= isize::MAX,
{ }

// `assert_eq!(a, b)` on usize (std macro; Verus cannot take its expansion): the obligation is the precondition (R4).
fn shim_assert_eq_usize(a: usize, b: usize)
    requires
        a == b,
{
}

// `panic!(..)`: reaching it is a proof obligation
#[verifier::external_body]
fn shim_panic(msg: &str) -> !
    requires
        false,
{ panic!("{}", msg) }
