// ---- hunkiter_spec: what reading a band's index hunk by hunk must yield (C08), on the FLATTENED view ----
// Written from the C08 statement ("entries ... that sort after the last path taken so far", "each hunk layout ...
// including missing trailing hunks"), not from the code.
// requires hunkiter_types.rs, order_lemmas.rs

type HunkView = Map<u32, std::result::Result<Seq<IndexEntry>, ()>>;

spec fn opt_apath_view(o: Option<Apath>) -> Option<Seq<char>> {
    match o { Some(a) => Some(a@), None => None }
}

// "entry sorts after path a"
spec fn gt_pred(a: Seq<char>) -> spec_fn(IndexEntry) -> bool {
    |e: IndexEntry| apath_cmp(e.apath@, a) == Ordering::Greater
}

// the entries of one hunk that sort after `after` (all of them when there is no resume point)
spec fn after_filter(s: Seq<IndexEntry>, after: Option<Seq<char>>) -> Seq<IndexEntry> {
    match after { None => s, Some(a) => s.filter(gt_pred(a)) }
}

// THE FLATTENED REMAINDER: concatenation, over the hunk numbers still to visit, stopping at the first missing
// one, skipping unreadable ones, of the entries greater than `after`.
spec fn flat_remaining(view: HunkView, rem: Seq<u32>, after: Option<Seq<char>>) -> Seq<IndexEntry>
    decreases rem.len()
{
    if rem.len() == 0 { Seq::<IndexEntry>::empty() }
    else if !view.contains_key(rem[0]) { Seq::<IndexEntry>::empty() }
    else {
        match view[rem[0]] {
            Err(_) => flat_remaining(view, rem.skip(1), after),
            Ok(es) => after_filter(es, after) + flat_remaining(view, rem.skip(1), after),
        }
    }
}

// every entry of every readable hunk among `rem` sorts after `a`
spec fn hunks_above(view: HunkView, rem: Seq<u32>, a: Seq<char>) -> bool
    decreases rem.len()
{
    rem.len() == 0 || {
        &&& (view.contains_key(rem[0]) ==> (view[rem[0]] matches Ok(es) ==>
                forall|k: int| 0 <= k < es.len() ==> apath_cmp(a, #[trigger] es[k].apath@) == Ordering::Less))
        &&& hunks_above(view, rem.skip(1), a)
    }
}

// ARCHIVE WELL-FORMEDNESS as far as this iterator depends on it (C13's guarantee for what conserve writes):
// every readable hunk is strictly increasing, and every later readable hunk lies entirely above it.
spec fn hunks_wf(view: HunkView, rem: Seq<u32>) -> bool
    decreases rem.len()
{
    rem.len() == 0 || {
        &&& (view.contains_key(rem[0]) ==> (view[rem[0]] matches Ok(es) ==>
                entries_sorted(es) && (es.len() > 0 ==> hunks_above(view, rem.skip(1), es.last().apath@))))
        &&& hunks_wf(view, rem.skip(1))
    }
}

// ---------------- order facts on apath strings (from order_lemmas.rs) ----------------

proof fn lemma_ac_flip(a: Seq<char>, b: Seq<char>)
    ensures apath_cmp(b, a) == flip(apath_cmp(a, b)),
{
    lemma_split_nonempty(bytes_of(a), SLASH);
    lemma_split_nonempty(bytes_of(b), SLASH);
    lemma_doc_flip(str_comps(a), str_comps(b));
}

proof fn lemma_ac_trans(a: Seq<char>, b: Seq<char>, c: Seq<char>)
    requires apath_cmp(a, b) != Ordering::Greater, apath_cmp(b, c) != Ordering::Greater,
    ensures
        apath_cmp(a, c) != Ordering::Greater,
        (apath_cmp(a, b) == Ordering::Less || apath_cmp(b, c) == Ordering::Less) ==> apath_cmp(a, c) == Ordering::Less,
{
    lemma_split_nonempty(bytes_of(a), SLASH);
    lemma_split_nonempty(bytes_of(b), SLASH);
    lemma_split_nonempty(bytes_of(c), SLASH);
    lemma_doc_trans(str_comps(a), str_comps(b), str_comps(c));
}

// ---------------- one hunk ----------------

// In a sorted hunk, if everything before idx is <= a and everything from idx on is > a, then the entries
// greater than a are exactly the suffix from idx.
proof fn lemma_filter_suffix(es: Seq<IndexEntry>, a: Seq<char>, idx: int)
    requires
        0 <= idx <= es.len(),
        forall|k: int| 0 <= k < idx ==> apath_cmp(#[trigger] es[k].apath@, a) != Ordering::Greater,
        forall|k: int| idx <= k < es.len() ==> apath_cmp(#[trigger] es[k].apath@, a) == Ordering::Greater,
    ensures es.filter(gt_pred(a)) == es.skip(idx),
    decreases es.len()
{
    reveal(Seq::filter);
    if es.len() == 0 {
        assert(es.skip(idx) =~= es);
        assert(es.filter(gt_pred(a)) =~= es);
    } else {
        let init = es.drop_last();
        if idx == es.len() {
            lemma_filter_suffix(init, a, idx - 1);
            assert(init.skip(idx - 1) =~= Seq::<IndexEntry>::empty());
            assert(es.skip(idx) =~= Seq::<IndexEntry>::empty());
        } else {
            lemma_filter_suffix(init, a, idx);
            assert(es.skip(idx) =~= init.skip(idx).push(es.last()));
        }
    }
}

// sorted hunk whose last entry is <= a: nothing is greater than a
proof fn lemma_hunk_all_le(es: Seq<IndexEntry>, a: Seq<char>)
    requires entries_sorted(es), es.len() > 0, apath_cmp(es.last().apath@, a) != Ordering::Greater,
    ensures after_filter(es, Some(a)) == Seq::<IndexEntry>::empty(),
{
    reveal(entries_sorted);
    assert forall|k: int| 0 <= k < es.len() implies apath_cmp(#[trigger] es[k].apath@, a) != Ordering::Greater by {
        if k < es.len() - 1 {
            assert(apath_cmp(es[k].apath@, es[es.len() - 1].apath@) == Ordering::Less);
            lemma_ac_trans(es[k].apath@, es.last().apath@, a);
        }
    }
    lemma_filter_suffix(es, a, es.len() as int);
    assert(es.skip(es.len() as int) =~= Seq::<IndexEntry>::empty());
}

// sorted hunk whose first entry is > a: everything is greater than a
proof fn lemma_hunk_all_gt(es: Seq<IndexEntry>, a: Seq<char>)
    requires entries_sorted(es), es.len() > 0, apath_cmp(es[0].apath@, a) == Ordering::Greater,
    ensures
        after_filter(es, Some(a)) == es,
        apath_cmp(a, es.last().apath@) == Ordering::Less,
{
    reveal(entries_sorted);
    assert forall|k: int| 0 <= k < es.len() implies apath_cmp(#[trigger] es[k].apath@, a) == Ordering::Greater by {
        lemma_ac_flip(es[0].apath@, a);
        if k > 0 {
            assert(apath_cmp(es[0].apath@, es[k].apath@) == Ordering::Less);
            lemma_ac_trans(a, es[0].apath@, es[k].apath@);
        }
        lemma_ac_flip(a, es[k].apath@);
    }
    lemma_filter_suffix(es, a, 0);
    assert(es.skip(0) =~= es);
    lemma_ac_flip(es.last().apath@, a);
}

// the binary-search outcome on a sorted hunk: `idx` (found position + 1, or the insertion point) splits the
// hunk into "<= a" and "> a"
proof fn lemma_hunk_split_found(es: Seq<IndexEntry>, a: Seq<char>, i: int)
    requires entries_sorted(es), 0 <= i < es.len(), apath_cmp(es[i].apath@, a) == Ordering::Equal,
    ensures after_filter(es, Some(a)) == es.skip(i + 1),
{
    reveal(entries_sorted);
    lemma_apath_cmp_equal_iff_same_string(es[i].apath@, a);
    assert forall|k: int| 0 <= k < i + 1 implies apath_cmp(#[trigger] es[k].apath@, a) != Ordering::Greater by {
        if k < i { assert(apath_cmp(es[k].apath@, es[i].apath@) == Ordering::Less); }
    }
    assert forall|k: int| i + 1 <= k < es.len() implies apath_cmp(#[trigger] es[k].apath@, a) == Ordering::Greater by {
        assert(apath_cmp(es[i].apath@, es[k].apath@) == Ordering::Less);
        lemma_ac_flip(es[i].apath@, es[k].apath@);
    }
    lemma_filter_suffix(es, a, i + 1);
}

proof fn lemma_hunk_split_insertion(es: Seq<IndexEntry>, a: Seq<char>, i: int)
    requires
        0 <= i <= es.len(),
        forall|k: int| 0 <= k < i ==> apath_cmp(#[trigger] es[k].apath@, a) == Ordering::Less,
        forall|k: int| i <= k < es.len() ==> apath_cmp(#[trigger] es[k].apath@, a) == Ordering::Greater,
    ensures after_filter(es, Some(a)) == es.skip(i),
{
    lemma_filter_suffix(es, a, i);
}

// ---------------- across hunks ----------------

proof fn lemma_hunks_above_weaken(view: HunkView, rem: Seq<u32>, a: Seq<char>, b: Seq<char>)
    requires hunks_above(view, rem, b), apath_cmp(a, b) != Ordering::Greater,
    ensures hunks_above(view, rem, a),
    decreases rem.len()
{
    if rem.len() > 0 {
        lemma_hunks_above_weaken(view, rem.skip(1), a, b);
        if view.contains_key(rem[0]) {
            if let Ok(es) = view[rem[0]] {
                assert forall|k: int| 0 <= k < es.len() implies apath_cmp(a, #[trigger] es[k].apath@) == Ordering::Less by {
                    lemma_ac_trans(a, b, es[k].apath@);
                }
            }
        }
    }
}

// once every remaining hunk lies above a, the resume point no longer filters anything: this is why clearing
// `after` is sound — and it is sound ONLY because of the across-hunk ordering
proof fn lemma_flat_above(view: HunkView, rem: Seq<u32>, a: Seq<char>)
    requires hunks_above(view, rem, a),
    ensures flat_remaining(view, rem, Some(a)) == flat_remaining(view, rem, None),
    decreases rem.len()
{
    if rem.len() > 0 && view.contains_key(rem[0]) {
        lemma_flat_above(view, rem.skip(1), a);
        if let Ok(es) = view[rem[0]] {
            assert forall|k: int| 0 <= k < es.len() implies apath_cmp(#[trigger] es[k].apath@, a) == Ordering::Greater by {
                lemma_ac_flip(a, es[k].apath@);
            }
            lemma_filter_suffix(es, a, 0);
            assert(es.skip(0) =~= es);
        }
    }
}

// wf is inherited by every suffix of the hunk-number list
proof fn lemma_hunks_wf_skip(view: HunkView, rem: Seq<u32>, k: int)
    requires hunks_wf(view, rem), 0 <= k <= rem.len(),
    ensures hunks_wf(view, rem.skip(k)),
    decreases k
{
    if k == 0 { assert(rem.skip(0) =~= rem); }
    else {
        lemma_hunks_wf_skip(view, rem.skip(1), k - 1);
        assert(rem.skip(1).skip(k - 1) =~= rem.skip(k));
    }
}

// ---------------- hint forms (no `requires`): used inside the extracted body ----------------
// A lemma precondition that fails on changed code would only be an "undecided" proof step and would hide the
// labelled clause behind it; these implication forms leave the decision to the labelled clauses.

proof fn hint_hunk_cases(es: Seq<IndexEntry>, a: Seq<char>)
    ensures
        (entries_sorted(es) && es.len() > 0 && apath_cmp(es.last().apath@, a) != Ordering::Greater)
            ==> after_filter(es, Some(a)) == Seq::<IndexEntry>::empty(),
        (entries_sorted(es) && es.len() > 0 && apath_cmp(es[0].apath@, a) == Ordering::Greater)
            ==> after_filter(es, Some(a)) == es && apath_cmp(a, es.last().apath@) == Ordering::Less,
{
    if entries_sorted(es) && es.len() > 0 {
        if apath_cmp(es.last().apath@, a) != Ordering::Greater { lemma_hunk_all_le(es, a); }
        if apath_cmp(es[0].apath@, a) == Ordering::Greater { lemma_hunk_all_gt(es, a); }
    }
}

proof fn hint_found(es: Seq<IndexEntry>, a: Seq<char>, i: int)
    ensures
        (entries_sorted(es) && 0 <= i < es.len() && apath_cmp(es[i].apath@, a) == Ordering::Equal)
            ==> after_filter(es, Some(a)) == es.skip(i + 1),
{
    if entries_sorted(es) && 0 <= i < es.len() && apath_cmp(es[i].apath@, a) == Ordering::Equal {
        lemma_hunk_split_found(es, a, i);
    }
}

proof fn hint_insertion(es: Seq<IndexEntry>, a: Seq<char>, i: int)
    ensures
        (0 <= i <= es.len()
         && (forall|k: int| 0 <= k < i ==> apath_cmp(#[trigger] es[k].apath@, a) == Ordering::Less)
         && (forall|k: int| i <= k < es.len() ==> apath_cmp(#[trigger] es[k].apath@, a) == Ordering::Greater))
            ==> after_filter(es, Some(a)) == es.skip(i),
{
    if 0 <= i <= es.len()
         && (forall|k: int| 0 <= k < i ==> apath_cmp(#[trigger] es[k].apath@, a) == Ordering::Less)
         && (forall|k: int| i <= k < es.len() ==> apath_cmp(#[trigger] es[k].apath@, a) == Ordering::Greater) {
        lemma_hunk_split_insertion(es, a, i);
    }
}

proof fn hint_clear_after(view: HunkView, rest: Seq<u32>, a: Seq<char>, b: Seq<char>)
    ensures
        (hunks_above(view, rest, b) && apath_cmp(a, b) != Ordering::Greater)
            ==> flat_remaining(view, rest, Some(a)) == flat_remaining(view, rest, None),
{
    if hunks_above(view, rest, b) && apath_cmp(a, b) != Ordering::Greater {
        lemma_hunks_above_weaken(view, rest, a, b);
        lemma_flat_above(view, rest, a);
    }
}


// Positive knowledge "the failure to read hunk n was reported to the user (monitor / error return)".
// Obtainable only from a reporting call; `IndexHunkIter::next` makes none (known finding, C10).
uninterp spec fn hunk_failure_reported(n: u32) -> bool;
