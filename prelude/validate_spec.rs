// ---- validate_spec: what validate must compute and report (written from the C09 statement and doc/format.md:
// "addrs: a list of block addresses {hash, start, len}"; a file's content is the concatenation of those ranges, so a
// version restores exactly only if every referenced range [start, start+len) lies inside its block) ----

// the address's range does not run past the end of the u64 line (C10: decoded values are arbitrary u64)
spec fn addr_fits(a: Address) -> bool { a.start as int + a.len as int <= u64::MAX as int }

// one past the last referenced byte of the block
spec fn addr_end(a: Address) -> u64 { (a.start as int + a.len as int) as u64 }

spec fn max_u64(a: u64, b: u64) -> u64 { if a >= b { a } else { b } }

// record that bytes up to `end` of block h are referenced
spec fn lens_add(m: Map<Seq<u8>, u64>, h: Seq<u8>, end: u64) -> Map<Seq<u8>, u64> {
    m.insert(h, if m.contains_key(h) { max_u64(m[h], end) } else { end })
}

spec fn lens_of_addrs(m: Map<Seq<u8>, u64>, addrs: Seq<Address>) -> Map<Seq<u8>, u64>
    decreases addrs.len()
{
    if addrs.len() == 0 { m }
    else { lens_add(lens_of_addrs(m, addrs.drop_last()), addrs.last().hash@, addr_end(addrs.last())) }
}

// THE REFERENCED LENGTHS of a tree: for every block named by an address of a File entry, the largest start+len
// (only File entries have content: format.md "addrs ... for files")
spec fn ref_lens(entries: Seq<IndexEntry>) -> Map<Seq<u8>, u64>
    decreases entries.len()
{
    if entries.len() == 0 { Map::empty() }
    else {
        let m = ref_lens(entries.drop_last());
        let e = entries.last();
        if e.kind == Kind::File { lens_of_addrs(m, e.addrs@) } else { m }
    }
}

spec fn addrs_fit(addrs: Seq<Address>) -> bool {
    forall|j: int| 0 <= j < addrs.len() ==> addr_fits(#[trigger] addrs[j])
}

spec fn lens_fit(entries: Seq<IndexEntry>) -> bool {
    forall|i: int| 0 <= i < entries.len() && (#[trigger] entries[i]).kind == Kind::File ==> addrs_fit(entries[i].addrs@)
}

// ---- the fold above IS "max(start+len) per hash" (declarative reading, proved, so that ref_lens is not merely a
// transcription of the loop): every File address is covered, and every recorded length is attained by one ----

spec fn covers(m: Map<Seq<u8>, u64>, a: Address) -> bool {
    m.contains_key(a.hash@) && m[a.hash@] >= addr_end(a)
}

// (i, j) names a File address with hash h and end v
spec fn attains(entries: Seq<IndexEntry>, h: Seq<u8>, v: u64, i: int, j: int) -> bool {
    0 <= i < entries.len() && entries[i].kind == Kind::File && 0 <= j < entries[i].addrs@.len()
        && entries[i].addrs@[j].hash@ == h && addr_end(entries[i].addrs@[j]) == v
}

proof fn lemma_lens_of_addrs(m: Map<Seq<u8>, u64>, addrs: Seq<Address>)
    ensures
        forall|h: Seq<u8>| #[trigger] m.contains_key(h) ==> lens_of_addrs(m, addrs).contains_key(h) && lens_of_addrs(m, addrs)[h] >= m[h],
        forall|j: int| 0 <= j < addrs.len() ==> covers(lens_of_addrs(m, addrs), #[trigger] addrs[j]),
        forall|h: Seq<u8>| #[trigger] lens_of_addrs(m, addrs).contains_key(h) ==>
            (m.contains_key(h) && lens_of_addrs(m, addrs)[h] == m[h])
            || exists|j: int| 0 <= j < addrs.len() && (#[trigger] addrs[j]).hash@ == h && addr_end(addrs[j]) == lens_of_addrs(m, addrs)[h],
    decreases addrs.len()
{
    if addrs.len() > 0 {
        let pre = addrs.drop_last();
        lemma_lens_of_addrs(m, pre);
        let mp = lens_of_addrs(m, pre);
        let r = lens_of_addrs(m, addrs);
        let last = addrs.last();
        assert(r == lens_add(mp, last.hash@, addr_end(last)));
        assert forall|h: Seq<u8>| #[trigger] m.contains_key(h) implies r.contains_key(h) && r[h] >= m[h] by {
            assert(mp.contains_key(h) && mp[h] >= m[h]);
        }
        assert forall|j: int| 0 <= j < addrs.len() implies covers(r, #[trigger] addrs[j]) by {
            if j < addrs.len() - 1 {
                assert(addrs[j] == pre[j]);
                assert(covers(mp, pre[j]));
            }
        }
        assert forall|h: Seq<u8>| #[trigger] r.contains_key(h) implies
            (m.contains_key(h) && r[h] == m[h])
            || exists|j: int| 0 <= j < addrs.len() && (#[trigger] addrs[j]).hash@ == h && addr_end(addrs[j]) == r[h] by {
            if h == last.hash@ && r[h] == addr_end(last) {
                assert(addrs[addrs.len() - 1].hash@ == h);
            } else {
                assert(mp.contains_key(h) && mp[h] == r[h]);
                if !(m.contains_key(h) && mp[h] == m[h]) {
                    let j = choose|j: int| 0 <= j < pre.len() && (#[trigger] pre[j]).hash@ == h && addr_end(pre[j]) == mp[h];
                    assert(addrs[j] == pre[j]);
                }
            }
        }
    }
}

// C09.referenced_len_is_max_end, declarative form
proof fn lemma_ref_lens_is_max(entries: Seq<IndexEntry>)
    ensures
        forall|i: int, j: int| 0 <= i < entries.len() && entries[i].kind == Kind::File && 0 <= j < entries[i].addrs@.len()
            ==> covers(ref_lens(entries), #[trigger] entries[i].addrs@[j]),
        forall|h: Seq<u8>| #[trigger] ref_lens(entries).contains_key(h) ==>
            exists|i: int, j: int| attains(entries, h, ref_lens(entries)[h], i, j),
    decreases entries.len()
{
    if entries.len() > 0 {
        let pre = entries.drop_last();
        lemma_ref_lens_is_max(pre);
        let mp = ref_lens(pre);
        let e = entries.last();
        let r = ref_lens(entries);
        let n = entries.len() - 1;
        if e.kind == Kind::File { lemma_lens_of_addrs(mp, e.addrs@); }
        assert forall|i: int, j: int| 0 <= i < entries.len() && entries[i].kind == Kind::File && 0 <= j < entries[i].addrs@.len()
            implies covers(r, #[trigger] entries[i].addrs@[j]) by {
            if i < n {
                assert(entries[i] == pre[i]);
                assert(covers(mp, pre[i].addrs@[j]));
                if e.kind == Kind::File { assert(r.contains_key(pre[i].addrs@[j].hash@)); }
            }
        }
        assert forall|h: Seq<u8>| #[trigger] r.contains_key(h) implies
            exists|i: int, j: int| attains(entries, h, r[h], i, j) by {
            if mp.contains_key(h) && r[h] == mp[h] {
                let (i, j) = choose|i: int, j: int| attains(pre, h, mp[h], i, j);
                assert(entries[i] == pre[i]);
                assert(attains(entries, h, r[h], i, j));
            } else {
                assert(e.kind == Kind::File);
                let j = choose|j: int| 0 <= j < e.addrs@.len() && (#[trigger] e.addrs@[j]).hash@ == h && addr_end(e.addrs@[j]) == r[h];
                assert(attains(entries, h, r[h], n, j));
            }
        }
    }
}

// ---- merging the per-band maps: pointwise maximum on the union of the key sets ----
spec fn merge_max(a: Map<Seq<u8>, u64>, b: Map<Seq<u8>, u64>) -> Map<Seq<u8>, u64> {
    Map::new(
        a.dom().union(b.dom()),
        |k: Seq<u8>| if a.contains_key(k) && b.contains_key(k) { max_u64(a[k], b[k]) } else if a.contains_key(k) { a[k] } else { b[k] },
    )
}
